(* driver for Lib/Api.v: results are symbolic terms (free interpretation of result_of / gen_of) *)
let to_on = to_opt to_n
let of_on = of_opt of_n
let to_cargs = function
  | L [nm; g; s; am; bo; st; op] ->
      { c_name = to_on nm; c_gram = to_n g; c_sem = to_on s; c_asmodel = to_bool am; c_bopt = to_on bo;
        c_settings = to_n st; c_opaque = to_bool op }
  | _ -> failwith "cargs"
let to_pargs = function
  | L [s; am; r] -> { p_sem = to_on s; p_asmodel = to_bool am; p_rest = to_n r }
  | _ -> failwith "pargs"
let to_targs = function
  | L [g; s; am; bo; st; r] ->
      { t_gram = to_n g; t_sem = to_on s; t_asmodel = to_bool am; t_bopt = to_on bo; t_settings = to_n st;
        t_rest = to_n r }
  | _ -> failwith "targs"
let to_op = function
  | L [A "compile"; a] -> OCompile (to_cargs a)
  | L [A "parsevar"; v; p] -> OParseVar (to_nat v, to_pargs p)
  | L [A "cparse"; a; p] -> OCompileParse (to_cargs a, to_pargs p)
  | L [A "tparse"; t] -> OTatsuParse (to_targs t)
  | L [A "gen"; a] -> OGen (to_cargs a)
  | _ -> failwith "op"
let of_gm g = L [of_on g.gm_name; of_n g.gm_gram; of_n g.gm_settings]
let of_sem = function
  | SNone -> A "none"
  | SUser s -> L [A "user"; of_n s]
  | SBuilder b -> L [A "builder"; of_on b]
let of_err = function EConfig -> A "config" | EBoot -> A "boot" | EUnbound -> A "unbound"
let of_res = function
  | RErr e -> L [A "err"; of_err e]
  | RModel (g, s) -> L [A "model"; of_gm g; of_sem s]
  | RVal r -> r
let result_of g s rest = L [A "val"; of_gm g; of_sem s; of_n rest]
let gen_of g = L [A "gen"; of_gm g]
let handle = function
  | L [A "run"; variant; invalid; bootfail; ops] ->
      let invalid = List.map int_of_n (to_list to_n invalid) in
      let bootfail = to_list (function L [nm; g; s] -> (to_on nm, int_of_n (to_n g), int_of_n (to_n s)) | _ -> failwith "bootfail") bootfail in
      let settings_valid s = not (List.mem (int_of_n s) invalid) in
      let boot_ok nm g s = not (List.mem (nm, int_of_n g, int_of_n s) bootfail) in
      let compile = match variant with
        | A "f" -> compile_f settings_valid boot_ok
        | A "r" -> compile_r settings_valid boot_ok
        | _ -> failwith "variant" in
      let run st o = run_op settings_valid result_of gen_of compile st o in
      let st = ref init in
      let out = List.map (fun o ->
          let (st1, th) = run !st o in
          let (_, t0) = run init (fresh_form !st o) in
          st := st1;
          L [of_res th; of_res t0]) (to_list to_op ops) in
      L out
  | _ -> A "bad-request"
let () = serve handle
