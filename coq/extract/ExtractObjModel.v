From Coq Require Import Extraction ExtrOcamlBasic.
From TatsuV Require Import Base.PyStr Lib.ObjModel.
Extraction "objmodel.ml" nums_witness basekeys wfb pub children links parent_of walk_dfs walk_post walk_bfs
  allin spec_attrs vid vcls plain build plainc erase declare_all setord_id run_walkers resolve nearest.
