From Coq Require Import Extraction ExtrOcamlBasic.
From TatsuV Require Import Base.PyStr Lib.Rle Lib.Queue Lib.QueueGen.
Extraction "packetz.ml" nums_witness rle_encode rle_decode rle_decode_twopass replace contains run recv grun.
