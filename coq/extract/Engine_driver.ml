(* request:
   (parse MODE FUEL START (rules ...) TEXT (re (id (pos len value)...)...) (uni (alnum ...) (alpha ...) (lower (a b)...) (upper (a b)...))
          (icfg ws cm eol nameguard ignorecase (namechars)) (unsafe str...) (ecfg memo lrec prune cap pinfo (kw...))
          (sem default (r kind)...) (lineat n...) OPT)
   MODE: f (faithful) | p (clean);  OPT: 1 = apply rule_optimized to every rule first
   reply: (ok VALUE bodies) | (fail bodies) | (fatal KIND bodies)                                         *)

let rec to_value = function
  | A "none" -> VNone
  | L [A "str"; s] -> VStr (to_str s)
  | L [A "int"; z] -> VInt (to_z z)
  | L [A "bool"; b] -> VBool (to_bool b)
  | L (A "tuple" :: l) -> VTuple (List.map to_value l)
  | L (A "list" :: c :: l) -> VList (to_bool c, List.map to_value l)
  | L (A "dict" :: kv) -> VDict (List.map (function L [k; v] -> (to_str k, to_value v) | _ -> failwith "kv") kv)
  | L (A "tag" :: t :: l) -> VTag (to_n t, List.map to_value l)
  | _ -> failwith "value"

let rec of_value = function
  | VNone -> A "none"
  | VStr s -> L [A "str"; of_str s]
  | VInt z -> L [A "int"; of_z z]
  | VBool b -> L [A "bool"; of_bool b]
  | VTuple l -> L (A "tuple" :: List.map of_value l)
  | VList (c, l) -> L (A "list" :: of_bool c :: List.map of_value l)
  | VDict kv -> L (A "dict" :: List.map (fun (k, v) -> L [of_str k; of_value v]) kv)
  | VInfo (r, p, e, l, el) -> L [A "info"; of_nat r; of_nat p; of_nat e; of_nat l; of_nat el]
  | VTag (t, l) -> L (A "tag" :: of_n t :: List.map of_value l)

let to_meta = function
  | A "name" -> MName | A "int" -> MInt | A "uint" -> MUInt | A "float" -> MFloat | A "bool" -> MBool
  | _ -> failwith "meta"

let rec to_exp = function
  | L [A "tok"; s] -> Leaf (LTok (to_str s))
  | L [A "pat"; i] -> Leaf (LPat (to_nat i))
  | L [A "const"; v] -> Leaf (LConst (to_value v))
  | A "void" -> Leaf LVoid | A "fail" -> Leaf LFail | A "cut" -> Leaf LCut
  | A "eof" -> Leaf LEOF | A "dot" -> Leaf LDot | A "empty" -> Leaf LEmpty
  | L [A "meta"; m] -> Leaf (LMeta (to_meta m))
  | L (A "seq" :: es) -> Seq (List.map to_exp es)
  | L (A "choice" :: es) -> Choice (List.map to_exp es)
  | L [A "group"; e] -> Group (to_exp e)
  | L [A "skipgroup"; e] -> SkipGroup (to_exp e)
  | L [A "opt"; e] -> Opt (to_exp e)
  | L [A "rep"; plus; sep; omit; e] -> Rep (to_bool plus, to_opt to_exp sep, to_bool omit, to_exp e)
  | L [A "look"; neg; e] -> Look (to_bool neg, to_exp e)
  | L [A "skipto"; e] -> SkipTo (to_exp e)
  | L [A "assoc"; lft; e] -> Assoc (to_bool lft, to_exp e)
  | L [A "call"; r] -> Call (to_nat r)
  | L [A "named"; il; n; e] -> Named (to_bool il, to_str n, to_exp e)
  | L [A "over"; il; e] -> Over (to_bool il, to_exp e)
  | _ -> failwith "exp"

let to_rule idx = function
  | L [A "rule"; tokn; isname; nomemo; lrec; memo; e] ->
    { r_name = nat_of_int idx; r_exp = to_exp e; r_tokn = to_bool tokn; r_isname = to_bool isname;
      r_nomemo = to_bool nomemo; r_lrec = to_bool lrec; r_memo = to_bool memo }
  | _ -> failwith "rule"

let to_sem = function
  | A "none" -> SNone | A "identity" -> SIdentity | A "tag" -> STag | A "wrap" -> SWrap
  | L [A "failif"; s] -> SFailIf (to_str s)
  | L [A "raiseif"; s; x] -> SRaiseIf (to_str s, to_nat x)
  | L [A "const"; v] -> SConst (to_value v)
  | L [A "failsize"; n] -> SFailSize (to_nat n)
  | _ -> failwith "sem"

let handle = function
  | L [A "parse"; A mode; fuel; start; L (A "rules" :: rules); text; L (A "re" :: res); L [A "uni"; L (A "alnum" :: alnum); L (A "alpha" :: alpha); L (A "lower" :: lower); L (A "upper" :: upper)];
       L [A "icfg"; ws; cm; eol; ng; igc; nch]; L (A "unsafe" :: unsafe); L [A "ecfg"; memo; lrec; prune; cap; pinfo; L kws];
       L (A "sem" :: dflt :: methods); L (A "lineat" :: lineat); opt] ->
    let retab : (int * int, (nat * str)) Hashtbl.t = Hashtbl.create 64 in
    List.iter (function
      | L (id :: entries) ->
        let id = to_int id in
        List.iter (function L [p; l; v] -> Hashtbl.replace retab (id, to_int p) (to_nat l, to_str v) | _ -> failwith "re entry") entries
      | _ -> failwith "re") res;
    let re_at id pos = Hashtbl.find_opt retab (int_of_nat id, int_of_nat pos) in
    let set_of l = let h = Hashtbl.create 16 in List.iter (fun x -> Hashtbl.replace h (to_int x) ()) l; fun c -> Hashtbl.mem h (int_of_n c) in
    let map_of l = let h = Hashtbl.create 16 in
      List.iter (function L [a; b] -> Hashtbl.replace h (to_int a) (to_int b) | _ -> failwith "map") l;
      fun c -> (match Hashtbl.find_opt h (int_of_n c) with Some b -> n_of_int b | None -> c) in
    let ic = { ws_re = to_opt to_nat ws; cm_re = to_opt to_nat cm; eol_re = to_opt to_nat eol;
               nameguard = to_bool ng; ignorecase = to_bool igc; namechars = to_list to_n nch } in
    let ec = { memoization = to_bool memo; left_recursion = to_bool lrec; prune_on_cut = to_bool prune;
               memo_cap = to_nat cap; parseinfo = to_bool pinfo; keywords = List.map to_str kws } in
    let rules = List.mapi to_rule rules in
    let rules = if to_bool opt then List.map rule_optimized rules else rules in
    let act = act_of (List.map (function L [r; k] -> (to_nat r, to_sem k) | _ -> failwith "method") methods) (to_sem dflt) in
    let la = Array.of_list (List.map to_int lineat) in
    let lineat p = let i = int_of_nat p in if i < Array.length la then nat_of_int la.(i) else O in
    let text = to_str text in
    let unsafe = List.map to_str unsafe in
    let show_res r bodies = match r with
      | Ok (v, _) -> L [A "ok"; of_value v; bodies]
      | Fail _ -> L [A "fail"; bodies]
      | Fatal OOF -> L [A "fatal"; A "oof"; bodies]
      | Fatal Hang -> L [A "fatal"; A "hang"; bodies]
      | Fatal (Foreign x) -> L [A "fatal"; L [A "foreign"; of_nat x]; bodies] in
    if mode = "g" then
      let (r, st) = genparse_with text re_at (set_of alnum) (set_of alpha) (map_of lower) (map_of upper) ic unsafe rules ec act lineat (to_nat fuel) (to_nat start) in
      show_res r (of_list of_nat (List.rev st.nbody))
    else if mode = "f" then
      let (r, st) = parse_with text re_at (set_of alnum) (set_of alpha) (map_of lower) (map_of upper) ic unsafe rules ec act lineat (to_nat fuel) (to_nat start) in
      show_res r (of_list of_nat (List.rev st.nbody))
    else
      let r = pparse_with text re_at (set_of alnum) (set_of alpha) (map_of lower) (map_of upper) ic unsafe rules ec act lineat (to_nat fuel) (to_nat start) in
      show_res r (L [])
  | L [A "genok"; opt; L (A "rules" :: rules)] ->
    (* which rule bodies lie in the fragment of GenEquiv.genok (after the optimizer, when asked) *)
    let rules = List.mapi to_rule rules in
    let rules = if to_bool opt then List.map rule_optimized rules else rules in
    L (List.map (fun r -> if genok r.r_exp then A "1" else A "0") rules)
  | L [A "layer"; L defaults; L ct; L dir; L pt] ->
    (* fields: (name value-or-none) *)
    let kv = function L [k; v] -> (to_str k, to_opt to_n v) | _ -> failwith "kv" in
    let r = effective (List.map kv defaults) (List.map kv ct) (List.map kv dir) (List.map kv pt) in
    L (List.map (fun (k, v) -> L [of_str k; of_opt of_n v]) r)
  | _ -> A "bad-request"
let () = serve handle
