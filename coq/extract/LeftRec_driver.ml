(* requests:
   (analyse posfix (rule ...))   posfix = 1: PositiveClosure._nullable repaired (oracle rn = fun _ => false)
     rule = (name nomemo body), name = list of code points, nomemo = 0|1
     body = (call i) | (leaf 0|1) | cut | (seq (e ...)) | (choice (e ...)) | (box plain|true|pos e)
   reply: (marks_head marks_fixed graph rn nullopt error_off error_on sccs commons)
     marks = ((lrec memo) ...); graph = ((j ...) ...); rn = (0|1 ...); nullopt = (none|(some b) ...)
   (calls rn_list e)  -> ((ids ...) safe nullable)  with the oracle given as a list of 0|1 *)
let rec to_exp = function
  | L [A "call"; i] -> Call (to_nat i)
  | L [A "leaf"; b] -> Leaf (to_bool b)
  | A "cut" -> CutE
  | L [A "seq"; l] -> Seq (to_list to_exp l)
  | L [A "choice"; l] -> Choice (to_list to_exp l)
  | L [A "box"; A "plain"; e] -> Box (BPlain, to_exp e)
  | L [A "box"; A "true"; e] -> Box (BTrue, to_exp e)
  | L [A "box"; A "pos"; e] -> Box (BPos, to_exp e)
  | _ -> failwith "exp"
let to_rule = function
  | L [n; m; b] -> { r_name = to_str n; r_nomemo = to_bool m; r_body = to_exp b }
  | _ -> failwith "rule"
let of_marks m = of_list (fun (a, b) -> L [of_bool a; of_bool b]) m
let rec upto n = if n <= 0 then [] else upto (n - 1) @ [n - 1]
let handle = function
  | L [A "analyse"; posfix; rs] ->
      let rules = to_list to_rule rs in
      let n = List.length rules in
      let rn = if to_bool posfix then (fun _ -> false) else rn_of rules in
      let g = graph_of rn rules in
      let idx = List.map nat_of_int (upto n) in
      (* mark rules = mark_with false (rn_of rules) rules by definition; cross-checked here *)
      if not (to_bool posfix) && (mark rules <> mark_with false rn rules || mark_fixed rules <> mark_with true rn rules)
      then failwith "mark";
      L [ of_marks (mark_with false rn rules); of_marks (mark_with true rn rules);
          of_list (of_list of_nat) g;
          of_list (fun i -> of_bool (rn i)) idx;
          of_list (fun i -> of_opt of_bool (rule_nullable_opt (nat_of_int (n + 1)) rules i)) idx;
          of_bool (lr_error_with false rn false rules); of_bool (lr_error_with false rn true rules);
          of_list (fun i -> of_list of_nat (scc_of g i)) idx;
          of_list (fun i -> of_list of_nat (common g (scc_of g i))) idx ]
  | L [A "calls"; rnl; e] ->
      let tbl = Array.of_list (to_list to_bool rnl) in
      let rn i = let k = int_of_nat i in k < Array.length tbl && tbl.(k) in
      let e = to_exp e in
      L [ of_list of_nat (callable_rule_ids rn e); of_bool (is_nullable_safe rn e); of_bool (nullable rn e) ]
  | _ -> A "bad-request"
let () = serve handle
