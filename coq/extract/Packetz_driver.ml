let to_line = function
  | L [A "good"; i] -> Good (to_n i)
  | A "corrupt" -> Corrupt
  | _ -> failwith "line"
let to_op = function
  | L [A "send"; l] -> Send (to_line l)
  | L [A "recv"; k] -> Recv (to_nat k)
  | _ -> failwith "op"
let to_gop = function
  | L [A "send"; l] -> GSend (to_line l)
  | A "open" -> GOpen
  | L [A "next"; j] -> GNext (to_nat j)
  | _ -> failwith "gop"
let handle = function
  | L [A "rle_encode"; s] -> of_str (rle_encode (to_str s))
  | L [A "rle_decode"; s] -> of_str (rle_decode (to_str s))
  | L [A "rle_decode_twopass"; s] -> of_str (rle_decode_twopass (to_str s))
  | L [A "replace"; o; n; s] -> of_str (replace (to_str o) (to_str n) (to_str s))
  | L [A "queue"; ops] ->
      (* returns (told delivered) after the ops *)
      let (_, r) = run (to_list to_op ops) in
      L [of_nat r.told; of_list of_n r.delivered]
  | L [A "genqueue"; ops] ->
      (* returns (told delivered live) after the ops: live = 1/0 per generator *)
      let st = grun (to_list to_gop ops) in
      L [of_nat st.grd.told; of_list of_n st.grd.delivered;
         of_list (fun g -> match g with Some _ -> of_int 1 | None -> of_int 0) st.gens]
  | _ -> A "bad-request"
let () = serve handle
