let to_line = function
  | L [A "good"; i] -> Good (to_n i)
  | A "corrupt" -> Corrupt
  | _ -> failwith "line"
let to_op = function
  | L [A "send"; l] -> Send (to_line l)
  | L [A "recv"; k] -> Recv (to_nat k)
  | _ -> failwith "op"
let handle = function
  | L [A "rle_encode"; s] -> of_str (rle_encode (to_str s))
  | L [A "rle_decode"; s] -> of_str (rle_decode (to_str s))
  | L [A "rle_decode_twopass"; s] -> of_str (rle_decode_twopass (to_str s))
  | L [A "replace"; o; n; s] -> of_str (replace (to_str o) (to_str n) (to_str s))
  | L [A "queue"; ops] ->
      (* returns (told delivered) after the ops *)
      let (_, r) = run (to_list to_op ops) in
      L [of_nat r.told; of_list of_n r.delivered]
  | _ -> A "bad-request"
let () = serve handle
