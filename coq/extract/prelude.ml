(* Common driver prelude: compiled with `-open <ExtractedModule>` so that nat/positive/n/z
   refer to the extracted inductives (ExtrOcamlBasic only; numbers stay inductive). *)

type sexp = A of string | L of sexp list

let rec int_of_nat = function O -> 0 | S n -> 1 + int_of_nat n
let nat_of_int (i : int) : nat =
  let rec go acc i = if i <= 0 then acc else go (S acc) (i - 1) in go O i

let rec int_of_pos = function
  | XH -> 1 | XO p -> 2 * int_of_pos p | XI p -> 2 * int_of_pos p + 1
let rec pos_of_int i =
  if i <= 1 then XH else if i land 1 = 0 then XO (pos_of_int (i lsr 1)) else XI (pos_of_int (i lsr 1))
let int_of_n = function N0 -> 0 | Npos p -> int_of_pos p
let n_of_int i = if i <= 0 then N0 else Npos (pos_of_int i)
let int_of_z = function Z0 -> 0 | Zpos p -> int_of_pos p | Zneg p -> - (int_of_pos p)
let z_of_int i = if i = 0 then Z0 else if i > 0 then Zpos (pos_of_int i) else Zneg (pos_of_int (-i))

(* ---- reader ---- *)
let parse_sexps (s : string) : sexp list =
  let n = String.length s in
  let pos = ref 0 in
  let rec skip () = while !pos < n && (s.[!pos] = ' ' || s.[!pos] = '\t' || s.[!pos] = '\r' || s.[!pos] = '\n') do incr pos done
  and one () : sexp =
    skip ();
    if !pos >= n then failwith "sexp: eof"
    else if s.[!pos] = '(' then begin
      incr pos;
      let items = ref [] in
      let fin = ref false in
      while not !fin do
        skip ();
        if !pos >= n then failwith "sexp: unclosed"
        else if s.[!pos] = ')' then (incr pos; fin := true)
        else items := one () :: !items
      done;
      L (List.rev !items)
    end else begin
      let st = !pos in
      while !pos < n && not (s.[!pos] = ' ' || s.[!pos] = '(' || s.[!pos] = ')' || s.[!pos] = '\n' || s.[!pos] = '\t' || s.[!pos] = '\r') do incr pos done;
      A (String.sub s st (!pos - st))
    end
  in
  let out = ref [] in
  skip ();
  while !pos < n do out := one () :: !out; skip () done;
  List.rev !out

let parse_sexp s = match parse_sexps s with [x] -> x | _ -> failwith "sexp: expected one"

(* ---- printer ---- *)
let rec pr (b : Buffer.t) = function
  | A s -> Buffer.add_string b s
  | L l -> Buffer.add_char b '(';
      List.iteri (fun i x -> if i > 0 then Buffer.add_char b ' '; pr b x) l;
      Buffer.add_char b ')'
let show x = let b = Buffer.create 256 in pr b x; Buffer.contents b

(* ---- conversions ---- *)
let to_int = function A s -> int_of_string s | _ -> failwith "int expected"
let to_nat x = nat_of_int (to_int x)
let to_n x = n_of_int (to_int x)
let to_z x = z_of_int (to_int x)
let to_bool = function A "1" | A "true" | A "T" -> true | A "0" | A "false" | A "F" -> false | _ -> failwith "bool expected"
let to_list f = function L l -> List.map f l | A "nil" -> [] | _ -> failwith "list expected"
(* strings are lists of code points: (s 97 98) or the atom form s:61,62 ... keep the list form *)
let to_str x = to_list to_n x
let to_opt f = function A "none" -> None | L [A "some"; x] -> Some (f x) | _ -> failwith "option expected"
let to_pair f g = function L [a; b] -> (f a, g b) | _ -> failwith "pair expected"

let of_int i = A (string_of_int i)
let of_nat n = of_int (int_of_nat n)
let of_n n = of_int (int_of_n n)
let of_z z = of_int (int_of_z z)
let of_bool b = A (if b then "1" else "0")
let of_list f l = L (List.map f l)
let of_str s = of_list of_n s
let of_opt f = function None -> A "none" | Some x -> L [A "some"; f x]
let of_pair f g (a, b) = L [f a; g b]

(* main loop: one request per line, one reply per line.  Each request gets a CPU-time budget (the extracted
   evaluators are bounded in depth by fuel, not in work): SIGALRM raises Timeout at the next allocation. *)
exception Timeout
let request_seconds = ref 4
let serve (handle : sexp -> sexp) =
  (try request_seconds := int_of_string (Sys.getenv "MODELRUN_SECONDS") with _ -> ());
  Sys.set_signal Sys.sigalrm (Sys.Signal_handle (fun _ -> raise Timeout));
  (try
    while true do
      let line = input_line stdin in
      if String.length line > 0 then begin
        let reply =
          try
            ignore (Unix.alarm !request_seconds);
            let r = show (handle (parse_sexp line)) in
            ignore (Unix.alarm 0); r
          with
          | Timeout -> "(timeout)"
          | Stack_overflow -> ignore (Unix.alarm 0); "(error stack-overflow)"
          | Failure m -> ignore (Unix.alarm 0); "(error " ^ String.concat "_" (String.split_on_char ' ' m) ^ ")"
          | Not_found -> ignore (Unix.alarm 0); "(error not-found)"
        in
        print_string reply; print_newline ()
      end
    done
  with End_of_file -> ());
  flush stdout
