From Coq Require Import Extraction ExtrOcamlBasic.
From TatsuV Require Import Base.PyStr Lib.ParProc.
Extraction "parproc.ml" nums_witness taskproc call parproc pmap_tasks.
