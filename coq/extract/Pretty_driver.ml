let of_eres = function
  | EOk s -> L [A "ok"; of_str s]
  | EErr -> A "err"
  | EUnk -> A "unk"
let mem_n (l : n list) (c : n) = List.exists (fun x -> int_of_n x = int_of_n c) l
let cwf w = let w = to_str w in fun c -> if mem_n w c then S (S O) else S O
let handle = function
  (* (py_repr <code points of the text that are NOT printable> <text>) *)
  | L [A "py_repr"; np; s] ->
      let np = to_str np in
      of_str (py_repr (fun c -> not (mem_n np c)) (to_str s))
  | L [A "unquote"; t] ->
      of_opt (fun (r, rest) -> L [of_eres r; of_str rest]) (unquote (to_str t))
  | L [A "eval_escapes"; s] -> of_eres (eval_escapes (to_str s))
  | L [A "lex_regex"; t] -> of_opt (of_pair of_str of_str) (lex_regex (to_str t))
  | L [A "pattern_pretty"; p] -> of_str (pattern_pretty (to_str p))
  (* railmath: first argument = the code points of the request that are WIDE (display width 2) *)
  | L [A "loop"; w; r] -> of_list of_str (loop (cwf w) (to_list to_str r))
  | L [A "stopnloop"; w; r] -> of_list of_str (stopnloop (cwf w) (to_list to_str r))
  | L [A "weldtwo"; w; l; r] -> of_list of_str (weldtwo (cwf w) (to_list to_str l) (to_list to_str r))
  | L [A "weld"; w; ts] -> of_list of_str (weld (cwf w) (to_list (to_list to_str) ts))
  | L [A "lay_out"; w; ts] -> of_opt (of_list of_str) (lay_out (cwf w) (to_list (to_list to_str) ts))
  | _ -> A "bad-request"
let () = serve handle
