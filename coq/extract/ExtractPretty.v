From Coq Require Import Extraction ExtrOcamlBasic.
From TatsuV Require Import Base.PyStr Lib.Pretty Lib.Rails.
Extraction "pretty.ml" nums_witness py_repr unquote eval_escapes lex_string lex_regex pattern_pretty bs_paired
  loop stopnloop weldtwo weld lay_out one_length.
