let to_fout = function
  | L [A "ret"; v] -> Ret (to_n v)
  | L [A "exc"; m] -> Exc (to_list to_n m)
  | _ -> failwith "fout"
let to_task = function
  | L [p; vis; f; s; rr; rs] ->
      { t_payload = to_n p; t_visual = to_bool vis; t_first = to_fout f; t_second = to_fout s;
        t_reraise = to_bool rr; t_raises = to_list to_n rs }
  | _ -> failwith "task"
let of_exc e = of_list of_n e
let of_result r = L [of_n r.r_payload; of_opt of_n r.r_outcome; of_opt of_exc r.r_exception]
let of_ending = function
  | Done -> A "done"
  | Raised e -> L [A "raised"; of_exc e]
  | Interrupted -> A "interrupted"
  | OutOfFuel -> A "out-of-fuel"
let of_tres = function
  | Res r -> L [A "res"; of_result r]
  | Fail e -> L [A "fail"; of_exc e]
let pid t = of_n t.t_payload
let of_event = function
  | ESubmit0 t -> L [A "submit0"; pid t]
  | ESnap l -> L [A "snap"; of_list pid l]
  | ESubmit (t, l) -> L [A "submit"; pid t; of_list pid l]
  | EYield r -> L [A "yield"; of_result r]
let handle = function
  | L [A "taskproc"; stop; t] -> of_tres (taskproc (to_bool stop) (to_task t))
  | L [A "parproc"; par; thr; mw; cpu; sched; tasks] ->
      (* (ending (results...)) *)
      let (e, o) = parproc (to_bool par) (to_bool thr) (to_nat mw) (to_nat cpu)
                     (to_list to_task tasks) (to_list to_nat sched) in
      L [of_ending e; of_list of_result o]
  | L [A "pmap"; thr; mw; cpu; sched; tasks] ->
      (* (ending (results...) (events...) (pending-at-end...)) *)
      let (e, s) = pmap_tasks (to_bool thr) (to_nat mw) (to_nat cpu)
                     (to_list to_task tasks) (to_list to_nat sched) in
      L [of_ending e; of_list of_result s.out; of_list of_event s.evs]
  | _ -> A "bad-request"
let () = serve handle
