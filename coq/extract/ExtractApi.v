From Coq Require Import Extraction ExtrOcamlBasic.
From TatsuV Require Import Base.PyStr Lib.Api.
Extraction "api.ml" nums_witness init compile_f compile_r run_op fresh_form runs results result_after result_fresh
  run_sched run_alone eval memo_get.
