(* requests (one per line):
     (linebreaks)                      -> (c ...)
     (splitlines s)                    -> (line ...)
     (cache v s)                       -> (((start line len) ...) count)        v = shipped | fixed
     (query guard v s upto)            -> one entry per offset 0..upto:
                                          (lineinfo lineat poscol posline lineinfo_colfixed) ; lineinfo = none | (some (line col start end text))
     (spec s)                          -> one entry per offset 0..len: (line col start end text crlf_line)
     (linecount s)                     -> n *)
let to_variant = function A "shipped" -> Shipped | A "fixed" -> Fixed | _ -> failwith "variant"
let of_pl p = L [of_nat p.startpos; of_nat p.lineno; of_nat p.pl_length]
let of_li i = L [of_nat i.li_line; of_nat i.li_col; of_nat i.li_start; of_nat i.li_end; of_str i.li_text]
let handle = function
  | L [A "linebreaks"] -> of_list of_n linebreak_chars
  | L [A "splitlines"; s] -> of_list of_str (splitlines (to_str s))
  | L [A "cache"; v; s] ->
      let (c, n) = build_line_cache (to_variant v) (splitlines (to_str s)) in
      L [of_list of_pl c; of_nat n]
  | L [A "query"; g; v; s; upto] ->
      of_list (fun ((((li, la), pc), pl), cf) -> L [of_opt of_li li; of_opt of_nat la; of_opt of_nat pc; of_opt of_nat pl; of_opt of_li cf])
        (query_all (to_bool g) (to_variant v) (to_str s) (to_nat upto))
  | L [A "spec"; s] ->
      of_list (fun (i, k) -> L [of_nat i.li_line; of_nat i.li_col; of_nat i.li_start; of_nat i.li_end; of_str i.li_text; of_nat k])
        (spec_all (to_str s))
  | L [A "linecount"; s] -> of_nat (linecount (to_str s))
  | _ -> A "bad-request"
let () = serve handle
