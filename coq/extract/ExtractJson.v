From Coq Require Import Extraction ExtrOcamlBasic.
From TatsuV Require Import Base.PyStr Lib.Json.
Extraction "json.ml" nums_witness asjson dfs fromjson asjson_tree strip grammar_like no_style_like_strings
  getstate pub dumpable no_types hexN.
