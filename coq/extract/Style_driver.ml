let to_color = function
  | A "none" -> CNone
  | L [A "idx"; n] -> CIdx (to_n n)
  | L [A "rgb"; r; g; b] -> CRgb (to_n r, to_n g, to_n b)
  | _ -> failwith "color"
let of_color = function
  | CNone -> A "none"
  | CIdx n -> L [A "idx"; of_n n]
  | CRgb (r, g, b) -> L [A "rgb"; of_n r; of_n g; of_n b]
let to_style = function
  | L [b1; b2; b3; b4; b5; b6; b7; b8; fg; bg] ->
    { s_bold = to_bool b1; s_dim = to_bool b2; s_italic = to_bool b3; s_underline = to_bool b4;
      s_blink = to_bool b5; s_inverse = to_bool b6; s_hidden = to_bool b7; s_strike = to_bool b8;
      s_fg = to_color fg; s_bg = to_color bg }
  | _ -> failwith "style"
let of_style s =
  L [of_bool s.s_bold; of_bool s.s_dim; of_bool s.s_italic; of_bool s.s_underline;
     of_bool s.s_blink; of_bool s.s_inverse; of_bool s.s_hidden; of_bool s.s_strike;
     of_color s.s_fg; of_color s.s_bg]
let to_ostr = to_opt to_str
let of_ostr = of_opt of_str
let of_parsed p = L [of_style p.pr_style; of_str p.pr_value; of_ostr p.pr_fmt]
let printable_of x =
  let np = List.map to_int (to_list (fun y -> y) x) in
  fun c -> not (List.mem (int_of_n c) np)
let handle = function
  | L [A "descape"; s] -> of_str (descape (to_str s))
  | L [A "visual_len"; s] -> of_nat (visual_len (to_str s))
  | L [A "apply_style"; en; force; st; text] ->
      of_str (apply_style (to_bool en) (to_bool force) (to_style st) (to_str text))
  | L [A "code_params"; st] -> of_list of_n (code_params (to_style st))
  | L [A "parse_params"; ps] -> of_style (parse_params (to_list to_n ps))
  | L [A "params_of_str"; s] -> of_opt (of_list of_n) (params_of_str (to_str s))
  | L [A "format_str"; spec; text] -> of_ostr (format_str (to_str spec) (to_str text))
  | L [A "apply"; en; st; sfmt; text; fmt] ->
      of_ostr (apply (to_bool en) (to_style st) (to_ostr sfmt) (to_str text) (to_ostr fmt))
  | L [A "to_str"; en; st; sfmt; value] ->
      of_ostr (Style.to_str (to_bool en) (to_style st) (to_ostr sfmt) (to_str value))
  | L [A "style_len"; en; st; sfmt; value] ->
      of_opt of_nat (style_len (to_bool en) (to_style st) (to_ostr sfmt) (to_str value))
  | L [A "dunder_format"; restyles; en; st; sfmt; value; spec] ->
      of_ostr (dunder_format_with (to_bool restyles) (to_bool en) (to_style st) (to_ostr sfmt) (to_str value) (to_str spec))
  | L [A "from_raw"; s] -> of_opt of_parsed (from_raw (to_str s))
  | L [A "style_repr"; np; st; sfmt; value] ->
      of_str (style_repr (printable_of np) (to_style st) (to_ostr sfmt) (to_str value))
  | L [A "py_repr_body"; np; s] -> of_str (py_repr_body (printable_of np) (to_str s))
  | L [A "enabled"; force; nc; fc; cs; out; err] ->
      of_bool (color_enabled { e_force = to_opt to_bool force; e_no_color = to_bool nc; e_force_color = to_bool fc;
                               e_check_stderr = to_bool cs; e_stdout_tty = to_bool out; e_stderr_tty = to_bool err })
  | L [A "sgr_search"; s] -> of_ostr (sgr_search (to_str s))
  | L [A "tty_escape"; s] -> of_str (tty_escape (to_str s))
  | L [A "tty_unescape"; s] -> of_str (tty_unescape (to_str s))
  | L [A "parse_fmt"; s] -> of_parsed (parse_fmt plain (to_str s))
  | _ -> A "bad-request"
let () = serve handle
