From Coq Require Import Extraction ExtrOcamlBasic.
From TatsuV Require Import Base.PyStr Lib.SafeEval.
From TatsuGen Require Import SafeEvalGen.
Extraction "safeeval.ml" nums_witness safe_names leaks unsafe check events constant_context constant
  reflective cap_of_name
  builtin_table gen_cfg gen_blocked_attrs gen_argcounts gen_loop_reset excused_builtins dangerous reflective_attrs
  pinned_cfg pinned_table_fragment.
