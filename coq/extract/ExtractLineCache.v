From Coq Require Import Extraction ExtrOcamlBasic.
From TatsuV Require Import Base.PyStr Lib.LineCache.
Extraction "linecache.ml" nums_witness linebreak_chars splitlines build_line_cache mk_input query_all spec_all linecount.
