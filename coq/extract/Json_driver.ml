(* requests:
   (asjson <bkeys> <heap> <val>)            -> <json> | oof
   (pub <bkeys> <heap> <id>)                -> ((k val) ...) of the object at id  | none
   (getstate <bkeys> <heap> <id>)           -> names of the pickle state
   (fromjson <reg> <json>)                  -> <pyv>
   (tree <reg> <pyv>)                       -> (<json of asjson_tree> <pyv of fromjson of it> <pyv strip> <grammar_like> <no_style>)
   values:  none | (b 0/1) | (i z) | (f str) | (s str) | (y str) | (r id)
   node:    (tyname kind)   kind: (map ((k v)..)) | (named ((k v)..)) | (seq (v..)) | (obj mixin|node|rule (dcfield..) ((k v)..))
                                  | (enum v) | weak | type | (opaque str)
   json:    null | (b 0/1) | (i z) | (f str) | (s str) | (a (j..)) | (o ((k j)..)) | (py id)
   pyv:     none | (b) (i) (f) (s) | (style str) | (l (..)) | (d ((k v)..)) | (ns ((k v)..)) | (obj cls ((k v)..)) | error
   reg:     ((name plain) | (name (dc (field..))) ...)                                          *)
let to_val = function
  | A "none" -> VNone
  | L [A "b"; x] -> VBool (to_bool x)
  | L [A "i"; z] -> VInt (to_z z)
  | L [A "f"; s] -> VFloat (to_str s)
  | L [A "s"; s] -> VStr (to_str s)
  | L [A "y"; s] -> VStyle (to_str s)
  | L [A "r"; i] -> VRef (to_n i)
  | _ -> failwith "val"
let to_kv f = function L [k; v] -> (to_str k, f v) | _ -> failwith "kv"
let to_fl = function A "mixin" -> FMixin | A "node" -> FNode | A "rule" -> FRule | _ -> failwith "flavour"
let to_kind = function
  | L [A "map"; items] -> KMap (to_list (to_kv to_val) items)
  | L [A "named"; items] -> KNamed (to_list (to_kv to_val) items)
  | L [A "seq"; items] -> KSeq (to_list to_val items)
  | L [A "obj"; fl; dc; attrs] -> KObj (to_fl fl, to_list to_str dc, to_list (to_kv to_val) attrs)
  | L [A "enum"; v] -> KEnum (to_val v)
  | A "weak" -> KWeak
  | A "type" -> KType
  | L [A "opaque"; s] -> KOpaque (to_str s)
  | _ -> failwith "kind"
let to_node = function L [ty; k] -> { tyname = to_str ty; kind = to_kind k } | _ -> failwith "node"
let to_heap = to_list (function L [i; n] -> (to_n i, to_node n) | _ -> failwith "heap")

let rec of_json = function
  | JNull -> A "null"
  | JBool b -> L [A "b"; of_bool b]
  | JInt z -> L [A "i"; of_z z]
  | JFloat r -> L [A "f"; of_str r]
  | JStr s -> L [A "s"; of_str s]
  | JArr l -> L [A "a"; of_list of_json l]
  | JObj items -> L [A "o"; of_list (fun (k, v) -> L [of_str k; of_json v]) items]
  | JPy i -> L [A "py"; of_n i]
let rec to_json = function
  | A "null" -> JNull
  | L [A "b"; x] -> JBool (to_bool x)
  | L [A "i"; z] -> JInt (to_z z)
  | L [A "f"; s] -> JFloat (to_str s)
  | L [A "s"; s] -> JStr (to_str s)
  | L [A "a"; l] -> JArr (to_list to_json l)
  | L [A "o"; items] -> JObj (to_list (to_kv to_json) items)
  | L [A "py"; i] -> JPy (to_n i)
  | _ -> failwith "json"
let rec of_pyv = function
  | PNone -> A "none"
  | PBool b -> L [A "b"; of_bool b]
  | PInt z -> L [A "i"; of_z z]
  | PFloat r -> L [A "f"; of_str r]
  | PStr s -> L [A "s"; of_str s]
  | PStyle s -> L [A "style"; of_str s]
  | PList l -> L [A "l"; of_list of_pyv l]
  | PDict items -> L [A "d"; of_list (fun (k, v) -> L [of_str k; of_pyv v]) items]
  | PNamespace items -> L [A "ns"; of_list (fun (k, v) -> L [of_str k; of_pyv v]) items]
  | PObj (c, items) -> L [A "obj"; of_str c; of_list (fun (k, v) -> L [of_str k; of_pyv v]) items]
  | PError -> A "error"
let rec to_pyv = function
  | A "none" -> PNone
  | L [A "b"; x] -> PBool (to_bool x)
  | L [A "i"; z] -> PInt (to_z z)
  | L [A "f"; s] -> PFloat (to_str s)
  | L [A "s"; s] -> PStr (to_str s)
  | L [A "style"; s] -> PStyle (to_str s)
  | L [A "l"; l] -> PList (to_list to_pyv l)
  | L [A "d"; items] -> PDict (to_list (to_kv to_pyv) items)
  | L [A "ns"; items] -> PNamespace (to_list (to_kv to_pyv) items)
  | L [A "obj"; c; items] -> PObj (to_str c, to_list (to_kv to_pyv) items)
  | A "error" -> PError
  | _ -> failwith "pyv"
let to_reg x =
  let tbl = to_list (function
    | L [n; A "plain"] -> (to_str n, None)
    | L [n; L [A "dc"; fs]] -> (to_str n, Some (to_list to_str fs))
    | _ -> failwith "reg") x in
  fun c -> List.assoc_opt c tbl
let of_val = function
  | VNone -> A "none"
  | VBool b -> L [A "b"; of_bool b]
  | VInt z -> L [A "i"; of_z z]
  | VFloat s -> L [A "f"; of_str s]
  | VStr s -> L [A "s"; of_str s]
  | VStyle s -> L [A "y"; of_str s]
  | VRef i -> L [A "r"; of_n i]
let obj_at h i = match lookup h i with
  | Some { tyname = _; kind = KObj (fl, dc, attrs) } -> Some (fl, dc, attrs)
  | _ -> None
let handle = function
  | L [A "asjson"; bk; h; v] ->
      (match asjson (to_list to_str bk) (to_heap h) (to_val v) with Some j -> of_json j | None -> A "oof")
  | L [A "pub"; bk; h; i] ->
      let hp = to_heap h in
      (match obj_at hp (to_n i) with
       | Some (fl, dc, attrs) -> of_list (fun (k, v) -> L [of_str k; of_val v]) (pub (to_list to_str bk) hp fl dc attrs)
       | None -> A "none")
  | L [A "getstate"; bk; h; i] ->
      let hp = to_heap h in
      (match obj_at hp (to_n i) with
       | Some (fl, dc, attrs) -> of_list (fun (k, _) -> of_str k) (getstate (to_list to_str bk) hp fl dc attrs)
       | None -> A "none")
  | L [A "fromjson"; reg; j] -> of_pyv (fromjson (to_reg reg) (to_json j))
  | L [A "tree"; reg; g] ->
      let r = to_reg reg in
      let g = to_pyv g in
      let j = asjson_tree g in
      L [of_json j; of_pyv (fromjson r j); of_pyv (strip r g); of_bool (grammar_like r g); of_bool (no_style_like_strings g)]
  | L [A "hex"; n] -> of_str (hexN (to_n n))
  | _ -> A "bad-request"
let () = serve handle
