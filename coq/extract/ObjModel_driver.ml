(* S-expression protocol for the C07 model.
   value : none | (a tag z) | (s c..) | (l v..) | (d (k v)..) | (n id cls (field..) ast ((k v)..))
   ptree : (leaf none) | (leaf (s c..)) | (leaf (a tag z)) | (plist t..) | (pdict (k t)..) | (rule (name..) t)
   order table : (((key..) (key..)) ..) : public key list of vars(node) -> iteration order of the wanted set;
   a key list missing from the table is an error (fail closed). *)
let rec to_value = function
  | A "none" -> VNone
  | L [A "a"; t; z] -> VAtom (to_n t, to_z z)
  | L (A "s" :: cs) -> VStr (List.map to_n cs)
  | L (A "l" :: vs) -> VList (List.map to_value vs)
  | L (A "d" :: kvs) -> VDict (List.map to_kv kvs)
  | L [A "n"; i; c; fs; ast; L attrs] ->
      VNode (to_n i, to_str c, to_list to_str fs, to_value ast, List.map to_kv attrs)
  | _ -> failwith "value"
and to_kv = function L [k; v] -> (to_str k, to_value v) | _ -> failwith "kv"

let rec of_value = function
  | VNone -> A "none"
  | VAtom (t, z) -> L [A "a"; of_n t; of_z z]
  | VStr s -> L (A "s" :: List.map of_n s)
  | VList l -> L (A "l" :: List.map of_value l)
  | VDict kvs -> L (A "d" :: List.map of_kv kvs)
  | VNode (i, c, fs, ast, attrs) -> L [A "n"; of_n i; of_str c; of_list of_str fs; of_value ast; L (List.map of_kv attrs)]
and of_kv (k, v) = L [of_str k; of_value v]

let to_leaf = function
  | A "none" -> LNone
  | L (A "s" :: cs) -> LStr (List.map to_n cs)
  | L [A "a"; t; z] -> LAtom (to_n t, to_z z)
  | _ -> failwith "leaf"
let rec to_ptree = function
  | L [A "leaf"; x] -> PLeaf (to_leaf x)
  | L (A "plist" :: ts) -> PList (List.map to_ptree ts)
  | L (A "pdict" :: kts) -> PDict (List.map (function L [k; t] -> (to_str k, to_ptree t) | _ -> failwith "kt") kts)
  | L [A "rule"; spec; t] -> PRule (to_list to_str spec, to_ptree t)
  | _ -> failwith "ptree"

let mk_setord tbl =
  let table = to_list (to_pair (to_list to_str) (to_list to_str)) tbl in
  fun (keys : n list list) ->
    match List.assoc_opt keys table with
    | Some o -> o
    | None -> failwith "no-order"

(* conv table: ((name ((in out) ..)) ..): the builtin constructors as finite tables over the values they meet *)
let mk_conv tbl =
  let table = to_list (to_pair to_str (to_list (to_pair to_value to_value))) tbl in
  fun (c : n list) ->
    match List.assoc_opt c table with
    | None -> None
    | Some io -> Some (fun v -> match List.assoc_opt v io with Some o -> o | None -> failwith "no-conv")

let ids l = of_list (fun v -> of_n (vid v)) l

let handle = function
  | L [A "basekeys"] -> of_list of_str basekeys
  | L [A "tree"; v; tbl] ->
      let root = to_value v in
      let so = mk_setord tbl in
      let all = allin root in
      let d = walk_dfs so root and p = walk_post so root and b = walk_bfs so root in
      let per = List.map (fun n ->
          L [of_n (vid n); ids (children so n); of_list (fun kv -> of_str (fst kv)) (pub so n)]) all in
      let lk = links so b in
      let parents = List.map (fun n -> L [of_n (vid n); of_opt of_n (parent_of lk (vid n))]) all in
      L [of_bool (wfb root); ids all; ids d; ids p; ids b; L per; L parents]
  | L [A "build"; t; tbl] ->
      let t = to_ptree t in
      let conv = mk_conv tbl in
      let b = build conv t in
      L [of_value (plain t); of_value b; of_value (erase b); of_value (plainc conv t)]
  | L [A "erase"; v] -> of_value (erase (to_value v))
  | L [A "declare"; specs] ->
      let (_, mros) = declare_all [] (to_list (to_list to_str) specs) in
      of_list (of_list of_str) mros
  (* (dispatch fuel ((cls snake)..) ((w (method..))..) ((gid ((cls (base..))..))..) ((decl w) | (look w gid cls) ..))
     tables missing an entry are errors (fail closed); a result (some ()) means the search ran out of fuel *)
  | L [A "dispatch"; fuel; snk; wk; gs; steps] ->
      let snaketab = to_list (to_pair to_str to_str) snk in
      let snake c = match List.assoc_opt c snaketab with Some s -> s | None -> failwith "no-snake" in
      let wtab = to_list (to_pair to_n (to_list to_str)) wk in
      let has w m = match List.assoc_opt w wtab with Some l -> List.mem m l | None -> failwith "no-walker" in
      let gtab = to_list (to_pair to_int (to_list (to_pair to_str (to_list to_str)))) gs in
      let graph i = match List.assoc_opt i gtab with Some g -> g | None -> failwith "no-graph" in
      let step = function
        | L [A "decl"; w] -> WDeclare (to_n w)
        | L [A "look"; w; gi; c] -> WLook (to_n w, graph (to_int gi), to_str c)
        | _ -> failwith "step" in
      of_list (of_opt of_str) (run_walkers (to_nat fuel) snake has [] (to_list step steps))
  | _ -> A "bad-request"
let () = serve handle
