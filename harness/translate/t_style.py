"""T2/T5 for C20: tatsu/util/tty.py + tatsu/ztyle/style.py -> coq/gen/StyleGen.v (fail closed).

For every function the model Lib/Style.v was written against, the AST with all int/str literals
replaced by holes must be the recorded shape (sha256 of ast.dump); the literals are then either
required to be a fixed value (index offsets, keyword names) or emitted as Coq definitions, which the
model and the proofs use.  ANSI_RE / SGR_RE are parsed with the parser of the `re` module itself and
must have the shape `ESC (class | CSI class* class* class)` / `ESC CSI ((\\d|lits)*) final`.
Any deviation raises, and harness/translate/all.py (or c20.py) then leaves a .v that does not compile.
"""
from __future__ import annotations

import ast
import copy
import hashlib
import os
import re
from pathlib import Path

VERIF = Path(__file__).resolve().parent.parent.parent
REPO = Path(os.environ.get('VERIF_REPO', '/repo'))
OUT = VERIF / 'coq' / 'gen' / 'StyleGen.v'


class Shape(Exception):
    pass


def F(v):
    return ('fix', v)


def D(name, kind='int'):
    return ('def', name, kind)


def skeleton(fn):
    fn = copy.deepcopy(fn)
    if fn.body and isinstance(fn.body[0], ast.Expr) and isinstance(fn.body[0].value, ast.Constant) \
            and isinstance(fn.body[0].value.value, str):
        fn.body = fn.body[1:]
    consts = []

    class T(ast.NodeTransformer):
        def visit_Constant(self, n):
            if isinstance(n.value, (int, str)) and not isinstance(n.value, bool):
                consts.append(n.value)
                return ast.copy_location(ast.Constant(value='?'), n)
            return n

    T().visit(fn)
    return hashlib.sha256(ast.dump(fn).encode()).hexdigest()[:16], consts


def find(tree, cls, name):
    body = tree.body
    if cls:
        cl = [n for n in tree.body if isinstance(n, ast.ClassDef) and n.name == cls]
        if len(cl) != 1:
            raise Shape(f'class {cls}: {len(cl)} definitions')
        body = cl[0].body
    fs = [m for m in body if isinstance(m, ast.FunctionDef) and m.name == name]
    if len(fs) != 1:
        raise Shape(f'{cls}.{name}: {len(fs)} definitions')
    return fs[0]


def nums_head(s, sep):
    """'38;2;' -> [38, 2] (every piece decimal, trailing separator)"""
    if not s.endswith(sep):
        raise Shape(f'code prefix {s!r} does not end with {sep!r}')
    parts = s[:-1].split(sep)
    if not all(p.isascii() and p.isdigit() for p in parts):
        raise Shape(f'code prefix {s!r}')
    return [int(p) for p in parts]


def take(defs, cls, name, tree, hashes, spec):
    fn = find(tree, cls, name)
    h, consts = skeleton(fn)
    if h not in hashes:
        raise Shape(f'{cls}.{name}: the code shape changed (hash {h}, expected {hashes})')
    if len(consts) != len(spec):
        raise Shape(f'{cls}.{name}: {len(consts)} literals, expected {len(spec)}')
    for c, sp in zip(consts, spec):
        if sp[0] == 'fix':
            if c != sp[1] or type(c) is not type(sp[1]):
                raise Shape(f'{cls}.{name}: literal {c!r} where {sp[1]!r} was expected')
        else:
            _, nm, kind = sp
            if kind == 'int':
                if not isinstance(c, int):
                    raise Shape(f'{cls}.{name}: {nm} = {c!r} is not an int')
                v = c
            elif kind == 'digits':      # '1' -> 1
                if not (isinstance(c, str) and c.isascii() and c.isdigit()):
                    raise Shape(f'{cls}.{name}: {nm} = {c!r} is not a decimal string')
                v = int(c)
            elif kind == 'char':
                if not (isinstance(c, str) and len(c) == 1):
                    raise Shape(f'{cls}.{name}: {nm} = {c!r} is not one character')
                v = ord(c)
            elif kind == 'str':
                if not isinstance(c, str):
                    raise Shape(f'{cls}.{name}: {nm} = {c!r} is not a string')
                v = [ord(x) for x in c]
            elif kind == 'raw':
                v = c
            else:
                raise Shape(kind)
            if nm in defs and defs[nm] != v:
                raise Shape(f'{cls}.{name}: {nm} has two different values {defs[nm]!r} / {v!r}')
            defs[nm] = v
    return h


def regex_literal(tree, name):
    for n in tree.body:
        if isinstance(n, ast.Assign) and len(n.targets) == 1 and isinstance(n.targets[0], ast.Name) \
                and n.targets[0].id == name:
            c = n.value
            if isinstance(c, ast.Call) and isinstance(c.func, ast.Attribute) and c.func.attr == 'compile' \
                    and isinstance(c.func.value, ast.Name) and c.func.value.id == 're' and len(c.args) == 1 \
                    and not c.keywords and isinstance(c.args[0], ast.Constant) and isinstance(c.args[0].value, str):
                return c.args[0].value
    raise Shape(f'{name} is not `re.compile(<literal>)` without flags')


def cls_ranges(item, allow_digit=False):
    """a character class item of the sre parse tree -> ([(lo, hi)], has \\d)"""
    import re._constants as K
    op, av = item
    if op == K.LITERAL:
        return [(av, av)], False
    if op != K.IN:
        raise Shape(f'not a character class: {item}')
    out, dig = [], False
    for o, a in av:
        if o == K.RANGE:
            out.append((a[0], a[1]))
        elif o == K.LITERAL:
            out.append((a, a))
        elif o == K.CATEGORY and a == K.CATEGORY_DIGIT and allow_digit:
            dig = True
        else:
            raise Shape(f'unsupported class item {o} {a}')
    return out, dig


def star_class(item, allow_digit=False):
    import re._constants as K
    op, av = item
    if op != K.MAX_REPEAT or av[0] != 0 or av[1] != K.MAXREPEAT or len(av[2]) != 1:
        raise Shape(f'not a greedy star of a class: {item}')
    return cls_ranges(av[2][0], allow_digit)


def parse_ansi(pat, defs):
    import re._parser as P
    import re._constants as K
    t = list(P.parse(pat))
    if len(t) != 2 or t[0][0] != K.LITERAL or t[1][0] != K.BRANCH or t[1][1][0] is not None or len(t[1][1][1]) != 2:
        raise Shape('ANSI_RE: not `ESC (alt1|alt2)`')
    defs['ansi_esc'] = t[0][1]
    a1, a2 = [list(x) for x in t[1][1][1]]
    if len(a1) != 1:
        raise Shape('ANSI_RE: first alternative is not one class')
    defs['ansi_fe'] = cls_ranges(a1[0])[0]
    if len(a2) != 4 or a2[0][0] != K.LITERAL:
        raise Shape('ANSI_RE: second alternative is not `CSI class* class* class`')
    defs['ansi_csi'] = a2[0][1]
    defs['ansi_param'] = star_class(a2[1])[0]
    defs['ansi_inter'] = star_class(a2[2])[0]
    defs['ansi_final'] = cls_ranges(a2[3])[0]


def parse_sgr(pat, defs):
    import re._parser as P
    import re._constants as K
    t = list(P.parse(pat))
    if len(t) != 4 or t[0][0] != K.LITERAL or t[1][0] != K.LITERAL or t[2][0] != K.SUBPATTERN or t[3][0] != K.LITERAL:
        raise Shape('SGR_RE: not `ESC CSI (group) final`')
    g = t[2][1]
    if g[0] != 1 or g[1] != 0 or g[2] != 0 or len(g[3]) != 1:
        raise Shape('SGR_RE: group')
    rs, dig = star_class(list(g[3])[0], allow_digit=True)
    if not dig or any(lo != hi for lo, hi in rs):
        raise Shape('SGR_RE: the class is not \\d plus literals')
    defs['sgr_esc'] = t[0][1]
    defs['sgr_csi'] = t[1][1]
    defs['sgr_class_lits'] = [lo for lo, _ in rs]
    defs['sgr_final'] = t[3][1]


def coq_val(v):
    if isinstance(v, bool):
        return 'true' if v else 'false', 'bool'
    if isinstance(v, int):
        if v < 0:
            raise Shape(f'negative literal {v}')
        return str(v), 'N'
    if isinstance(v, list) and v and isinstance(v[0], tuple):
        return '[' + '; '.join(f'({a}, {b})' for a, b in v) + ']', 'list (N * N)'
    if isinstance(v, list):
        if any((not isinstance(x, int)) or x < 0 for x in v):
            raise Shape(f'bad list {v}')
        return '[' + '; '.join(str(x) for x in v) + ']', 'list N'
    raise Shape(f'cannot emit {v!r}')


ORDER = ['ansi_esc', 'ansi_fe', 'ansi_csi', 'ansi_param', 'ansi_inter', 'ansi_final',
         'sgr_esc', 'sgr_csi', 'sgr_class_lits', 'sgr_final',
         'tty_esc_raw', 'tty_esc_hex', 'tty_esc_short',
         'code_bold', 'code_dim', 'code_italic', 'code_underline', 'code_blink', 'code_inverse', 'code_hidden', 'code_strike',
         'fg_rgb_head', 'fg_std_lim', 'fg_std_base', 'fg_bright_lim', 'fg_bright_base', 'fg_bright_sub', 'fg_ext_head',
         'bg_rgb_head', 'bg_std_lim', 'bg_std_base', 'bg_bright_lim', 'bg_bright_base', 'bg_bright_sub', 'bg_ext_head',
         'apply_open', 'apply_sep', 'apply_close', 'reset_params',
         'p_reset', 'p_bold', 'p_dim', 'p_italic', 'p_underline', 'p_blink', 'p_inverse', 'p_hidden', 'p_strike',
         'p_fg_lo', 'p_fg_hi', 'p_fg_sub', 'p_bg_lo', 'p_bg_hi', 'p_bg_sub',
         'p_fg_ext', 'p_fg_sel256', 'p_fg_selrgb', 'p_bg_ext', 'p_bg_sel256', 'p_bg_selrgb',
         'p_fgb_lo', 'p_fgb_hi', 'p_fgb_sub', 'p_bgb_lo', 'p_bgb_hi', 'p_bgb_sub', 'p_split', 'byte_max',
         'dunder_format_restyles']

H_FORMAT_SHIPPED = '19b92951370169d8'     # return self.apply(str(self), fmt=format_spec)


def _fixed_format_hash():
    src = 'def __format__(self, format_spec: str) -> str:\n    return self.apply(self.value, fmt=format_spec)\n'
    return skeleton(ast.parse(src).body[0])[0]


def translate() -> tuple[str, dict]:
    defs: dict = {}
    tty = ast.parse((REPO / 'tatsu/util/tty.py').read_text())
    parse_ansi(regex_literal(tty, 'ANSI_RE'), defs)
    parse_sgr(regex_literal(tty, 'SGR_RE'), defs)
    take(defs, None, 'tty_escape', tty, HASHES['tty_escape'],
         [D('tty_esc_raw', 'str'), D('tty_esc_short', 'str'), D('tty_esc_hex', 'str'), D('tty_esc_short', 'str')])
    take(defs, None, 'tty_unescape', tty, HASHES['tty_unescape'], [D('tty_esc_short', 'str'), D('tty_esc_raw', 'str')])
    take(defs, None, 'descape', tty, HASHES['descape'], [F('expected str got '), F('')])
    take(defs, None, 'visual_len', tty, HASHES['visual_len'], [])

    st = ast.parse((REPO / 'tatsu/ztyle/style.py').read_text())
    imp = [n for n in st.body if isinstance(n, ast.ImportFrom) and n.module == 'util.tty' and n.level == 2]
    names = sorted(a.name for n in imp for a in n.names if a.asname is None)
    if names != ['ANSI_RE', 'SGR_RE', 'tty_escape', 'tty_unescape', 'visual_len']:
        raise Shape(f'style.py imports {names} from ..util.tty')
    mods = ['bold', 'dim', 'italic', 'underline', 'blink', 'inverse', 'hidden', 'strike']
    take(defs, 'Style', 'apply_style', st, HASHES['apply_style'],
         [F('')] + [D('code_' + m, 'digits') for m in mods] +
         [D('_fg_rgb', 'raw'), D('_sep', 'raw'), D('_sep', 'raw'), F(1), D('fg_std_lim'), D('fg_std_base'), D('fg_bright_lim'),
          D('fg_bright_base'), D('fg_bright_sub'), D('_fg_ext', 'raw'),
          D('_bg_rgb', 'raw'), D('_sep', 'raw'), D('_sep', 'raw'), F(1), D('bg_std_lim'), D('bg_std_base'), D('bg_bright_lim'),
          D('bg_bright_base'), D('bg_bright_sub'), D('_bg_ext', 'raw'),
          D('apply_open', 'str'), D('_sep', 'raw'), D('apply_close', 'str'), D('_reset', 'raw')])
    sep = defs.pop('_sep')
    if not (isinstance(sep, str) and len(sep) == 1):
        raise Shape(f'separator {sep!r}')
    defs['apply_sep'] = ord(sep)
    for k in ('fg_rgb', 'fg_ext', 'bg_rgb', 'bg_ext'):
        v = defs.pop('_' + k)
        if not isinstance(v, str):
            raise Shape(k)
        defs[k + '_head'] = nums_head(v, sep)
    reset = defs.pop('_reset')
    op = ''.join(map(chr, defs['apply_open']))
    cl = ''.join(map(chr, defs['apply_close']))
    if not (isinstance(reset, str) and reset.startswith(op) and reset.endswith(cl) and len(reset) > len(op) + len(cl)):
        raise Shape(f'reset sequence {reset!r} is not open + parameters + close')
    defs['reset_params'] = nums_head(reset[len(op):len(reset) - len(cl)] + sep, sep)

    ext = lambda k: [D(f'p_{k}_ext'), F(1), F(1), D(f'p_{k}_sel256'), F(2), F(2), F(2), F(1), D(f'p_{k}_selrgb'),
                     F(4), F(2), F(3), F(4), F(4)]
    take(defs, 'Style', 'from_raw', st, HASHES['from_raw'],
         [F(''), F(1), F(1), F(1), D('p_split', 'char'), F(0)] +
         [D('p_reset')] + [D('p_' + m) for m in mods] +
         [D('p_fg_lo'), D('p_fg_hi'), D('p_fg_sub'), D('p_bg_lo'), D('p_bg_hi'), D('p_bg_sub')] +
         ext('fg') + ext('bg') +
         [D('p_fgb_lo'), D('p_fgb_hi'), D('p_fgb_sub'), D('p_bgb_lo'), D('p_bgb_hi'), D('p_bgb_sub'),
          F(1), F(1), F('fg'), F(1), F('bg'), F('bold'), F('dim'), F('italic'), F('underline'), F('blink'), F('inverse'),
          F('hidden'), F('strikethrough')])
    take(defs, 'Style', 'apply', st, HASHES['apply'], [F('')])
    take(defs, 'Style', '__str__', st, HASHES['__str__'], [])
    take(defs, 'Style', '__len__', st, HASHES['__len__'], [])
    take(defs, 'Style', '__repr__', st, HASHES['__repr__'], [F('f{'), F(':'), F('}'), F(1), F(1)])
    take(defs, 'Style', 'parse_fmt', st, HASHES['parse_fmt'], [F('f{(.*?):(.*)}'), F(1), F(2)])
    take(defs, 'Style', '_set_fg', st, HASHES['_set_fg'], [F(0), F(1), F(0), D('byte_max')])
    take(defs, 'Style', '_set_bg', st, HASHES['_set_bg'], [F(0), F(1), F(0), D('byte_max')])
    take(defs, 'Style', '__init__', st, HASHES['__init__'], [F(1), F(1), F(''), F(1), F(1)])
    take(defs, 'Style', 'value', st, HASHES['Style.value'], [])
    take(defs, 'Style', 'enabled', st, HASHES['Style.enabled'], [])
    take(defs, 'RGB', '__new__', st, HASHES['RGB.__new__'], [F(0), D('byte_max')])
    take(defs, 'Color', 'enabled', st, HASHES['Color.enabled'], [F('NO_COLOR'), F('FORCE_COLOR')])
    take(defs, 'Color', 'is_terminal', st, HASHES['Color.is_terminal'], [])
    take(defs, 'Color', '__init__', st, HASHES['Color.__init__'], [])
    h = take(defs, 'Style', '__format__', st, {H_FORMAT_SHIPPED, _fixed_format_hash()}, [])
    defs['dunder_format_restyles'] = (h == H_FORMAT_SHIPPED)

    missing = [k for k in ORDER if k not in defs]
    extra = [k for k in defs if k not in ORDER]
    if missing or extra:
        raise Shape(f'definitions missing {missing} / unexpected {extra}')
    lines = ['(* GENERATED by harness/translate/t_style.py from tatsu/util/tty.py and tatsu/ztyle/style.py - do not edit.',
             '   Every value below is a literal of the source; the shape of the code around the literals was',
             '   compared with the shape the model Lib/Style.v was written against (fail closed). *)',
             'From Coq Require Import List NArith.', 'Import ListNotations.', 'Local Open Scope N_scope.', '']
    for k in ORDER:
        v, ty = coq_val(defs[k])
        lines.append(f'Definition {k} : {ty} := {v}.')
    return '\n'.join(lines) + '\n', defs


HASHES = {
    'apply_style': {'e4e950cf214dbf54'},
    'from_raw': {'939f7430e6d29339'},
    'apply': {'ba74a4f3fbfa128b'},
    '__str__': {'5235a9e099311e87'},
    '__len__': {'aeab6973ee4e0812'},
    '__repr__': {'169119ff3f106102'},
    'parse_fmt': {'30e62763dd35cd91'},
    '_set_fg': {'be3531d48505b8bb'},
    '_set_bg': {'1fd8d8fbb9b7d39e'},
    '__init__': {'352cb378655f3017'},
    'Color.enabled': {'a0306b4a11cf0a45'},
    'Color.is_terminal': {'39c4b2a8e767530a'},
    'RGB.__new__': {'c4c6410f4ec797e0'},
    'tty_escape': {'f0439b0441d90024'},
    'tty_unescape': {'dd26a2722b17ff41'},
    'descape': {'6a3194adb68110a0'},
    'visual_len': {'aa2d7c837bc9d7d8'},
    'Style.value': {'a73bb3e530eac0c9'},
    'Style.enabled': {'d261f63503ca8183'},
    'Color.__init__': {'e0e603ec09120e62'},
}


def main():
    OUT.parent.mkdir(exist_ok=True)
    text, _ = translate()
    if not OUT.exists() or OUT.read_text() != text:
        OUT.write_text(text)
    return 0


if __name__ == '__main__':
    import sys
    sys.exit(main())
