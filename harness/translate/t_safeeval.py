"""T1 (C17): /repo/tatsu/util/safeeval.py + the running interpreter's builtins -> coq/gen/SafeEvalGen.v

* the builtin table is listed by the REAL interpreter (/venv/bin/python -I -S): name, isinstance(v, type),
  isinstance(v, BaseException), callable(v) for every entry of vars(builtins);
* the deny list, the prefix / suffix rules and the kind tests are read from `unsafe_builtins` and
  `safe_builtins.is_unsafe_builtin_entry` with `ast`; the extra attribute names rejected by the checker and
  `argcounts` are read from `_check_safe_eval_cached`; whether the loop of
  contexts/engine.py:constant resets `result` after the trim;
* the excused names are the `builtin-leak:<name>` signatures of KNOWN_FINDINGS.jsonl (property C17, not fixed).

Fail closed: any shape that is not understood raises, and all.py leaves a .v that does not compile.
"""
from __future__ import annotations

import ast
import json
import os
import subprocess
from pathlib import Path

VERIF = Path(__file__).resolve().parent.parent.parent
OUT = VERIF / 'coq' / 'gen' / 'SafeEvalGen.v'
PYTHON = '/venv/bin/python'

LISTER = r'''
import builtins, json, site, sys
# the names site.py adds (exit, quit, copyright, credits, license, help) are part of vars(builtins) in the
# interpreter that runs TatSu: keep them
rows = []
for name, value in sorted(vars(builtins).items()):
    rows.append([name, isinstance(value, type), isinstance(value, BaseException), callable(value)])
print(json.dumps({"version": list(sys.version_info[:3]), "rows": rows}))
'''


class Shape(Exception):
    pass


def repo_path() -> Path:
    return Path(os.environ.get('VERIF_REPO', '/repo'))


def list_builtins() -> dict:
    env = {k: v for k, v in os.environ.items() if k not in ('PYTHONPATH', 'PYTHONSTARTUP')}
    p = subprocess.run([PYTHON, '-c', LISTER], capture_output=True, text=True, timeout=60, env=env)
    if p.returncode != 0:
        raise Shape(f'builtin lister failed: {p.stderr[-300:]}')
    data = json.loads(p.stdout)
    if len(data['rows']) < 100:
        raise Shape('builtin table implausibly small')
    return data


def _str_set(node: ast.AST, what: str) -> list[str]:
    if isinstance(node, ast.Call) and isinstance(node.func, ast.Name) and node.func.id in ('frozenset', 'set') \
            and len(node.args) == 1 and not node.keywords:
        node = node.args[0]
    if not isinstance(node, (ast.Set, ast.List, ast.Tuple)):
        raise Shape(f'{what}: not a set/list/tuple literal')
    out = []
    for e in node.elts:
        if not (isinstance(e, ast.Constant) and isinstance(e.value, str)):
            raise Shape(f'{what}: non-string element')
        out.append(e.value)
    return out


def module_assign(tree: ast.Module, name: str) -> ast.AST:
    found = []
    for st in tree.body:
        if isinstance(st, ast.Assign) and len(st.targets) == 1 and isinstance(st.targets[0], ast.Name) \
                and st.targets[0].id == name:
            found.append(st.value)
        elif isinstance(st, ast.AnnAssign) and isinstance(st.target, ast.Name) and st.target.id == name \
                and st.value is not None:
            found.append(st.value)
        elif isinstance(st, ast.AugAssign) and isinstance(st.target, ast.Name) and st.target.id == name:
            raise Shape(f'{name} is augmented after its definition')
    if len(found) != 1:
        raise Shape(f'{name}: {len(found)} module-level assignments')
    # no other statement may mutate it (x.add / x.update / x |= ...)
    for n in ast.walk(tree):
        if isinstance(n, ast.Attribute) and isinstance(n.value, ast.Name) and n.value.id == name \
                and n.attr in ('add', 'update', 'discard', 'remove', 'clear', 'pop', 'difference_update',
                               'intersection_update', 'symmetric_difference_update', 'append', 'extend'):
            raise Shape(f'{name} is mutated through .{n.attr}')
    return found[0]


def func(tree: ast.AST, name: str) -> ast.FunctionDef:
    fs = [n for n in ast.walk(tree) if isinstance(n, ast.FunctionDef) and n.name == name]
    if len(fs) != 1:
        raise Shape(f'{len(fs)} definitions of {name}')
    return fs[0]


def read_filter(tree: ast.Module) -> dict:
    deny = _str_set(module_assign(tree, 'unsafe_builtins'), 'unsafe_builtins')
    sb = func(tree, 'safe_builtins')
    pred = func(sb, 'is_unsafe_builtin_entry')
    # body: name, value = entry ; return <BoolOp Or>
    body = [s for s in pred.body if not (isinstance(s, ast.Expr) and isinstance(s.value, ast.Constant))]
    if len(body) != 2:
        raise Shape('is_unsafe_builtin_entry: body is not [unpack, return]')
    un, ret = body
    ok_unpack = (isinstance(un, ast.Assign) and len(un.targets) == 1 and isinstance(un.targets[0], ast.Tuple)
                 and [getattr(e, 'id', None) for e in un.targets[0].elts] == ['name', 'value']
                 and isinstance(un.value, ast.Name) and un.value.id == pred.args.args[0].arg)
    if not ok_unpack or not isinstance(ret, ast.Return):
        raise Shape('is_unsafe_builtin_entry: unexpected unpack/return')
    e = ret.value
    terms = e.values if isinstance(e, ast.BoolOp) and isinstance(e.op, ast.Or) else [e]
    prefixes, suffixes = [], []
    by_deny = by_type = by_exc = False
    for t in terms:
        if isinstance(t, ast.Compare) and len(t.ops) == 1 and isinstance(t.ops[0], ast.In) \
                and isinstance(t.left, ast.Name) and t.left.id == 'name' \
                and isinstance(t.comparators[0], ast.Name) and t.comparators[0].id == 'unsafe_builtins':
            by_deny = True
        elif isinstance(t, ast.Call) and isinstance(t.func, ast.Attribute) and isinstance(t.func.value, ast.Name) \
                and t.func.value.id == 'name' and t.func.attr in ('startswith', 'endswith') \
                and len(t.args) == 1 and not t.keywords and isinstance(t.args[0], ast.Constant) \
                and isinstance(t.args[0].value, str):
            (prefixes if t.func.attr == 'startswith' else suffixes).append(t.args[0].value)
        elif isinstance(t, ast.Call) and isinstance(t.func, ast.Name) and t.func.id == 'isinstance' \
                and len(t.args) == 2 and not t.keywords and isinstance(t.args[0], ast.Name) and t.args[0].id == 'value':
            kinds = []

            def flat(n):
                if isinstance(n, ast.BinOp) and isinstance(n.op, ast.BitOr):
                    flat(n.left)
                    flat(n.right)
                elif isinstance(n, ast.Tuple):
                    for x in n.elts:
                        flat(x)
                elif isinstance(n, ast.Name):
                    kinds.append(n.id)
                else:
                    raise Shape('isinstance: unexpected class expression')
            flat(t.args[1])
            for k in kinds:
                if k == 'type':
                    by_type = True
                elif k == 'BaseException':
                    by_exc = True
                else:
                    raise Shape(f'isinstance against {k}: not modelled')
        else:
            raise Shape(f'is_unsafe_builtin_entry: term not understood: {ast.unparse(t)}')
    if not by_deny:
        deny = []
    # the dict(...) comprehension over vars(builtins).items() with `if not is_unsafe_builtin_entry(entry)`
    rets = [s for s in sb.body if isinstance(s, ast.Return)]
    if len(rets) != 1:
        raise Shape('safe_builtins: expected one return')
    src = ast.unparse(rets[0].value).replace(' ', '')
    if src != 'dict((entryforentryinvars(builtins).items()ifnotis_unsafe_builtin_entry(entry)))':
        raise Shape(f'safe_builtins: unexpected return expression {src}')
    return {'deny': deny, 'prefixes': prefixes, 'suffixes': suffixes, 'by_type': by_type, 'by_exc': by_exc}


def read_checker(tree: ast.Module) -> dict:
    f = func(tree, '_check_safe_eval_cached')
    blocked: list[str] | None = None
    for n in ast.walk(f):
        if not isinstance(n, ast.If):
            continue
        t = n.test
        if not (isinstance(t, ast.BoolOp) and isinstance(t.op, ast.And) and len(t.values) == 2):
            continue
        a, b = t.values
        if not (isinstance(a, ast.Call) and ast.unparse(a) == 'isinstance(node, ast.Attribute)'):
            continue
        if blocked is not None:
            raise Shape('two Attribute tests in the checker')
        body_raises = (n.body and isinstance(n.body[-1], ast.Raise) and not n.orelse
                       and all(isinstance(x, ast.Assign) for x in n.body[:-1]))
        if not body_raises:
            raise Shape('Attribute test does not raise')
        alts = b.values if isinstance(b, ast.BoolOp) and isinstance(b.op, ast.Or) else [b]
        seen_dunder = False
        blocked = []
        for alt in alts:
            u = ast.unparse(alt)
            if u == "node.attr.startswith('__')":
                seen_dunder = True
            elif isinstance(alt, ast.Compare) and len(alt.ops) == 1 and isinstance(alt.ops[0], ast.In) \
                    and ast.unparse(alt.left) == 'node.attr' and isinstance(alt.comparators[0], ast.Name):
                blocked += _str_set(module_assign(tree, alt.comparators[0].id), alt.comparators[0].id)
            else:
                raise Shape(f'Attribute test not understood: {u}')
        if not seen_dunder:
            raise Shape('the dunder test is missing from the Attribute test')
    if blocked is None:
        raise Shape('no Attribute test found in the checker')
    ac = module_assign(tree, 'argcounts')
    if not isinstance(ac, ast.Dict):
        raise Shape('argcounts is not a dict literal')
    argcounts = []
    for k, v in zip(ac.keys, ac.values):
        if not (isinstance(k, ast.Constant) and isinstance(k.value, str) and isinstance(v, ast.Constant)
                and isinstance(v.value, int) and not isinstance(v.value, bool) and 0 <= v.value < 64):
            raise Shape('argcounts entry not understood')
        argcounts.append((k.value, v.value))
    return {'blocked': blocked, 'argcounts': argcounts}


def read_loop(tree: ast.Module) -> dict:
    """contexts/engine.py: the interpolation loop of ParseContext.constant"""
    f = func(tree, 'constant')
    loops = [n for n in f.body if isinstance(n, ast.While)]
    if len(loops) != 1 or ast.unparse(loops[0].test) != 'result != expression':
        raise Shape('constant: expected one `while result != expression` loop')
    body = [ast.unparse(st).split('\n')[0] for st in loops[0].body]
    kinds = [type(st).__name__ for st in loops[0].body]
    if body[:3] != ['expression = result', 'if not isinstance(expression, str):', 'expression = trim(expression)']:
        if body[:3] == ['expression = result', 'if not isinstance(expression, str):', 'result = expression = trim(expression)'] \
                or body[:3] == ['expression = result', 'if not isinstance(expression, str):', 'expression = result = trim(expression)']:
            reset, rest, rkinds = True, body[3:], kinds[3:]
        else:
            raise Shape(f'constant: loop head not understood: {body[:3]}')
    elif body[3:4] == ['result = expression']:
        reset, rest, rkinds = True, body[4:], kinds[4:]
    else:
        reset, rest, rkinds = False, body[3:], kinds[3:]
    if rkinds != ['With', 'Try'] or not rest[0].startswith('with suppress('):
        raise Shape(f'constant: loop tail not understood: {rest}')
    w = loops[0].body[-2]
    sup = [ast.unparse(a) for a in w.items[0].context_expr.args]
    if not {'ValueError', 'SyntaxError'} <= set(sup):
        raise Shape('constant: literal_eval no longer suppresses ValueError/SyntaxError')
    return {'reset': reset, 'suppressed': sup}


def read_excused() -> list[str]:
    out = []
    kf = VERIF / 'KNOWN_FINDINGS.jsonl'
    if kf.exists():
        for line in kf.read_text().split('\n'):
            line = line.strip()
            if not line or line.startswith('#'):
                continue
            rec = json.loads(line)
            sig = rec.get('signature', '')
            if rec.get('property') == 'C17' and not rec.get('fixed') and sig.startswith('builtin-leak:'):
                out.append(sig.split(':', 1)[1])
    return sorted(set(out))


def cstr(s: str) -> str:
    return '[' + ';'.join(str(ord(c)) for c in s) + ']'


def clist(items: list[str], indent='  ') -> str:
    if not items:
        return '[]'
    return '[\n' + ';\n'.join(f'{indent}{cstr(s)} (* {s} *)' for s in items) + ' ]'


def cbool(b: bool) -> str:
    return 'true' if b else 'false'


def translate() -> tuple[str, dict]:
    src = (repo_path() / 'tatsu' / 'util' / 'safeeval.py').read_text()
    tree = ast.parse(src)
    flt = read_filter(tree)
    chk = read_checker(tree)
    loop = read_loop(ast.parse((repo_path() / 'tatsu' / 'contexts' / 'engine.py').read_text()))
    bt = list_builtins()
    excused = read_excused()
    for name in flt['deny'] + flt['prefixes'] + flt['suffixes'] + chk['blocked'] + [r[0] for r in bt['rows']]:
        if '*)' in name or '(*' in name or '\n' in name:
            raise Shape('name not printable in a Coq comment')
    rows = ';\n'.join(f'  mkEntry {cstr(n)} {cbool(t)} {cbool(x)} {cbool(c)} (* {n} *)' for n, t, x, c in bt['rows'])
    text = f'''(* GENERATED by harness/translate/t_safeeval.py - do not edit.
   builtin table: vars(builtins) of {PYTHON} (Python {'.'.join(map(str, bt['version']))}), {len(bt['rows'])} entries;
   filter, deny list, checker constants: tatsu/util/safeeval.py read with ast;
   excused names: builtin-leak:<name> signatures of KNOWN_FINDINGS.jsonl (property C17). *)
From Coq Require Import List NArith.
From TatsuV Require Import Base.PyStr Lib.SafeEval.
Import ListNotations.
Local Open Scope N_scope.

Definition builtin_table : list entry := [
{rows} ].

Definition gen_cfg : filter_cfg := mkCfg
  {clist(flt['deny'], '    ')}
  {clist(flt['prefixes'], '    ')}
  {clist(flt['suffixes'], '    ')}
  {cbool(flt['by_type'])} {cbool(flt['by_exc'])}.

Definition gen_blocked_attrs : list str := {clist(chk['blocked'])}.

Definition gen_argcounts : list (str * nat) := [{'; '.join(f'({cstr(k)}, {v}%nat)' for k, v in chk['argcounts'])}].

Definition gen_loop_reset : bool := {cbool(loop['reset'])}.

Definition excused_builtins : list str := {clist(excused)}.
'''
    info = {'python': bt['version'], 'n_builtins': len(bt['rows']), 'filter': flt, 'checker': chk, 'loop': loop, 'excused': excused,
            'rows': bt['rows']}
    return text, info


def main() -> dict:
    text, info = translate()
    OUT.parent.mkdir(exist_ok=True)
    if not OUT.exists() or OUT.read_text() != text:
        OUT.write_text(text)
    return info


if __name__ == '__main__':
    i = main()
    print(f"wrote {OUT}: {i['n_builtins']} builtins, deny={len(i['filter']['deny'])}, excused={i['excused']}")
