"""T8 for C15: the artefacts of TatSu's bootstrap -> coq/gen/BootGen.v (fail closed, regenerated on every run).

Serialised into the generic tree type `btree` of coq/theories/Lib/Boot.v
(`Node cls attrs children`, strings as lists of code points):

  grammar models (every node: class name, every public dataclass field that is a scalar / list / dict of scalars
  as an attribute holding its repr, every field that is a node or a list of nodes as children in field order;
  the fields ast/ctx/parseinfo and the private ones (_rule, _exp, lookahead caches) are not part of a model's identity)
    t_boot_model      tatsu.boot.bootparser.GRAMMAR_MODEL                       (the checked-in model)
    t_boot_model_opt  GRAMMAR_MODEL.optimized()
    t_compiled        tatsu.compile(_tatsu.ebnf, name='TatSuBootstrap')          (= what api.compile returns)
    t_compiled_opt    that model .optimized()    (GRAMMAR_MODEL is generated as repr(model.optimized()))
    t_generated       tatsu.boot.boot.TatSuParserGenerator('TatSuBootstrap').parse(ebnf)   (bootstrap.py, generated code)
    t_interp          the compiled model used as the parser of the same text with GrammarSemantics
    t_bootparser      tatsu.boot.bootparser.TatSuBootstrapParser (GRAMMAR_MODEL interpreted) on the same text
    t_regen           the parser regenerated from _tatsu.ebnf (pythongen), exec'd, on the same text

  Python syntax trees (module `ast`; comments - the version header - are not part of a syntax tree)
    py_bootstrap / py_bootstrap_regen    boot/bootstrap.py  vs  pythongen(compile(_tatsu.ebnf, name='TatSuBootstrap'))
    py_bootparser / py_bootparser_regen  boot/bootparser.py vs  parsermodel_gen(that model, name='TatSuBootstrap')

  boot_rules / boot_rules_opt : list (str * exp)   the rules of t_compiled / t_compiled_opt as Engine.Syntax.exp
  (tokens -> LTok, patterns -> LPat i with boot_patterns, constants -> LConst, @name.. -> LMeta, rule includes
  expanded in place, Option unwrapped, params ignored); any node outside that language raises.
"""
from __future__ import annotations

import ast
import dataclasses
import os
import sys
from pathlib import Path

VERIF = Path(__file__).resolve().parent.parent.parent
REPO = Path(os.environ.get('VERIF_REPO', '/repo'))
OUT = VERIF / 'coq' / 'gen' / 'BootGen.v'
NAME = 'TatSuBootstrap'

if str(REPO) not in sys.path:
    sys.path.insert(0, str(REPO))


class Shape(Exception):
    pass


# --------------------------------------------------------------------------- Python side trees
SKIP_FIELDS = {'ast', 'ctx', 'parseinfo'}


def is_scalar(v) -> bool:
    if v is None or isinstance(v, (bool, int, float, str)):
        return True
    if isinstance(v, (list, tuple)):
        return all(is_scalar(x) for x in v)
    if isinstance(v, dict):
        return all(isinstance(k, str) and is_scalar(x) for k, x in v.items())
    return False


def scalar_repr(v) -> str:
    """repr with tuples and lists identified (GRAMMAR_MODEL's source writes params=['Rule'] for the tuple ('Rule',))"""
    if isinstance(v, (list, tuple)):
        return '[' + ', '.join(scalar_repr(x) for x in v) + ']'
    if isinstance(v, dict):
        return '{' + ', '.join(f'{k!r}: {scalar_repr(x)}' for k, x in v.items()) + '}'
    return repr(v)


def model_tree(n):
    """grammar model node -> (cls, [(field, value)], [children])"""
    from tatsu import peg as g
    if not isinstance(n, g.Model):
        raise Shape(f'not a grammar model node: {type(n).__name__}')
    attrs, kids = [], []
    for f in dataclasses.fields(n):
        if f.name.startswith('_') or f.name in SKIP_FIELDS:
            continue
        v = getattr(n, f.name)
        if isinstance(v, g.Model):
            attrs.append((f.name, '<node>'))
            kids.append(model_tree(v))
        elif isinstance(v, (list, tuple)) and v and all(isinstance(x, g.Model) for x in v):
            attrs.append((f.name, f'<{len(v)} nodes>'))
            kids += [model_tree(x) for x in v]
        elif is_scalar(v):
            attrs.append((f.name, scalar_repr(v)))
        else:
            raise Shape(f'{type(n).__name__}.{f.name}: value of type {type(v).__name__}')
    return (type(n).__name__, attrs, kids)


def py_tree(n):
    """ast node -> (cls, [(field, value)], [children]); positions are not fields"""
    if not isinstance(n, ast.AST):
        raise Shape(f'not an ast node: {type(n).__name__}')
    attrs, kids = [], []
    for name, v in ast.iter_fields(n):
        if isinstance(v, ast.AST):
            attrs.append((name, '<node>'))
            kids.append(py_tree(v))
        elif isinstance(v, list):
            if all(isinstance(x, ast.AST) for x in v):
                attrs.append((name, f'<{len(v)} nodes>'))
                kids += [py_tree(x) for x in v]
            elif all(x is None or isinstance(x, ast.AST) for x in v):     # dict keys / kw_defaults may hold None
                attrs.append((name, '<' + ','.join('-' if x is None else 'n' for x in v) + '>'))
                kids += [py_tree(x) for x in v if x is not None]
            else:
                raise Shape(f'{type(n).__name__}.{name}: mixed list')
        elif v is None or isinstance(v, (bool, int, float, str, bytes, complex)) or v is Ellipsis:
            attrs.append((name, repr(v)))
        else:
            raise Shape(f'{type(n).__name__}.{name}: value of type {type(v).__name__}')
    return (type(n).__name__, attrs, kids)


def tree_diff(a, b, path=()):
    """first difference of two trees: (path of (cls, child index), description) or None"""
    if a[0] != b[0]:
        return path, f'class {a[0]} vs {b[0]}'
    if a[1] != b[1]:
        d = [(x, y) for x, y in zip(a[1], b[1]) if x != y] or [(len(a[1]), len(b[1]))]
        return path, f'{a[0]}: fields {d[0][0]!r} vs {d[0][1]!r}'
    if len(a[2]) != len(b[2]):
        return path, f'{a[0]}: {len(a[2])} vs {len(b[2])} children'
    for i, (x, y) in enumerate(zip(a[2], b[2])):
        d = tree_diff(x, y, path + ((a[0], i),))
        if d:
            return d
    return None


def tree_size(t) -> int:
    return 1 + sum(tree_size(k) for k in t[2])


# --------------------------------------------------------------------------- the artefacts
def ebnf_text() -> str:
    return (REPO / 'tatsu' / '_tatsu.ebnf').read_text()


def regenerate():
    """what the repo's own procedure (`just parsers`: python -m tatsu tatsu/_tatsu.ebnf -z [-x] -m TatSuBootstrap) produces:
    cli.py compiles with name, optimizes (-z) and calls pythongen / parsermodel_gen (both optimize again)."""
    import tatsu
    from tatsu.ngcodegen.grammar_gen import parsermodel_gen
    from tatsu.ngcodegen.ngparser_gen import pythongen
    model = tatsu.compile(ebnf_text(), name=NAME).optimized()
    return pythongen(model), parsermodel_gen(model, name=NAME)


def exec_parser(src: str, cls: str = NAME + 'Parser'):
    ns: dict = {'__name__': 'c15_regenerated'}
    exec(compile(src, '<regenerated bootstrap>', 'exec'), ns)
    return ns[cls]


_JOB: dict = {}


def _build(which: str):
    """one of the four parsers on the grammar file -> serialised model (runs in a forked worker)"""
    from tatsu.boot import bootparser
    from tatsu.boot.boot import TatSuParserGenerator
    from tatsu.peg.semantics import GrammarSemantics
    text, M, boot_src = _JOB['text'], _JOB['M'], _JOB['boot_src']
    if which == 't_generated':
        m = TatSuParserGenerator(NAME).parse(text)
    elif which == 't_interp':
        m = M.parse(text, start='start', semantics=GrammarSemantics(NAME))
    elif which == 't_bootparser':
        m = bootparser.TatSuBootstrapParser().parse(text, semantics=GrammarSemantics(NAME))
    elif which == 't_regen':
        m = exec_parser(boot_src)(semantics=GrammarSemantics(NAME)).parse(text)
    else:
        raise Shape(which)
    return which, model_tree(m)


def artefacts() -> dict:
    import multiprocessing as mp
    import tatsu
    from tatsu.boot import bootparser
    text = ebnf_text()
    M = tatsu.compile(text, name=NAME)
    G = bootparser.GRAMMAR_MODEL
    boot_src, bootparser_src = regenerate()
    trees = {'t_boot_model': model_tree(G), 't_boot_model_opt': model_tree(G.optimized()), 't_compiled': model_tree(M),
             't_compiled_opt': model_tree(M.optimized())}
    _JOB.update(text=text, M=M, boot_src=boot_src)
    jobs = ['t_generated', 't_interp', 't_bootparser', 't_regen']
    with mp.get_context('fork').Pool(4) as pool:           # four independent parses of the grammar file (2 s each)
        for which, t in pool.map(_build, jobs, chunksize=1):
            trees[which] = t
    return {
        'model_trees': trees,
        'py': {
            'py_bootstrap': (REPO / 'tatsu' / 'boot' / 'bootstrap.py').read_text(),
            'py_bootstrap_regen': boot_src,
            'py_bootparser': (REPO / 'tatsu' / 'boot' / 'bootparser.py').read_text(),
            'py_bootparser_regen': bootparser_src,
        },
        'M': M,
    }


# --------------------------------------------------------------------------- grammar model -> Engine.Syntax.exp
def to_exp(model):
    """-> (rules [(name, exp-term)], patterns [str]); exp-terms are nested tuples printed by exp_coq"""
    from tatsu import peg as g
    names = [r.name for r in model.rules]
    if len(set(names)) != len(names):
        raise Shape('duplicate rule names')
    index = {n: i for i, n in enumerate(names)}
    rulemap = {r.name: r for r in model.rules}
    patterns: list[str] = []

    def pat(p):
        if p not in patterns:
            patterns.append(p)
        return patterns.index(p)

    def const(v):
        if v is None:
            return ('VNone',)
        if isinstance(v, bool):
            return ('VBool', v)
        if isinstance(v, int):
            return ('VInt', v)
        if isinstance(v, str):
            return ('VStr', v)
        raise Shape(f'constant of type {type(v).__name__}')

    def tr(n, including=()):
        t = type(n)
        if t is g.Token:
            return ('Leaf', ('LTok', n.token))
        if t is g.Pattern:
            return ('Leaf', ('LPat', pat(n.pattern)))
        if t is g.Constant:
            return ('Leaf', ('LConst', const(n.literal)))
        if t is g.Void:
            return ('Leaf', ('LVoid',))
        if t is g.Fail:
            return ('Leaf', ('LFail',))
        if t is g.Cut:
            return ('Leaf', ('LCut',))
        if t is g.EOF:
            return ('Leaf', ('LEOF',))
        if t is g.Dot:
            return ('Leaf', ('LDot',))
        if t is g.EmptyClosure:
            return ('Leaf', ('LEmpty',))
        if t in (g.NameMeta, g.IntMeta, g.UIntMeta, g.FloatMeta, g.BoolMeta):
            return ('Leaf', ('LMeta', {'NameMeta': 'MName', 'IntMeta': 'MInt', 'UIntMeta': 'MUInt', 'FloatMeta': 'MFloat',
                                       'BoolMeta': 'MBool'}[t.__name__]))
        if t is g.Sequence:
            return ('Seq', [tr(x, including) for x in n.sequence])
        if t is g.Choice:
            return ('Choice', [tr(x, including) for x in n.options])
        if t is g.Option:
            return tr(n.exp, including)
        if t is g.Group:
            return ('Group', tr(n.exp, including))
        if t is g.SkipGroup:
            return ('SkipGroup', tr(n.exp, including))
        if t is g.Optional:
            return ('Opt', tr(n.exp, including))
        if t in (g.Closure, g.PositiveClosure):
            return ('Rep', t is g.PositiveClosure, None, False, tr(n.exp, including))
        if t in (g.Join, g.PositiveJoin):
            return ('Rep', t is g.PositiveJoin, tr(n.sep, including), False, tr(n.exp, including))
        if t in (g.Gather, g.PositiveGather):
            return ('Rep', t is g.PositiveGather, tr(n.sep, including), True, tr(n.exp, including))
        if t is g.Lookahead:
            return ('Look', False, tr(n.exp, including))
        if t is g.NegativeLookahead:
            return ('Look', True, tr(n.exp, including))
        if t is g.SkipTo:
            return ('SkipTo', tr(n.exp, including))
        if t is g.Call:
            if n.name not in index:
                raise Shape(f'call of unknown rule {n.name}')
            return ('Call', index[n.name])
        if t is g.RuleInclude:
            if n.name not in rulemap:
                raise Shape(f'include of unknown rule {n.name}')
            if n.name in including:
                raise Shape(f'recursive include of {n.name}')
            return tr(rulemap[n.name].exp, including + (n.name,))
        if t is g.Named:
            return ('Named', False, n.name, tr(n.exp, including))
        if t is g.NamedList:
            return ('Named', True, n.name, tr(n.exp, including))
        if t is g.Override:
            return ('Over', False, tr(n.exp, including))
        if t is g.OverrideList:
            return ('Over', True, tr(n.exp, including))
        raise Shape(f'node {t.__name__} has no counterpart in Engine.Syntax.exp')     # EOL, Alert, LeftJoin, RightJoin, BasedRule..

    rules = []
    for r in model.rules:
        if type(r) is not g.Rule:
            raise Shape(f'rule {r.name} is a {type(r).__name__}')
        rules.append((r.name, tr(r.exp)))
    return rules, patterns


# --------------------------------------------------------------------------- Coq printing
_strings: dict[str, str] = {}


def coq_str_lit(s: str) -> str:
    return '[' + '; '.join(str(ord(c)) for c in s) + ']'


def coq_str(s: str) -> str:
    """strings are interned: one definition s<k> per distinct string (keeps the generated file small)"""
    if s not in _strings:
        _strings[s] = f's{len(_strings)}'
    return _strings[s]


def coq_bool(b) -> str:
    return 'true' if b else 'false'


def coq_z(i: int) -> str:
    return f'({i})%Z'


def tree_coq(t, out: list, name: str, hoist: int, depth: int = 0, counter=None) -> str:
    """term for t; nodes at depth == hoist become definitions of their own (appended to out)"""
    if counter is None:
        counter = [0]
    kids = [tree_coq(k, out, name, hoist, depth + 1, counter) for k in t[2]]
    attrs = '; '.join(f'({coq_str(k)}, {coq_str(v)})' for k, v in t[1])
    term = f'Node {coq_str(t[0])} [{attrs}] [{"; ".join(kids)}]'
    if depth == hoist:
        counter[0] += 1
        dn = f'{name}_{counter[0]}'
        out.append(f'Definition {dn} : btree := {term}.')
        return dn
    return f'({term})'


def exp_coq(e) -> str:
    k = e[0]
    if k == 'Leaf':
        l = e[1]
        if l[0] == 'LTok':
            return f'Leaf (LTok {coq_str(l[1])})'
        if l[0] == 'LPat':
            return f'Leaf (LPat {l[1]}%nat)'
        if l[0] == 'LConst':
            v = l[1]
            val = {'VNone': lambda: 'VNone', 'VBool': lambda: f'(VBool {coq_bool(v[1])})', 'VInt': lambda: f'(VInt {coq_z(v[1])})',
                   'VStr': lambda: f'(VStr {coq_str(v[1])})'}[v[0]]()
            return f'Leaf (LConst {val})'
        if l[0] == 'LMeta':
            return f'Leaf (LMeta {l[1]})'
        return f'Leaf {l[0]}'
    if k in ('Seq', 'Choice'):
        return f'{k} [{"; ".join(exp_coq(x) for x in e[1])}]'
    if k in ('Group', 'SkipGroup', 'Opt', 'SkipTo'):
        return f'{k} ({exp_coq(e[1])})'
    if k == 'Rep':
        sep = 'None' if e[2] is None else f'(Some ({exp_coq(e[2])}))'
        return f'Rep {coq_bool(e[1])} {sep} {coq_bool(e[3])} ({exp_coq(e[4])})'
    if k == 'Look':
        return f'Look {coq_bool(e[1])} ({exp_coq(e[2])})'
    if k == 'Call':
        return f'Call {e[1]}%nat'
    if k == 'Named':
        return f'Named {coq_bool(e[1])} {coq_str(e[2])} ({exp_coq(e[3])})'
    if k == 'Over':
        return f'Over {coq_bool(e[1])} ({exp_coq(e[2])})'
    raise Shape(f'exp_coq: {k}')


def rules_coq(name: str, rules, out: list):
    names = []
    for i, (rn, e) in enumerate(rules):
        dn = f'{name}_{i}'
        out.append(f'Definition {dn} : str * exp := ({coq_str(rn)}, {exp_coq(e)}).   (* {rn} *)')
        names.append(dn)
    out.append(f'Definition {name} : list (str * exp) := [{"; ".join(names)}].')


def translate(arts=None):
    """-> (coq source, info dict for the harness)"""
    if arts is None:
        arts = artefacts()
    _strings.clear()
    out: list[str] = []
    info: dict = {'sizes': {}}
    trees = {}
    for name, t in arts['model_trees'].items():
        trees[name] = t
        info['sizes'][name] = tree_size(t)
        term = tree_coq(t, out, name, hoist=1)
        out.append(f'Definition {name} : btree := {term[1:-1] if term.startswith("(") else term}.')
        out.append('')
    for name, src in arts['py'].items():
        t = py_tree(ast.parse(src))
        trees[name] = t
        info['sizes'][name] = tree_size(t)
        # module -> statements -> (for classes) methods: hoist the methods (depth 2) and the statements (depth 1)
        sub: list[str] = []
        kids = [tree_coq(k, sub, f'{name}_s{i}', hoist=1) for i, k in enumerate(t[2])]
        out += sub
        stmts = []
        for i, kterm in enumerate(kids):
            dn = f'{name}_s{i}'
            out.append(f'Definition {dn} : btree := {kterm[1:-1] if kterm.startswith("(") else kterm}.')
            stmts.append(dn)
        attrs = '; '.join(f'({coq_str(k)}, {coq_str(v)})' for k, v in t[1])
        out.append(f'Definition {name} : btree := Node {coq_str(t[0])} [{attrs}] [{"; ".join(stmts)}].')
        out.append('')
    M = arts['M']
    _, pats = to_exp(M)
    _, pats_o = to_exp(M.optimized())
    allp = list(pats)
    for p in pats_o:
        if p not in allp:
            allp.append(p)
    # one pattern table for both rule sets
    rules, pats = to_exp_with(M, allp)
    rules_o, _ = to_exp_with(M.optimized(), allp)
    out.append(f'Definition boot_patterns : list str := [{"; ".join(coq_str(p) for p in allp)}].')
    rules_coq('boot_rules', rules, out)
    rules_coq('boot_rules_opt', rules_o, out)
    info['rules'] = [r for r, _ in rules]
    info['trees'] = trees
    header = ('(* GENERATED by harness/translate/t_boot.py from tatsu/_tatsu.ebnf, tatsu/boot/bootstrap.py, tatsu/boot/bootparser.py and\n'
              '   the models / sources the code of /repo builds from them - do not edit. Regenerated by every run of the C15 check. *)\n'
              'From Coq Require Import List NArith ZArith.\n'
              'From TatsuV Require Import Base.PyStr Engine.Value Engine.Syntax Lib.Boot.\n'
              'Import ListNotations.\nLocal Open Scope N_scope.\n\n')
    table = [f'Definition {n} : str := {coq_str_lit(t)}.' for t, n in _strings.items()]
    return header + '\n'.join(table) + '\n\n' + '\n'.join(out) + '\n', info


def to_exp_with(model, table):
    rules, pats = to_exp(model)
    remap = {i: table.index(p) for i, p in enumerate(pats)}

    def fix(e):
        if isinstance(e, tuple):
            if e and e[0] == 'LPat':
                return ('LPat', remap[e[1]])
            return tuple(fix(x) for x in e)
        if isinstance(e, list):
            return [fix(x) for x in e]
        return e
    return [(n, fix(e)) for n, e in rules], table


def write(src: str):
    OUT.parent.mkdir(exist_ok=True)
    if not OUT.exists() or OUT.read_text() != src:       # unchanged content keeps the .vo (make goes by timestamps)
        OUT.write_text(src)


def main():
    src, info = translate()
    write(src)
    return info


if __name__ == '__main__':
    i = main()
    print({k: v for k, v in i['sizes'].items()}, len(i['rules']), 'rules ->', OUT)
