"""Runs every translator (fail-closed): /repo sources -> coq/gen/*.v.  Each translator module defines
main() and raises on any shape it does not understand."""
import importlib
import pkgutil
import sys
from pathlib import Path

HERE = Path(__file__).resolve().parent
sys.path.insert(0, str(HERE))
sys.path.insert(0, str(HERE.parent))


def main():
    (HERE.parent.parent / 'coq' / 'gen').mkdir(exist_ok=True)
    ok = True
    for m in sorted(p.stem for p in HERE.glob('t_*.py')):
        mod = importlib.import_module(m)
        try:
            mod.main()
        except Exception as e:  # fail closed: leave a .v that does not compile
            ok = False
            print(f'TRANSLATOR-FAILED {m}: {type(e).__name__}: {e}')
            if hasattr(mod, 'OUT'):
                Path(mod.OUT).write_text(f'(* translator {m} failed: {type(e).__name__} *)\nDefinition translator_failed : False := I.\n')
    return 0 if ok else 1


if __name__ == '__main__':
    sys.exit(main())
