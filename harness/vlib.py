"""Common machinery of the /verif checks.

A check = (a) the Coq proof obligations of the property compile (full .vo build, Print
Assumptions collected), (b) the correspondences between the executable Coq models (extracted
to OCaml, run by build/modelrun_<name>) and /repo's working tree agree, (c) a property
oracle on the implementation finds no failing input.  See DESIGN.md section 4.
"""
from __future__ import annotations

import argparse
import fcntl
import hashlib
import json
import os
import random
import re
import subprocess
import sys
import time
from pathlib import Path

VERIF = Path(__file__).resolve().parent.parent
REPO = Path(os.environ.get('VERIF_REPO', '/repo'))
COQ = VERIF / 'coq'
BUILD = VERIF / 'build'
REPLAYS = VERIF / 'replays'
EVIDENCE = VERIF / 'evidence'
KNOWN = VERIF / 'KNOWN_FINDINGS.jsonl'

KERNEL_TB = [
    'Coq 8.16.1 kernel via coqc (full .vo build; no -vos/-vok, no -type-in-type, no disabled '
    'guard/positivity/universe checks); vm_compute used for finite sweeps/witnesses; no native_compute',
    'extraction: ExtrOcamlBasic only (bool, option, unit, list, prod, sumbool, sumor mapped; '
    'nat/N/Z/positive stay inductive; no Extract Constant of ours); OCaml 4.13.1; coq/extract/prelude.ml '
    'and the per-model driver (S-expression reader/printer)',
    'the Python harness: generators, canonicalisers, translators (harness/translate), shrinkers',
]


# --------------------------------------------------------------------------- s-expressions
def sx(o) -> str:
    """Python value -> S-expression text understood by coq/extract/prelude.ml."""
    if o is None:
        return 'none'
    if o is True:
        return '1'
    if o is False:
        return '0'
    if isinstance(o, int):
        return str(o)
    if isinstance(o, str):
        if not o:
            return '()'
        return '(' + ' '.join(str(ord(c)) for c in o) + ')'
    if isinstance(o, Atom):
        return o.name
    if isinstance(o, Some):
        return '(some ' + sx(o.v) + ')'
    if isinstance(o, (list, tuple)):
        return '(' + ' '.join(sx(x) for x in o) + ')'
    raise TypeError(f'sx: {type(o)!r}')


class Atom:
    def __init__(self, name):
        self.name = name

    def __repr__(self):
        return self.name


class Some:
    def __init__(self, v):
        self.v = v


def parse_sx(s: str):
    """S-expression text -> nested lists of str atoms (iterative: replies can nest deeply)."""
    stack = [[]]
    for t in re.findall(r'\(|\)|[^\s()]+', s):
        if t == '(':
            stack.append([])
        elif t == ')':
            top = stack.pop()
            stack[-1].append(top)
        else:
            stack[-1].append(t)
    return stack[0][0]


def sx_str(x) -> str:
    """reply (list of code points) -> Python str"""
    if x == 'nil':
        return ''
    return ''.join(chr(int(c)) for c in x)


# --------------------------------------------------------------------------- build
class Lock:
    def __init__(self, name='build'):
        BUILD.mkdir(exist_ok=True)
        self.path = BUILD / f'.{name}.lock'

    def __enter__(self):
        self.f = open(self.path, 'w')
        fcntl.flock(self.f, fcntl.LOCK_EX)
        return self

    def __exit__(self, *a):
        fcntl.flock(self.f, fcntl.LOCK_UN)
        self.f.close()


def sh(cmd, timeout=1800, cwd=None, env=None):
    p = subprocess.run(cmd, shell=isinstance(cmd, str), cwd=cwd, env=env, timeout=timeout,
                       stdout=subprocess.PIPE, stderr=subprocess.STDOUT, text=True)
    return p.returncode, p.stdout


def coq_make(targets: list[str], timeout=1500) -> tuple[bool, str]:
    """(Re)build the given .vo targets (paths relative to coq/) with a full make."""
    with Lock():
        sh([str(VERIF / 'bin' / 'mkproject')])
        if not (COQ / 'Makefile').exists() or \
                (COQ / '_CoqProject').stat().st_mtime > (COQ / 'Makefile').stat().st_mtime:
            rc, out = sh('coq_makefile -f _CoqProject -o Makefile', cwd=COQ)
            if rc:
                return False, out
        rc, out = sh(['timeout', str(timeout), 'make', '-j12', *targets], cwd=COQ, timeout=timeout + 60)
        return rc == 0, out


def build_modelrun(name: str) -> tuple[bool, str]:
    """Extract coq/extract/Extract<name>.v and link build/modelrun_<name> (driver: coq/extract/<name>_driver.ml).
    The .vo files the extraction file imports are (re)built first."""
    src = (COQ / 'extract' / f'Extract{name}.v').read_text()
    targets = []
    for m in re.finditer(r'From\s+(TatsuV|TatsuGen)\s+Require\s+Import\s+(.*?)\.\s', src + ' ', re.S):
        root = 'theories' if m.group(1) == 'TatsuV' else 'gen'
        for mod in m.group(2).split():
            targets.append(f'{root}/' + mod.replace('.', '/') + '.vo')
    if targets:
        ok, out = coq_make(targets)
        if not ok:
            return False, out[-1500:]
    rc, out = sh([str(VERIF / 'bin' / 'build_modelrun'), name], timeout=1500)
    return rc == 0, out


class ModelRun:
    """Runs the extracted OCaml model on a batch of requests (one S-expression per line)."""

    def __init__(self, name: str):
        self.name = name
        self.exe = BUILD / f'modelrun_{name}'

    def ask(self, requests: list[str], timeout=120) -> list:
        """One reply per request. A batch that does not finish in time is split until the slow request is isolated;
        that request gets the reply ['timeout'] (the extracted evaluators are bounded in depth, not in work)."""
        if not requests:
            return []
        data = '\n'.join(requests) + '\n'
        try:
            p = subprocess.run(['bash', '-c', f'ulimit -s unlimited 2>/dev/null; exec {self.exe}'],
                               input=data, stdout=subprocess.PIPE, stderr=subprocess.PIPE,
                               text=True, timeout=timeout)
        except subprocess.TimeoutExpired:
            if len(requests) == 1:
                return [['timeout']]
            mid = len(requests) // 2
            t = max(5, timeout // 2) if len(requests) > 8 else 5
            return self.ask(requests[:mid], t) + self.ask(requests[mid:], t)
        lines = p.stdout.split('\n')
        if lines and lines[-1] == '':
            lines.pop()
        if len(lines) != len(requests):
            if len(requests) == 1:
                return [['error', 'crashed', (p.stderr or '')[:200].replace(' ', '_')]]
            mid = len(requests) // 2
            return self.ask(requests[:mid], timeout) + self.ask(requests[mid:], timeout)
        return [parse_sx(l) for l in lines]


# --------------------------------------------------------------------------- coq obligations
THM_RE = re.compile(r'^\s*(Theorem|Lemma|Example|Corollary)\s+([A-Za-z0-9_\']+)', re.M)


def property_theorems(pid: str) -> list[str]:
    f = COQ / 'theories' / 'Properties' / f'{pid}.v'
    if not f.exists():
        return []
    return [m.group(2) for m in THM_RE.finditer(f.read_text())]


FORBIDDEN = re.compile(r'\b(Admitted|admit|Axiom|Axioms|Parameter|Parameters|Conjecture|Conjectures|'
                       r'Admit\s+Obligations|bypass_check|Unset\s+Guard\s+Checking|Unset\s+Positivity\s+Checking|'
                       r'Unset\s+Universe\s+Checking|type-in-type|impredicative-set|native_compute)\b')


def strip_coq_comments(src: str) -> str:
    out = []
    depth = 0
    i = 0
    n = len(src)
    instr = False
    while i < n:
        if depth == 0 and src[i] == '"':
            instr = not instr
            out.append(src[i])
            i += 1
            continue
        if not instr and src.startswith('(*', i):
            depth += 1
            i += 2
            continue
        if not instr and depth and src.startswith('*)', i):
            depth -= 1
            i += 2
            continue
        if depth == 0:
            out.append(src[i])
        i += 1
    return ''.join(out)


def forbidden_scan() -> list[str]:
    """Forbidden declarations anywhere in the development (comments stripped).
    `Variable/Hypothesis/Context` are allowed only inside a Section."""
    bad = []
    for f in sorted(list((COQ / 'theories').rglob('*.v')) + list((COQ / 'gen').rglob('*.v')) +
                    list((COQ / 'extract').rglob('*.v'))):
        src = strip_coq_comments(f.read_text())
        for m in FORBIDDEN.finditer(src):
            bad.append(f'{f.relative_to(VERIF)}: {m.group(0)}')
        depth = 0
        for line in src.split('\n'):
            s = line.strip()
            if re.match(r'^(Section|Module\s+Type)\b', s):
                depth += 1 if s.startswith('Section') else 0
            elif re.match(r'^End\b', s) and depth > 0:
                depth -= 1
            elif depth == 0 and re.match(r'^(Variable|Variables|Hypothesis|Hypotheses|Context)\b', s):
                bad.append(f'{f.relative_to(VERIF)}: {s[:60]} (outside a section)')
    return bad


def coq_property(pid: str, extra_targets=()) -> dict:
    """Build Properties/<pid>.vo from scratch of that file (forces re-check of the property file so that
    Print Assumptions output is collected) and return the obligations status."""
    thms = property_theorems(pid)
    vo = COQ / 'theories' / 'Properties' / f'{pid}.vo'
    for ext in ('.vo', '.glob', '.vos', '.vok'):
        p = vo.with_suffix(ext)
        if p.exists():
            p.unlink()
    ok, out = coq_make([f'theories/Properties/{pid}.vo', *extra_targets])
    axioms: dict[str, list[str]] = {}
    closed = 0
    # Print Assumptions output: either "Closed under the global context" or "Axioms:\n name : type ..."
    blocks = re.split(r'(?=Closed under the global context|Axioms:)', out)
    ax_all: list[str] = []
    for b in blocks:
        if b.startswith('Closed under the global context'):
            closed += 1
        elif b.startswith('Axioms:'):
            for line in b.split('\n')[1:]:
                m = re.match(r'^([A-Za-z_][\w\.\']*)\s*:', line)
                if m:
                    ax_all.append(m.group(1))
                elif line and not line.startswith(' '):
                    break
    failing = None
    err = ''
    if not ok:
        m = re.search(r'File "([^"]+)", line (\d+), characters.*?\n(Error:.*?)(?:\n\n|\nmake|\Z)', out, re.S)
        if m:
            err = f'{m.group(1)}:{m.group(2)}: {m.group(3)[:600]}'
            if m.group(1).endswith(f'Properties/{pid}.v'):
                ln = int(m.group(2))
                src = (COQ / 'theories' / 'Properties' / f'{pid}.v').read_text().split('\n')
                for i in range(min(ln, len(src)) - 1, -1, -1):
                    mm = THM_RE.match(src[i])
                    if mm:
                        failing = mm.group(2)
                        break
            else:
                failing = Path(m.group(1)).name
        else:
            err = out[-800:]
    return {
        'ok': ok,
        'theorems': thms,
        'closed': closed,
        'axioms': sorted(set(ax_all)),
        'failing': failing,
        'error': err,
        'log': out[-3000:],
    }


# --------------------------------------------------------------------------- known findings
def load_known(pid: str) -> list[dict]:
    out = []
    if KNOWN.exists():
        for line in KNOWN.read_text().split('\n'):
            line = line.strip()
            if not line or line.startswith('#'):
                continue
            rec = json.loads(line)
            if rec.get('property') == pid and 'signature' in rec and not rec.get('fixed'):
                out.append(rec)
    return out


# --------------------------------------------------------------------------- the check object
class Check:
    def __init__(self, pid: str, argv=None):
        ap = argparse.ArgumentParser()
        ap.add_argument('--tier', default=os.environ.get('VERIF_TIER', 'quick'), choices=['quick', 'thorough'])
        ap.add_argument('--replay', default=None)
        ap.add_argument('--no-coq', action='store_true', help='(development only) skip the Coq build')
        a = ap.parse_args(argv)
        self.pid = pid
        self.tier = a.tier
        self.replay = a.replay
        self.no_coq = a.no_coq
        try:
            self.seed = int(os.environ.get('VERIF_SEED', '0'))
        except ValueError:
            self.seed = 0
        self.rng = random.Random(f'{pid}-{self.seed}')
        self.t0 = time.time()
        self.known = load_known(pid)
        self.violations: list[dict] = []     # unlisted
        self.known_hits: dict[str, dict] = {}
        self.obligations: list[dict] = []    # {'name','kind','ok','detail'}
        self.samples: list = []
        self.evaluations = 0
        self.nontrivial: set = set()
        self.dist: dict = {}
        self.extra: dict = {}
        self.assumptions: list[str] = []
        self.trusted: list[str] = list(KERNEL_TB)
        self.rule = ''
        self.axioms: list[str] = []
        self.exhaustive = None
        REPLAYS.mkdir(exist_ok=True)
        EVIDENCE.mkdir(exist_ok=True)
        for old in REPLAYS.glob(f'{pid}-{self.seed}-*.json'):     # replay files of an earlier run with this seed
            old.unlink()

    @property
    def quick(self):
        return self.tier == 'quick'

    # -- bookkeeping
    def count(self, key: str, n: int = 1):
        self.dist[key] = self.dist.get(key, 0) + n

    def case(self, fingerprint, nontrivial: bool = True):
        """Register one explored case; fingerprint identifies distinct cases."""
        self.evaluations += 1
        if nontrivial:
            if not isinstance(fingerprint, (str, bytes)):
                fingerprint = json.dumps(fingerprint, sort_keys=True, default=str)
            self.nontrivial.add(hashlib.blake2b(fingerprint.encode() if isinstance(fingerprint, str) else fingerprint,
                                                digest_size=8).digest())

    def sample(self, obj, limit=6):
        if len(self.samples) < limit:
            self.samples.append(obj)

    def obligation(self, name: str, kind: str, ok: bool, detail: str = ''):
        self.obligations.append({'name': name, 'kind': kind, 'ok': bool(ok), 'detail': detail[:2000]})

    # -- Coq side
    def coq(self, extra_targets=()):
        """Proof obligations of this property: every theorem of Properties/<pid>.v."""
        if self.no_coq:
            return {'ok': True, 'theorems': []}
        bad = forbidden_scan()
        self.obligation('no-forbidden-declarations', 'scan', not bad, '; '.join(bad[:10]))
        st = coq_property(self.pid, extra_targets)
        self.coq_status = st
        self.axioms = st['axioms']
        for t in st['theorems']:
            ok = st['ok'] or (st['failing'] is not None and t != st['failing'] and False)
            self.obligation(t, 'theorem', st['ok'], '' if st['ok'] else st['error'])
        if st['ok'] and st['theorems'] and self.tier == 'thorough':
            # independent re-check of the compiled property file and everything it depends on
            rc, out = sh(['timeout', '1500', 'coqchk', '-silent', '-o', '-Q', 'theories', 'TatsuV', '-Q', 'gen', 'TatsuGen',
                          f'TatsuV.Properties.{self.pid}'], cwd=COQ, timeout=1600)
            m = re.search(r'\* Axioms:(.*?)\n\s*\n\* Constants/Inductives relying on type-in-type:(.*?)\n\s*\n'
                          r'\* Constants/Inductives relying on unsafe \(co\)fixpoints:(.*?)\n\s*\n\* Inductives whose positivity is assumed:(.*?)(?:\n\s*\n|\Z)',
                          out, re.S)
            clean = bool(m) and all('<none>' in g for g in m.groups()[1:])
            axioms = [] if not m else [a.strip() for a in m.group(1).split('\n') if a.strip() and '<none>' not in a]
            self.obligation('coqchk -o re-checks the property file and its dependencies', 'coqchk', rc == 0 and clean, out[-800:])
            self.extra['coqchk'] = {'exit': rc, 'axioms': axioms, 'summary': out[-600:]}
        if st['ok'] and st['theorems']:
            self.extra['print_assumptions'] = {
                'closed_under_global_context': st['closed'],
                'axioms': st['axioms'],
            }
        return st

    # -- violations
    def violation(self, signature: str, what: str, replay: dict, no_input: bool = False):
        """Report a property violation. `signature` is matched against KNOWN_FINDINGS.jsonl."""
        for k in self.known:
            if k['signature'] == signature:
                if signature not in self.known_hits:
                    self.known_hits[signature] = {'rec': k, 'what': what, 'replay': replay, 'n': 0}
                self.known_hits[signature]['n'] += 1
                return
        for v in self.violations:
            if v['signature'] == signature:
                v['n'] += 1
                return
        self.violations.append({'signature': signature, 'what': what, 'replay': replay,
                                'no_input': no_input, 'n': 1})

    def finish(self, level='proof', checker_cmd=None):
        # proof/correspondence obligations that failed without a concrete input
        failed_obl = [o for o in self.obligations if not o['ok']]
        if failed_obl and not self.violations:
            for o in failed_obl:
                self.violations.append({
                    'signature': f'obligation:{o["name"]}', 'n': 1, 'no_input': True,
                    'what': f'{o["kind"]} {o["name"]} no longer checks',
                    'replay': {'broken': o['name'], 'kind': o['kind'], 'detail': o['detail']},
                })
        lines = []
        for sig, h in sorted(self.known_hits.items()):
            lines.append(f'KNOWN-FINDING: property={self.pid} {h["rec"].get("id", "")} {h["rec"]["what"]} '
                         f'[{h["n"]} case(s), signature {sig}]')
        nviol = 0
        for i, v in enumerate(self.violations):
            path = REPLAYS / f'{self.pid}-{self.seed}-{i}.json'
            rep = dict(v['replay'])
            rep.update({'property': self.pid, 'signature': v['signature'], 'what': v['what'],
                        'failed_obligations': [o for o in failed_obl],
                        'seed': self.seed, 'tier': self.tier, 'count': v['n']})
            path.write_text(json.dumps(rep, indent=1, default=str, ensure_ascii=True))
            tail = ' no-failing-input-found' if v['no_input'] else ''
            lines.append(f'VIOLATION property={self.pid} replay={path}{tail}')
            nviol += 1
        nobl = len(self.obligations)
        ndis = sum(1 for o in self.obligations if o['ok'])
        cov = {
            'obligations': nobl,
            'discharged': ndis,
            'checker_cmd': checker_cmd or f'bin/check {self.pid} --tier {self.tier}  (make -C coq theories/Properties/{self.pid}.vo ; '
                                          f'Print Assumptions under every theorem; extracted model vs /repo)',
            'trusted_base': self.trusted,
            'evaluations': self.evaluations,
            'distinct_nontrivial': len(self.nontrivial),
            'rule': self.rule,
            'samples': self.samples or [{'note': 'no cases run'}],
            'obligation_list': [{k: o[k] for k in ('name', 'kind', 'ok')} for o in self.obligations],
            'axioms': self.axioms,
            'distribution': self.dist,
            'known_findings_hit': sorted(self.known_hits),
        }
        if self.exhaustive is not None:
            cov['exhaustive'] = bool(self.exhaustive)
        cov.update(self.extra)
        ev = {
            'property_id': self.pid,
            'tier': self.tier,
            'seed': self.seed,
            'level': level,
            'coverage': cov,
            'assumptions': self.assumptions,
            'wall_s': round(time.time() - self.t0, 2),
            'violations': nviol,
        }
        (EVIDENCE / f'{self.pid}.json').write_text(json.dumps(ev, indent=1, default=str, ensure_ascii=True) + '\n')
        for l in lines:
            print(l)
        print(f'{self.pid} tier={self.tier} seed={self.seed} obligations={ndis}/{nobl} evaluations={self.evaluations} '
              f'distinct_nontrivial={len(self.nontrivial)} known={len(self.known_hits)} violations={nviol} '
              f'wall={ev["wall_s"]}s')
        sys.stdout.flush()
        return 1 if nviol else 0


# --------------------------------------------------------------------------- implementation side helpers
def repo_python_env():
    env = dict(os.environ)
    env['PYTHONPATH'] = str(REPO)
    env['PYTHONHASHSEED'] = '0'
    env['PYTHONDONTWRITEBYTECODE'] = '1'
    env['NO_COLOR'] = '1'
    return env


def all_strings(alphabet: str, maxlen: int):
    yield ''
    frontier = ['']
    for _ in range(maxlen):
        nxt = []
        for s in frontier:
            for c in alphabet:
                nxt.append(s + c)
        yield from nxt
        frontier = nxt


def shrink_string(s: str, bad) -> str:
    """Greedy delta shrink of a string while bad(s) stays true."""
    changed = True
    while changed:
        changed = False
        for i in range(len(s)):
            t = s[:i] + s[i + 1:]
            if bad(t):
                s = t
                changed = True
                break
    return s


# --------------------------------------------------------------------------- sharded execution
class Collector:
    """Same bookkeeping interface as Check, used inside worker processes and merged afterwards."""

    def __init__(self, pid, seed, tier, shard):
        self.pid = pid
        self.seed = seed
        self.tier = tier
        self.shard = shard
        self.rng = random.Random(f'{pid}-{seed}-{shard}')
        self.evaluations = 0
        self.nontrivial = set()
        self.dist = {}
        self.samples = []
        self.viol = []

    @property
    def quick(self):
        return self.tier == 'quick'

    def count(self, key, n=1):
        self.dist[key] = self.dist.get(key, 0) + n

    def case(self, fingerprint, nontrivial=True):
        self.evaluations += 1
        if nontrivial:
            if not isinstance(fingerprint, (str, bytes)):
                fingerprint = json.dumps(fingerprint, sort_keys=True, default=str)
            self.nontrivial.add(hashlib.blake2b(fingerprint.encode() if isinstance(fingerprint, str) else fingerprint,
                                                digest_size=8).digest())

    def sample(self, obj, limit=3):
        if len(self.samples) < limit:
            self.samples.append(obj)

    def violation(self, signature, what, replay, no_input=False):
        self.viol.append((signature, what, replay, no_input))


def _shard_entry(args):
    fn, pid, seed, tier, shard, extra = args
    col = Collector(pid, seed, tier, shard)
    try:
        fn(col, shard, *extra)
    except Exception as e:  # noqa
        import traceback
        col.viol.append((f'harness-error:{type(e).__name__}', f'worker failed: {e}',
                         {'traceback': traceback.format_exc()[-3000:]}, True))
    return col


def run_sharded(chk: 'Check', fn, nshards: int, extra=(), procs: int = 14):
    """fn(col, shard_index, *extra) runs in a forked worker; results are merged into chk."""
    import multiprocessing as mp
    ctx = mp.get_context('fork')
    args = [(fn, chk.pid, chk.seed, chk.tier, i, extra) for i in range(nshards)]
    if nshards == 1 or procs == 1:
        cols = [_shard_entry(a) for a in args]
    else:
        with ctx.Pool(min(procs, nshards)) as pool:
            cols = pool.map(_shard_entry, args, chunksize=1)
    for col in cols:
        chk.evaluations += col.evaluations
        chk.nontrivial |= col.nontrivial
        for k, v in col.dist.items():
            chk.dist[k] = chk.dist.get(k, 0) + v
        for s in col.samples:
            chk.sample(s)
        for (sig, what, replay, no_input) in col.viol:
            chk.violation(sig, what, replay, no_input)
    return cols
