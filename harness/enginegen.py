"""Generators of grammars (IR of enginelib) and inputs for the engine properties."""
from __future__ import annotations

import itertools
import random
import re

from enginelib import kind, walk

TOKENS = ['a', 'b', 'c', 'ab', ',', '+', 'if', 'x']
PATTERNS = [r'\d+', r'[a-z]+', r'x*', r'(a)(b)?', r'[ab]', r'\w+', r'b?',
            # patterns that look at what is to the LEFT of the current position (the regex is matched AT the position, in the whole text)
            r'\bab', r'(?<=x)a', r'\Bb', r'^a', r'(?m)^b', r'(?<![a-z])\d',
            # groups that may not take part in the match (the value of the pattern is then '' / the other group, never 'no match')
            r'(a)?b', r'(?:(a)|b)x', r'(x)*']
PAT_SAMPLES = {r'\d+': ['1', '42', '007'], r'[a-z]+': ['a', 'if', 'abc', 'x'], r'x*': ['', 'x', 'xx'],
               r'(a)(b)?': ['a', 'ab'], r'[ab]': ['a', 'b'], r'\w+': ['a1', 'if', 'b_'], r'b?': ['', 'b'],
               r'\s*b': ['b', ' b'], r'\bab': ['ab'], r'(?<=x)a': ['a'], r'\Bb': ['b'], r'^a': ['a'], r'(?m)^b': ['b'], r'(?<![a-z])\d': ['1', '7'], r'(a)?b': ['b', 'ab'], r'(?:(a)|b)x': ['bx', 'ax'], r'(x)*': ['', 'x', 'xx']}
CONSTS = ['k', '42', 'hello', "'q'"]
NAMES = ['n', 'm', 'items', 'v']
RULE_NAMES = ['start', 'expr', 'term', 'item', 'Tok', 'atom']


class GenCfg:
    def __init__(self, **kw):
        self.cuts = 0.04          # probability weight of a cut element inside sequences
        self.names = 0.12
        self.overrides = 0.04
        self.lookaheads = 0.06
        self.skipto = 0.02
        self.assoc = 0.0          # left / right joins (sep<{e}+ , sep>{e}+)
        self.includes = 0.0       # rule includes (>rule), to rules defined later only (acyclic)
        self.based = 0.0          # based rules (name < base = exp), the base defined earlier
        self.reps = 0.14
        self.consts = 0.03
        self.dots = 0.02
        self.voids = 0.03
        self.ws_patterns = False
        self.left_context = True   # patterns with \\b, look-behind, ^ (they see the character before the match, whitespace included)
        self.max_rules = 4
        self.upper_rules = 0.15
        self.__dict__.update(kw)


def gen_exp(rng: random.Random, cfg: GenCfg, depth: int, rules_fwd: list[str], rules_back: list[str], consumed: bool):
    """rules_fwd: rules that may be called anywhere (higher index: acyclic); rules_back: rules that may be called
    only once the enclosing sequence has consumed input (keeps grammars free of left recursion and of
    unbounded recursion)."""
    def leaf():
        r = rng.random()
        if r < 0.45:
            return ('tok', rng.choice(TOKENS))
        if r < 0.62:
            pats = (PATTERNS if cfg.left_context else PATTERNS[:7] + PATTERNS[13:]) + ([r'\s*b'] if cfg.ws_patterns else [])
            return ('pat', rng.choice(pats))
        callable_ = rules_fwd + (rules_back if consumed else [])
        if rules_fwd and rng.random() < cfg.includes:
            return ('include', rng.choice(rules_fwd))
        if r < 0.85 and callable_:
            return ('call', rng.choice(callable_))
        if r < 0.85 + cfg.consts:
            return ('const', rng.choice(CONSTS))
        if r < 0.85 + cfg.consts + cfg.dots:
            return 'dot'
        if r < 0.85 + cfg.consts + cfg.dots + cfg.voids:
            return rng.choice(['void', 'empty', 'eof'])
        return ('tok', rng.choice(TOKENS))

    if depth <= 0:
        return leaf()
    sub = lambda d=depth - 1: gen_exp(rng, cfg, d, rules_fwd, rules_back, consumed)
    kinds = ['leaf', 'seq', 'choice', 'opt', 'rep', 'named', 'over', 'look', 'skipto', 'group', 'skipgroup', 'assoc']
    weights = [0.20, 0.24, 0.14, 0.07, cfg.reps, cfg.names, cfg.overrides, cfg.lookaheads, cfg.skipto, 0.04, 0.02, cfg.assoc]
    k = rng.choices(kinds, weights)[0]
    if k == 'leaf':
        return leaf()
    if k == 'seq':
        n = rng.randint(2, 4)
        es = []
        cons = consumed
        for i in range(n):
            if i > 0 and rng.random() < cfg.cuts * 3:
                es.append('cut')
                continue
            e = gen_exp(rng, cfg, depth - 1, rules_fwd, rules_back, cons)
            es.append(e)
            cons = cons or surely_consumes(e)
        return ('seq', es)
    if k == 'choice':
        return ('choice', [sub() for _ in range(rng.randint(2, 3))])
    if k == 'opt':
        return ('opt', sub())
    if k == 'rep':
        plus = rng.random() < 0.4
        sep = None
        omit = False
        if rng.random() < 0.4:
            sep = ('tok', rng.choice([',', '+'])) if rng.random() < 0.8 else sub(0)
            omit = rng.random() < 0.4
        return ('rep', plus, sep, omit, sub())
    if k == 'named':
        return ('named', rng.random() < 0.3, rng.choice(NAMES), sub())
    if k == 'over':
        return ('over', rng.random() < 0.3, sub())
    if k == 'look':
        return ('look', rng.random() < 0.5, sub())
    if k == 'skipto':
        return ('skipto', sub(0))
    if k == 'assoc':
        return ('assoc', rng.random() < 0.5, ('tok', rng.choice([',', '+'])) if rng.random() < 0.8 else sub(0), sub())
    if k == 'group':
        return ('group', sub())
    return ('skipgroup', sub())


def surely_consumes(e) -> bool:
    k = kind(e)
    if k == 'tok':
        return True
    if k == 'pat':
        return not re.compile(e[1]).match('')
    if k == 'dot':
        return True
    if k == 'seq':
        return any(surely_consumes(x) for x in e[1])
    if k == 'choice':
        return all(surely_consumes(x) for x in e[1])
    if k in ('group',):
        return surely_consumes(e[1])
    if k == 'named':
        return surely_consumes(e[3])
    if k == 'over':
        return surely_consumes(e[2])
    if k == 'rep':
        return e[1] and surely_consumes(e[4])
    if k == 'assoc':
        return surely_consumes(e[3])
    return False


def gen_grammar(rng: random.Random, cfg: GenCfg | None = None, depth: int = 3):
    cfg = cfg or GenCfg()
    nrules = rng.randint(1, cfg.max_rules)
    names = ['start'] + rng.sample(RULE_NAMES[1:], nrules - 1)
    names = [n if not (n[0].islower() and rng.random() < cfg.upper_rules and n != 'start') else n.upper() for n in names]
    if len(names) >= 3 and rng.random() < 0.2:
        # twin names: rules that differ only by underscores
        names[2] = rng.choice(['_' + names[1], names[1] + '_', '_' + names[1] + '_'])
    rules = []
    for i, name in enumerate(names):
        fwd = names[i + 1:]
        back = names[:i + 1]
        e = gen_exp(rng, cfg, depth if i == 0 else depth - 1, fwd, back, False)
        deco = []
        if i >= 2 and rng.random() < cfg.based:
            deco = ['base:' + rng.choice(names[1:i])]
        rules.append((name, deco, e))
    return {'rules': rules, 'directives': {}, 'keywords': []}


# ------------------------------------------------------------------ inputs
def sample_sentence(rng: random.Random, g, e, depth=3) -> list[str]:
    """A list of lexemes that `e` is likely to accept (not guaranteed: PEG ordering, lookaheads)."""
    rules = {n: x for n, _, x in g['rules']}
    k = kind(e)
    if k == 'tok':
        return [e[1]]
    if k == 'pat':
        return [rng.choice(PAT_SAMPLES.get(e[1], ['a']))]
    if k in ('const', 'void', 'cut', 'eof', 'empty'):
        return []
    if k == 'dot':
        return [rng.choice('ab1 ')]
    if k in ('call', 'include'):
        if depth <= 0:
            return []
        from enginelib import full_exp
        return sample_sentence(rng, g, full_exp(g, e[1]), depth - 1)
    if k == 'seq':
        out = []
        for x in e[1]:
            out += sample_sentence(rng, g, x, depth)
        return out
    if k == 'choice':
        return sample_sentence(rng, g, rng.choice(e[1]), depth)
    if k in ('group', 'skipgroup'):
        return sample_sentence(rng, g, e[1], depth)
    if k == 'opt':
        return sample_sentence(rng, g, e[1], depth) if rng.random() < 0.6 else []
    if k == 'assoc':
        e = ('rep', True, e[2], False, e[3])
        k = 'rep'
    if k == 'rep':
        _, plus, sep, omit, x = e
        n = rng.choice([0, 1, 1, 2, 3]) if not plus else rng.choice([1, 1, 2, 3, 4])
        out = []
        for i in range(n):
            if i > 0 and sep is not None:
                out += sample_sentence(rng, g, sep, depth)
            out += sample_sentence(rng, g, x, depth)
        return out
    if k == 'look':
        return []
    if k == 'skipto':
        return [rng.choice(['z', '1', '?'])] * rng.randint(0, 2) + sample_sentence(rng, g, e[1], depth)
    if k == 'named':
        return sample_sentence(rng, g, e[3], depth)
    if k == 'over':
        return sample_sentence(rng, g, e[2], depth)
    raise ValueError(k)


UNICODE_WS = ['\xa0', '\u2028', '\x1f', '\x0b', '\x0c', '\x85', '\u3000', '\x1c']      # str.isspace() / \\s beyond blank, tab, CR, LF


def join_lexemes(rng: random.Random, lex: list[str], gaps=(' ', ' ', '', '  ', '\n')) -> str:
    out = []
    for i, l in enumerate(lex):
        if i:
            out.append(rng.choice(gaps))
        out.append(l)
    return ''.join(out)


ALPHABET = 'ab,x1 +'


def gen_inputs(rng: random.Random, g, n: int, start=None) -> list[str]:
    rules = {name: x for name, _, x in g['rules']}
    e = rules[start] if start else g['rules'][0][2]
    out = ['']
    tries = 0
    while len(out) < n and tries < 10 * n:
        tries += 1
        r = rng.random()
        if r < 0.6:
            s = join_lexemes(rng, sample_sentence(rng, g, e))
        elif r < 0.85:
            s = join_lexemes(rng, sample_sentence(rng, g, e))
            if s:
                i = rng.randrange(len(s))
                op = rng.random()
                if op < 0.4:
                    s = s[:i] + s[i + 1:]
                elif op < 0.7:
                    s = s[:i] + rng.choice(ALPHABET) + s[i:]
                else:
                    s = s[:i] + rng.choice(ALPHABET) + s[i + 1:]
        else:
            s = ''.join(rng.choice(ALPHABET) for _ in range(rng.randint(0, 6)))
        if rng.random() < 0.15:
            s = ' ' + s
        if rng.random() < 0.15:
            s = s + ' '
        if s not in out:
            out.append(s)
    return out


# ------------------------------------------------------------------ exhaustive small scope
def enum_exps(budget: int, leaves, calls=()):
    """All expressions with at most `budget` nodes over a small construct set."""
    memo = {}

    def go(b):
        if b in memo:
            return memo[b]
        out = []
        if b >= 1:
            out += list(leaves) + [('call', c) for c in calls]
        if b >= 2:
            for e in go(b - 1):
                out += [('opt', e), ('rep', False, None, False, e), ('rep', True, None, False, e),
                        ('look', False, e), ('look', True, e), ('named', False, 'n', e), ('over', False, e)]
        if b >= 3:
            for b1 in range(1, b - 1):
                for e1 in go(b1):
                    for e2 in go(b - 1 - b1):
                        if nodes(e1) + nodes(e2) + 1 == b or True:
                            out.append(('seq', [e1, e2]))
                            out.append(('choice', [e1, e2]))
        # dedupe
        seen = set()
        res = []
        for e in out:
            key = repr(e)
            if key not in seen and nodes(e) <= b:
                seen.add(key)
                res.append(e)
        memo[b] = res
        return res

    return go(budget)


def nodes(e) -> int:
    return sum(1 for _ in walk(e))


# ------------------------------------------------------------------ left-recursive templates (C03, C04)
def lrec_grammar(rng: random.Random):
    """Layered expression grammars with direct, aliased, mutual, optional-prefixed and named left recursion,
    mixed with right recursion and unary prefixes. Returns (grammar, kind)."""
    kind = rng.choice(['tagged', 'selector', 'direct', 'direct2', 'aliased', 'aliased2', 'mutual', 'optprefix', 'optlead', 'named', 'rightmix', 'unary', 'layered', 'prefix2', 'prefix2', 'postfix', 'optcall'])
    num = ('pat', r'\d+')
    ident = ('pat', r'[a-z]+')
    paren = [('tok', '('), 'cut', ('call', 'expr'), ('tok', ')')] if rng.random() < 0.4 else [('tok', '('), ('call', 'expr'), ('tok', ')')]
    atom = ('choice', [num, ident, ('seq', paren)]) if ((rng.random() < 0.5 or kind == 'prefix2') and kind not in ('postfix', 'optcall')) else num
    op1 = rng.choice(['+', '-'])
    op2 = rng.choice(['*', '/'])
    rules = []
    if kind == 'direct':
        rules = [('expr', [], ('choice', [('seq', [('call', 'expr'), ('tok', op1), ('call', 'term')]), ('call', 'term')])),
                 ('term', [], atom)]
    elif kind == 'direct2':
        rules = [('expr', [], ('choice', [('seq', [('call', 'expr'), ('tok', op1), ('call', 'term')]),
                                          ('seq', [('call', 'expr'), ('tok', '-' if op1 == '+' else '+'), ('call', 'term')]),
                                          ('call', 'term')])),
                 ('term', [], atom)]
    elif kind == 'postfix':
        # a helper rule on the cycle whose name sorts before / after the leader
        helper = rng.choice(['call', 'apply', 'zcall', 'postfix'])
        rules = [('expr', [], ('choice', [('seq', [('call', 'expr'), ('tok', op1), ('call', 'term')]), ('call', helper), ('call', 'term')])),
                 (helper, [], ('seq', [('call', 'expr'), ('tok', '('), ('tok', ')')])),
                 ('term', [], num)]
    elif kind == 'optcall':
        # the cycle goes through a rule that begins with an optional rule call
        rules = [('expr', [], ('seq', [('opt', ('call', 'sign')), ('call', 'sum')])),
                 ('sum', [], ('choice', [('seq', [('call', 'expr'), ('tok', op1), ('call', 'term')]), ('call', 'term')])),
                 ('sign', [], ('choice', [('tok', '~'), ('tok', '!')])),
                 ('term', [], num)]
    elif kind == 'prefix2':
        # two alternatives with a common left-recursive prefix: the longer one fails late (after a nested expr)
        rules = [('expr', [], ('choice', [('seq', [('call', 'expr'), ('tok', op1), ('call', 'term'), ('tok', '!')]),
                                          ('seq', [('call', 'expr'), ('tok', op1), ('call', 'term')]), ('call', 'term')])),
                 ('term', [], atom)]
    elif kind == 'aliased':
        rules = [('expr', [], ('call', 'e')),
                 ('e', [], ('choice', [('seq', [('call', 'expr'), ('tok', op1), ('call', 'term')]), ('call', 'term')])),
                 ('term', [], atom)]
    elif kind == 'tagged':
        # the recursive alternative starts with a constant (a tag for the node): constants match nothing, the rule is still left recursive
        rules = [('expr', [], ('choice', [('seq', [('const', rng.choice(['add', 'k', '42'])), ('call', 'expr'), ('tok', op1), ('call', 'term')]), ('call', 'term')])),
                 ('term', [], atom)]
    elif kind == 'selector':
        # two left-recursive alternatives share a long prefix (an index holding a whole nested expression); the first fails late
        rules = [('expr', [], ('choice', [('seq', [('call', 'expr'), ('tok', '.'), ('call', 'nm')]),
                                          ('seq', [('call', 'expr'), ('tok', '['), ('call', 'sum'), ('tok', ']')]),
                                          ('seq', [('call', 'expr'), ('tok', '['), ('call', 'sum'), ('tok', ':'), ('call', 'sum'), ('tok', ']')]),
                                          ('call', 'nm')])),
                 ('sum', [], ('choice', [('seq', [('call', 'sum'), ('tok', op1), ('call', 'term')]), ('call', 'term')])),
                 ('term', [], ('choice', [('seq', [('call', 'term'), ('tok', op2), ('call', 'factor')]), ('call', 'factor')])),
                 ('factor', [], ('choice', [('seq', [('tok', '('), ('call', 'sum'), ('tok', ')')]), num, ('call', 'nm')])),
                 ('nm', [], ('pat', r'[a-z]+'))]
    elif kind == 'aliased2':
        # the alias (a non-leader on the cycle) is called at the same position by two alternatives
        rules = [('expr', [], ('call', 'e')),
                 ('e', [], ('choice', [('seq', [('call', 'expr'), ('tok', op1), ('call', 'term')]),
                                       ('seq', [('call', 'expr'), ('tok', '-' if op1 == '+' else '+'), ('call', 'term')]), ('call', 'term')])),
                 ('term', [], atom)]
    elif kind == 'optlead':
        # the recursion sits in an optional: expr = [expr op] term ; parentheses may hold nothing: '(' [expr] ')'
        patom = ('choice', [num, ('seq', [('tok', '('), ('opt', ('call', 'expr')), ('tok', ')')])]) if rng.random() < 0.5 else atom
        rules = [('expr', [], ('seq', [('opt', ('seq', [('call', 'expr'), ('tok', op1)])), ('call', 'term')])),
                 ('term', [], patom)]
    elif kind == 'mutual':
        rules = [('expr', [], ('choice', [('seq', [('call', 'sub'), ('tok', op1), ('call', 'term')]), ('call', 'term')])),
                 ('sub', [], ('choice', [('seq', [('call', 'expr'), ('tok', op2), ('call', 'term')]), ('call', 'expr')])),
                 ('term', [], atom)]
    elif kind == 'optprefix':
        rules = [('expr', [], ('choice', [('seq', [('opt', ('tok', '-')), ('call', 'expr'), ('tok', op1), ('call', 'term')]), ('call', 'term')])),
                 ('term', [], atom)]
    elif kind == 'named':
        rules = [('expr', [], ('choice', [('seq', [('named', False, 'left', ('call', 'expr')), ('named', False, 'op', ('tok', op1)),
                                                   ('named', False, 'right', ('call', 'term'))]), ('call', 'term')])),
                 ('term', [], atom)]
    elif kind == 'rightmix':
        rules = [('expr', [], ('choice', [('seq', [('call', 'expr'), ('tok', op1), ('call', 'term')]), ('call', 'term')])),
                 ('term', [], ('choice', [('seq', [('call', 'factor'), ('tok', '^'), ('call', 'term')]), ('call', 'factor')])),
                 ('factor', [], atom)]
    elif kind == 'unary':
        rules = [('expr', [], ('choice', [('seq', [('call', 'expr'), ('tok', op1), ('call', 'term')]), ('call', 'term')])),
                 ('term', [], ('choice', [('seq', [('tok', '-'), ('call', 'term')]), ('call', 'factor')])),
                 ('factor', [], atom)]
    else:
        rules = [('expr', [], ('choice', [('seq', [('call', 'expr'), ('tok', op1), ('call', 'term')]), ('call', 'term')])),
                 ('term', [], ('choice', [('seq', [('call', 'term'), ('tok', op2), ('call', 'factor')]), ('call', 'factor')])),
                 ('factor', [], atom)]
    if len(rules) >= 2 and rng.random() < 0.2:
        # rule names that differ only by underscores (expr / expr_, term / _term) are different rules
        names = [n for n, _, _ in rules]
        i = rng.randrange(1, len(rules))
        base = names[i - 1] if rng.random() < 0.7 else names[0]
        new = rng.choice([base + '_', base + '__', '_' + base])
        renamed = None
        if new not in names:
            rules = rename_rule(rules, names[i], new)
            renamed = (names[i], new)
    else:
        renamed = None
    start_eof = rng.random() < 0.5
    if start_eof:
        rules = [('start', [], ('seq', [('call', 'expr'), 'eof']))] + rules
    g = {'rules': rules, 'directives': {}, 'keywords': []}
    if renamed:
        g['renamed'] = renamed          # (the name the templates use, the name in this grammar)
    return g, kind


def rename_rule(rules, old, new):
    def ren(e):
        if isinstance(e, tuple):
            if len(e) == 2 and e[0] == 'call' and e[1] == old:
                return ('call', new)
            return tuple(ren(x) for x in e)
        if isinstance(e, list):
            return [ren(x) for x in e]
        return e
    return [(new if n == old else n, d, ren(e)) for n, d, e in rules]


def lrec_inputs(rng: random.Random, n: int, maxlen=7, g=None):
    """operator/operand strings; when the grammar is given, operands and operators are biased towards the ones it accepts"""
    toks = ['1', '2', 'x', '+', '-', '*', '/', '^', '(', ')', '!']
    operands = ['1', '2', 'x', '(1)', '(2)', '(1+2)', '(x-1)', '1()', '2 ( )']
    ops = ['+', '-', '*', '/', '^']
    if g is not None:
        text = repr(g['rules'])
        gops = [o for o in ops + ['!'] if f"('tok', '{o}')" in text]
        if "('tok', '(')" not in text:
            operands = ['1', '2', '12', '1', '2', 'x'] if '[a-z]+' in text else ['1', '2', '12', '7']
        elif "('tok', '('), ('tok', ')')" in text:
            operands = ['1', '2', '1()', '2 ( )', '12']
        else:
            operands = ['1', '2', 'x', '(1)', '(2)', '(1+2)', '(x-1)'] if '[a-z]+' in text else ['1', '2', '(1)', '(1+2)', '(2-1)']
        ops = (gops * 3 + ops) if gops else ops
    out = ['']
    while len(out) < n:
        r = rng.random()
        k = rng.randint(1, maxlen)
        if r < 0.75:
            s = []
            for i in range(k):
                s.append(rng.choice(operands) if i % 2 == 0 else rng.choice([o for o in ops if o != '!'] or ops))
            if rng.random() < 0.15:
                s.insert(0, rng.choice(['-', '~', '!']))
            if rng.random() < 0.25:
                s.append('!')
            t = rng.choice(['', ' ']).join(s)
        else:
            t = ''.join(rng.choice(toks) for _ in range(k))
        if t not in out:
            out.append(t)
    return out
