"""Differential execution of the engine model (modelrun_Engine) against tatsu in /repo's working tree."""
from __future__ import annotations

import json
import signal
import sys

import enginelib as E
from enginelib import kind, walk
import vlib


class Case:
    __slots__ = ('g', 'text', 'start', 'settings', 'semspec', 'tag', 'failure')

    def __init__(self, g, text, start=None, settings=None, semspec=('none', {}), tag=''):
        self.g = g
        self.text = text
        self.start = start
        self.settings = settings or E.Settings()
        self.semspec = semspec
        self.tag = tag
        self.failure = None      # (class name, position) of the FailedParse the implementation reported, if any

    def describe(self):
        return {'grammar': E.grammar_text(self.g), 'text': self.text, 'start': self.start,
                'settings': self.settings.kwargs(), 'semantics': repr(self.semspec)}


_compiled: dict[str, object] = {}


class Alarm(BaseException):     # not an Exception: the code under test must not be able to swallow it
    pass


def _on_alarm(signum, frame):
    raise Alarm()


def with_timeout(fn, seconds=10):
    old = signal.signal(signal.SIGALRM, _on_alarm)
    signal.setitimer(signal.ITIMER_REAL, seconds, 0.25)     # repeats, in case one delivery is swallowed
    try:
        try:
            return fn()
        finally:
            signal.setitimer(signal.ITIMER_REAL, 0)
    except Alarm:
        return ('timeout', None)
    finally:
        signal.setitimer(signal.ITIMER_REAL, 0)
        signal.signal(signal.SIGALRM, old)


def compile_grammar(g):
    import tatsu
    txt = E.grammar_text(g)
    if txt in _compiled:
        return _compiled[txt]
    try:
        m = with_timeout(lambda: tatsu.compile(txt, name='G'), 20)
        if isinstance(m, tuple):
            m = ('compile-timeout',)
    except RecursionError:
        m = ('compile-recursion',)
    except Exception as e:  # noqa
        m = ('compile-error', type(e).__name__, str(e)[:200])
    if len(_compiled) > 4000:
        _compiled.clear()
    _compiled[txt] = m
    return m


_genparsers: dict[str, object] = {}


def generated_parser(g):
    """The parser class generated from the grammar text, exec'd (cached); a tuple on failure."""
    import tatsu
    txt = E.grammar_text(g)
    if txt in _genparsers:
        return _genparsers[txt]
    try:
        src = with_timeout(lambda: tatsu.to_python_sourcecode(txt, name='G'), 30)
        if isinstance(src, tuple):
            res = ('codegen-timeout',)
        else:
            ns: dict = {}
            exec(compile(src, '<generated G>', 'exec'), ns)
            res = ns['GParser']
    except SyntaxError as e:
        res = ('generated-source-invalid', str(e)[:200])
    except RecursionError:
        res = ('codegen-recursion',)
    except Exception as e:  # noqa
        res = ('codegen-error', type(e).__name__, str(e)[:200])
    if len(_genparsers) > 2000:
        _genparsers.clear()
    _genparsers[txt] = res
    return res


def gen_outcome(c: Case):
    """Outcome of the generated parser on the case (same canonical form as run_impl)."""
    cls = generated_parser(c.g)
    if isinstance(cls, tuple):
        return cls, None
    sem = E.make_semantics(c.semspec, [n for n, _, _ in c.g['rules']])

    class _M:
        def parse(self, text, start=None, semantics=None, **kw):
            p = cls()
            if start is None:
                return p.parse(text, semantics=semantics, **kw)
            return p.parse(text, start=start, semantics=semantics, **kw)
    out = with_timeout(lambda: E.run_impl(_M(), c.text, c.start, c.settings, semantics=sem), 10)
    return out, (getattr(sem, '_calls', None) if sem is not None else None)


def impl_outcome(c: Case, model):
    sem = E.make_semantics(c.semspec, [n for n, _, _ in c.g['rules']])
    E.LAST_FAILURE = None
    out = with_timeout(lambda: E.run_impl(model, c.text, c.start, c.settings, semantics=sem), 2)
    calls = getattr(sem, '_calls', None) if sem is not None else None
    c.failure = E.LAST_FAILURE if out[0] == 'fail' else None
    return out, calls


def run_cases(mr: vlib.ModelRun, cases: list[Case], mode='f'):
    """-> list of (case, impl_outcome, model_outcome, extra) ; cases whose grammar does not compile are reported
    with impl outcome ('compile', ...)"""
    reqs, idx, impls = [], [], []
    results = [None] * len(cases)
    for i, c in enumerate(cases):
        m = compile_grammar(c.g)
        if isinstance(m, tuple):
            results[i] = (c, m, None, None)
            continue
        try:
            req = E.model_request(c.g, m, c.text, c.start, c.settings, c.semspec, mode=mode)
        except Exception as e:  # noqa: config resolution failed in the implementation
            results[i] = (c, ('config-error', type(e).__name__, str(e)[:200]), None, None)
            continue
        io, calls = impl_outcome(c, m)
        if io[0] == 'timeout':
            results[i] = (c, io, ('recursion', None), None)    # no verdict possible: do not burn the model's budget either
            continue
        reqs.append(req)
        idx.append(i)
        impls.append((io, calls))
    replies = mr.ask(reqs) if reqs else []
    for i, rep, (io, calls) in zip(idx, replies, impls):
        c = cases[i]
        mo = E.model_outcome(rep, c.g, c.semspec)
        bodies = None
        if mode == 'f' and rep[0] in ('ok', 'fail', 'fatal'):
            b = rep[-1]
            names = [n for n, _, _ in c.g['rules']]
            bodies = [names[int(x)] for x in b] if b != 'nil' and isinstance(b, list) else []
        results[i] = (c, io, mo, {'impl_calls': calls, 'model_bodies': bodies})
    return results


# ------------------------------------------------------------------ shrinking
def sub_exps(e):
    k = kind(e)
    if k in ('seq', 'choice'):
        for i in range(len(e[1])):
            rest = e[1][:i] + e[1][i + 1:]
            if len(rest) >= 2:
                yield (k, rest)
            elif len(rest) == 1:
                yield rest[0]
        for i, x in enumerate(e[1]):
            yield x
            for s in sub_exps(x):
                yield (k, e[1][:i] + [s] + e[1][i + 1:])
    elif k in ('group', 'skipgroup', 'opt', 'skipto'):
        yield e[1]
        for s in sub_exps(e[1]):
            yield (k, s)
    elif k == 'rep':
        yield e[4]
        if e[2] is not None:
            yield ('rep', e[1], None, False, e[4])
        for s in sub_exps(e[4]):
            yield ('rep', e[1], e[2], e[3], s)
    elif k == 'assoc':
        yield e[3]
        yield ('rep', True, e[2], False, e[3])
        for s in sub_exps(e[3]):
            yield ('assoc', e[1], e[2], s)
    elif k == 'look':
        yield e[2]
        for s in sub_exps(e[2]):
            yield ('look', e[1], s)
    elif k == 'named':
        yield e[3]
        for s in sub_exps(e[3]):
            yield ('named', e[1], e[2], s)
    elif k == 'over':
        yield e[2]
        for s in sub_exps(e[2]):
            yield ('over', e[1], s)


def calls_of(e):
    return {x[1] for x in walk(e) if kind(x) == 'call'}


def shrink_case(c: Case, bad, budget=400) -> Case:
    """Greedy shrink of (grammar, text) while bad(case) holds."""
    cur = c
    steps = 0
    changed = True
    while changed and steps < budget:
        changed = False
        # shorten the text
        for i in range(len(cur.text)):
            steps += 1
            t = cur.text[:i] + cur.text[i + 1:]
            cand = Case(cur.g, t, cur.start, cur.settings, cur.semspec, cur.tag)
            if bad(cand):
                cur = cand
                changed = True
                break
        if changed:
            continue
        rules = cur.g['rules']
        # drop unused rules
        used = set()
        start = cur.start or rules[0][0]
        todo = [start]
        rd = {n: x for n, _, x in rules}
        while todo:
            n = todo.pop()
            if n in used or n not in rd:
                continue
            used.add(n)
            todo += list(calls_of(rd[n]))
        if len(used) < len(rules) and rules[0][0] in used:
            g2 = dict(cur.g)
            g2['rules'] = [r for r in rules if r[0] in used]
            cand = Case(g2, cur.text, cur.start, cur.settings, cur.semspec, cur.tag)
            steps += 1
            if bad(cand):
                cur = cand
                changed = True
                continue
        for ri, (name, deco, e) in enumerate(rules):
            for s in sub_exps(e):
                steps += 1
                if steps > budget:
                    break
                g2 = dict(cur.g)
                g2['rules'] = rules[:ri] + [(name, deco, s)] + rules[ri + 1:]
                cand = Case(g2, cur.text, cur.start, cur.settings, cur.semspec, cur.tag)
                try:
                    if bad(cand):
                        cur = cand
                        changed = True
                        break
                except Exception:
                    pass
            if changed or steps > budget:
                break
    return cur


def kinds_signature(c: Case) -> str:
    ks = set()
    for _, deco, e in c.g['rules']:
        for x in walk(e):
            k = kind(x)
            if k == 'rep':
                k = 'rep' + ('+' if x[1] else '') + ('sep' if x[2] is not None else '')
            if k == 'assoc':
                k = 'leftjoin' if x[1] else 'rightjoin'
            if k == 'look':
                k = 'neglook' if x[1] else 'look'
            if k == 'named' and x[1]:
                k = 'namedlist'
            if k == 'over' and x[1]:
                k = 'overlist'
            ks.add(k)
        ks |= {'@' + d for d in deco}
    return '+'.join(sorted(ks))


def differential(chk, mr, cases: list[Case], label: str, mode='f', compare_calls=False, batch=400):
    """Run the cases; report disagreements as violations (shrunk). Returns number of disagreements."""
    nbad = 0
    for off in range(0, len(cases), batch):
        chunk = cases[off:off + batch]
        for (c, io, mo, extra) in run_cases(mr, chunk, mode):
            fp = json.dumps([E.grammar_text(c.g), c.text, c.start, c.settings.kwargs(), repr(c.semspec)])
            if mo is None:
                chk.case(fp, nontrivial=False)
                chk.count(f'{label}.uncompilable:{io[0]}')
                if io[0] in ('compile-error',) and io[1] not in ('GrammarError', 'FailedParse', 'FailedToken', 'FailedPattern'):
                    pass
                continue
            chk.case(fp, nontrivial=len(c.text) > 0 and io[0] in ('ok', 'fail'))
            chk.count(f'{label}.impl:{io[0]}')
            if mo[0] == 'recursion' and io[0] != 'recursion':
                # the model ran out of fuel: not a verdict
                chk.count(f'{label}.model-oof')
                continue
            same = (io == mo)
            if same and compare_calls and extra and extra['impl_calls'] is not None and extra['model_bodies'] is not None:
                same = list(extra['impl_calls']) == list(extra['model_bodies'])
            if not same:
                nbad += 1

                def bad(cc):
                    rr = run_cases(mr, [cc], mode)[0]
                    if rr[2] is None or rr[2][0] == 'recursion':
                        return False
                    s = (rr[1] == rr[2])
                    return not s
                small = shrink_case(c, bad) if nbad <= 3 else c
                rr = run_cases(mr, [small], mode)[0]
                sig = f'{label}:{kinds_signature(small)}:impl={rr[1][0]}:model={rr[2][0] if rr[2] else None}'
                chk.violation(sig, f'{label}: implementation and model disagree (impl {rr[1]} vs model {rr[2]})',
                              {'correspondence': label, 'case': small.describe(), 'impl': rr[1], 'model': rr[2],
                               'extra': rr[3], 'original_case': c.describe()})
    return nbad
