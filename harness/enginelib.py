"""Grammar IR shared by the engine properties (C01-C06, C09, C11, C12): printers to TatSu grammar
text and to the model's S-expression, the oracle tables (regex, unicode), runners for the
implementation and for modelrun_Engine, and canonicalisation of results.

IR (nested tuples):
  ('tok', s) ('pat', regex) ('const', text) 'void' 'cut' 'eof' 'dot' 'empty'
  ('seq', [e..]) ('choice', [e..]) ('group', e) ('skipgroup', e) ('opt', e)
  ('rep', plus, sep|None, omitsep, e) ('assoc', left, sep, e) ('include', rule) ('look', neg, e) ('skipto', e) ('call', name)
  ('named', islist, name, e) ('over', islist, e)
A grammar = {'rules': [(name, decorators, exp)], 'directives': {...}, 'keywords': [...]}
"""
from __future__ import annotations

import ast as pyast
import json
import re
import sys
import threading
from dataclasses import dataclass, field

import vlib
from vlib import sx, Atom, Some


# ------------------------------------------------------------------ printing as TatSu text
def quote_tok(s: str) -> str:
    assert "'" not in s and '\\' not in s and '\n' not in s
    return "'" + s + "'"


def quote_pat(p: str) -> str:
    assert '/' not in p
    return '/' + p + '/'


ATOMS = {'tok', 'pat', 'const', 'void', 'cut', 'eof', 'dot', 'empty', 'call', 'group', 'skipgroup', 'opt', 'rep', 'assoc', 'include', 'meta'}


def kind(e):
    return e if isinstance(e, str) else e[0]


def to_text(e, ctx='top') -> str:
    """ctx: 'top' (an expre), 'seq' (element of a sequence), 'term' (operand of a prefix/postfix operator)"""
    k = kind(e)
    if ctx == 'atom' and k not in ('tok', 'pat', 'const', 'eof', 'dot', 'call', 'group', 'skipgroup', 'meta', 'seq', 'choice'):
        return '(' + to_text(e, 'top') + ')'
    if ctx == 'term' and k in ('named', 'over'):
        return '(' + to_text(e, 'top') + ')'
    if k == 'tok':
        return quote_tok(e[1])
    if k == 'pat':
        return quote_pat(e[1])
    if k == 'const':
        return '`' + e[1] + '`'
    if k == 'meta':
        return '@' + e[1]
    if k == 'void':
        return '()'
    if k == 'cut':
        return '~'
    if k == 'eof':
        return '$'
    if k == 'dot':
        return '/./'
    if k == 'empty':
        return '{}'
    if k == 'call':
        return e[1]
    if k == 'include':       # >rule : the rule's expression, in place (docs/syntax.rst "rule include")
        return '>' + e[1]
    if k == 'seq':
        s = ' '.join(to_text(x, 'seq') for x in e[1])
        return s if ctx in ('top', 'option') else '(' + s + ')'
    if k == 'choice':
        s = ' | '.join(to_text(x, 'option') for x in e[1])
        return s if ctx == 'top' else '(' + s + ')'
    if k == 'group':
        return '(' + to_text(e[1], 'top') + ')'
    if k == 'skipgroup':
        return '(?:' + to_text(e[1], 'top') + ')'
    if k == 'opt':
        return '[' + to_text(e[1], 'top') + ']'
    if k == 'rep':
        _, plus, sep, omitsep, x = e
        body = '{' + to_text(x, 'top') + '}' + ('+' if plus else '')
        if sep is None:
            return body
        return to_text(sep, 'atom') + ('.' if omitsep else '%') + body
    if k == 'assoc':        # sep<{e}+ (left) / sep>{e}+ (right)
        return to_text(e[2], 'atom') + ('<' if e[1] else '>') + '{' + to_text(e[3], 'top') + '}+'
    if k == 'look':
        return ('!' if e[1] else '&') + to_text(e[2], 'term')
    if k == 'skipto':
        return '->' + to_text(e[1], 'term')
    if k == 'named':
        return e[2] + ('+:' if e[1] else ':') + to_text(e[3], 'term')
    if k == 'over':
        return ('@+:' if e[1] else '@:') + to_text(e[2], 'term')
    raise ValueError(k)


def base_of(decorators):
    for d in decorators:
        if d.startswith('base:'):
            return d[5:]
    return None


def full_exp(g, name, depth=0):
    """what a rule stands for: its own expression, behind the full expression of its base rule when it is a based rule
    (docs/syntax.rst 'Based Rules': extended < base: exp2  ==  extended: exp1 exp2)"""
    for n, d, e in g['rules']:
        if n == name:
            b = base_of(d)
            if b is None or depth > 8:
                return e
            return ('seq', [full_exp(g, b, depth + 1), e])
    raise KeyError(name)


def grammar_text(g) -> str:
    out = []
    for name, value in g.get('directives', {}).items():
        if name in ('whitespace', 'comments', 'eol_comments'):
            out.append(f'@@{name} :: /{value}/' if value is not None else f'@@{name} :: None')
        elif name == 'namechars':
            out.append(f"@@namechars :: '{value}'")
        else:
            out.append(f'@@{name} :: {value}')
    kws = g.get('keywords', [])
    if kws:
        out.append('@@keyword :: ' + ' '.join(kws))
    for name, decorators, e in g['rules']:
        for d in decorators:
            if not d.startswith('base:'):
                out.append('@' + d)
        b = base_of(decorators)
        out.append(f'{name}{" < " + b if b else ""} = {to_text(e, "top")} ;')
    return '\n'.join(out) + '\n'


# ------------------------------------------------------------------ constants: what the engine evaluates them to
def const_value(text: str):
    """The value `constant()` yields for the literal, for the pool of constants the generators use."""
    # engine.constant() evaluates the literal again while the result is a string that still changes (C17 covers that loop)
    v = text
    for _ in range(8):
        if not isinstance(v, str):
            break
        try:
            w = pyast.literal_eval(v.strip())
        except (ValueError, SyntaxError):
            break
        if w == v:
            break
        v = w
    return v


# ------------------------------------------------------------------ model S-expression
class Tables:
    """pattern ids (regex oracle) for one case"""

    def __init__(self):
        self.pats: list[str] = []

    def pid(self, p: str) -> int:
        if p not in self.pats:
            self.pats.append(p)
        return self.pats.index(p)


def val_sx(v) -> str:
    if v is None:
        return 'none'
    if isinstance(v, bool):
        return f'(bool {1 if v else 0})'
    if isinstance(v, int):
        return f'(int {v})'
    if isinstance(v, str):
        return f'(str {sx(v)})'
    if isinstance(v, tuple):
        return '(tuple ' + ' '.join(val_sx(x) for x in v) + ')'
    if isinstance(v, list):
        return '(list 0 ' + ' '.join(val_sx(x) for x in v) + ')'
    raise TypeError(type(v))


def exp_sx(e, names: dict, tabs: Tables) -> str:
    k = kind(e)
    if k == 'tok':
        return f'(tok {sx(e[1])})'
    if k == 'pat':
        return f'(pat {tabs.pid(e[1])})'
    if k == 'const':
        return f'(const {val_sx(const_value(e[1]))})'
    if k == 'meta':
        return f'(meta {e[1]})'
    if k in ('void', 'cut', 'eof', 'dot', 'empty'):
        return k
    if k == 'call':
        return f'(call {names[e[1]]})'
    if k == 'include':
        # the documented expansion: the included rule's expression stands in place of the include (transparent group)
        return f'(group {exp_sx(tabs.rule_exps[e[1]], names, tabs)})'
    if k in ('seq', 'choice'):
        return f'({k} ' + ' '.join(exp_sx(x, names, tabs) for x in e[1]) + ')'
    if k in ('group', 'skipgroup', 'opt', 'skipto'):
        return f'({k} {exp_sx(e[1], names, tabs)})'
    if k == 'rep':
        _, plus, sep, omitsep, x = e
        s = 'none' if sep is None else f'(some {exp_sx(sep, names, tabs)})'
        return f'(rep {int(plus)} {s} {int(omitsep)} {exp_sx(x, names, tabs)})'
    if k == 'assoc':
        return f'(assoc {int(e[1])} (rep 1 (some {exp_sx(e[2], names, tabs)}) 0 {exp_sx(e[3], names, tabs)}))'
    if k == 'look':
        return f'(look {int(e[1])} {exp_sx(e[2], names, tabs)})'
    if k == 'named':
        return f'(named {int(e[1])} {sx(e[2])} {exp_sx(e[3], names, tabs)})'
    if k == 'over':
        return f'(over {int(e[1])} {exp_sx(e[2], names, tabs)})'
    raise ValueError(k)


def walk(e):
    yield e
    k = kind(e)
    if k in ('seq', 'choice'):
        for x in e[1]:
            yield from walk(x)
    elif k in ('group', 'skipgroup', 'opt', 'skipto'):
        yield from walk(e[1])
    elif k == 'rep':
        if e[2] is not None:
            yield from walk(e[2])
        yield from walk(e[4])
    elif k == 'assoc':
        yield from walk(e[2])
        yield from walk(e[3])
    elif k == 'look':
        yield from walk(e[2])
    elif k == 'named':
        yield from walk(e[3])
    elif k == 'over':
        yield from walk(e[2])


def grammar_strings(g):
    out = set()
    for _, _, e in g['rules']:
        for x in walk(e):
            if kind(x) == 'tok':
                out.add(x[1])
    out |= set(g.get('keywords', []))
    return out


# ------------------------------------------------------------------ the implementation side
@dataclass
class Settings:
    """parse-time settings handed to model.parse(**settings) and mirrored into the model's config"""
    memoization: bool | None = None
    left_recursion: bool | None = None
    prune_memos_on_cut: bool | None = None
    perlinememos: float | None = None
    parseinfo: bool | None = None
    ignorecase: bool | None = None
    nameguard: bool | None = None
    whitespace: object = 'UNSET'
    trace: bool | None = None
    colorize: bool | None = None
    extra: dict = field(default_factory=dict)     # further settings, passed through as they are

    def kwargs(self):
        d = {}
        for k, v in self.__dict__.items():
            if k == 'extra':
                continue
            if k == 'whitespace':
                if v != 'UNSET':
                    d[k] = v
            elif v is not None:
                d[k] = v
        d.update(self.extra)
        return d


class Timeout(Exception):
    pass


def canon(v):
    """Canonical JSON-able form of a parse result (closed/open lists identified, dict keys sorted,
    parseinfo entries split off)."""
    from tatsu.contexts.ast import AST
    if isinstance(v, AST) or isinstance(v, dict):
        out = {}
        for k, x in v.items():
            if k in ('parseinfo', '__parseinfo__'):
                if x is not None:
                    out[k] = ['info', x.rule, x.pos, x.endpos, x.line, x.endline]
                else:
                    out[k] = None
                continue
            out[str(k)] = canon(x)
        return {'dict': dict(sorted(out.items()))}
    if isinstance(v, tuple):
        if len(v) == 3 and v[0] == '$tag':
            return {'tag': [v[1], canon(v[2])]}
        return {'tuple': [canon(x) for x in v]}
    if isinstance(v, list):
        return [canon(x) for x in v]
    if isinstance(v, bool):
        return {'bool': v}
    if v is None or isinstance(v, (int, str)):
        return v
    if isinstance(v, float):
        return {'float': repr(v)}
    return {'other': type(v).__name__}


def canon_model(r, rule_names, tagnames=None):
    """Reply value of modelrun_Engine -> same canonical form."""
    if r == 'none':
        return None
    tag = r[0]
    if tag == 'str':
        return vlib.sx_str(r[1]) if r[1] != [] else ''
    if tag == 'int':
        return int(r[1])
    if tag == 'bool':
        return {'bool': r[1] == '1'}
    if tag == 'tuple':
        return {'tuple': [canon_model(x, rule_names, tagnames) for x in r[1:]]}
    if tag == 'list':
        return [canon_model(x, rule_names, tagnames) for x in r[2:]]
    if tag == 'dict':
        out = {}
        for k, v in r[1:]:
            ks = vlib.sx_str(k) if k != [] else ''
            if ks in ('parseinfo', '__parseinfo__'):
                out[ks] = ['info', rule_names[int(v[1])], int(v[2]), int(v[3]), int(v[4]), int(v[5])]
            else:
                out[ks] = canon_model(v, rule_names, tagnames)
        return {'dict': dict(sorted(out.items()))}
    if tag == 'tag':
        return {'tag': [(tagnames or rule_names)[int(r[1])], canon_model(r[2], rule_names, tagnames)]}
    raise ValueError(tag)


EXN = ['KeyError', 'FailedRef', 'IndexError', 'ValueError', 'TypeError', 'AttributeError', 'RuntimeError',
       'AssertionError', 'StopIteration', 'ZeroDivisionError',
       # tatsu's own exception classes that are NOT parse failures: raised by an action they must reach the caller like any other
       'ParseError', 'ParseException', 'GrammarError', 'TatSuException']


def exn_class(i: int):
    import builtins
    import tatsu.exceptions
    name = EXN[i]
    return getattr(builtins, name, None) or getattr(tatsu.exceptions, name, RuntimeError)


def value_size(v) -> int:
    """number of leaves (mirrors Semantics.v vsize): through lists, tuples, dict values and tags"""
    if isinstance(v, dict):
        return sum(value_size(x) for k, x in v.items() if k not in ('parseinfo', '__parseinfo__'))
    if isinstance(v, (list, tuple)):
        if isinstance(v, tuple) and len(v) == 3 and v[0] == '$tag':
            return value_size(v[2])
        return sum(value_size(x) for x in v)
    return 1


def make_semantics(spec, rule_names):
    """spec = (default_kind, {rule: kind}); kind = 'none' | 'identity' | 'tag' | ('failif', s) | ('raiseif', s, exn) | ('const', v)"""
    from tatsu.exceptions import FailedSemantics
    default, methods = spec
    if default == 'none' and not methods:
        return None
    calls = []

    def make(kindspec, rname):
        def action(ast, *args, **kwargs):
            calls.append(rname)
            k = kindspec if isinstance(kindspec, str) else kindspec[0]
            if k == 'identity':
                return ast
            if k == 'tag':
                return ('$tag', rname, ast)
            if k == 'wrap':
                return [ast]
            if k == 'failsize':
                if value_size(ast) >= kindspec[1]:
                    raise FailedSemantics('too big')
                return ast
            if k == 'failif':
                if ast == kindspec[1] and isinstance(ast, str):
                    raise FailedSemantics('no')
                return ast
            if k == 'raiseif':
                if ast == kindspec[1] and isinstance(ast, str):
                    raise exn_class(kindspec[2])(f'boom {rname}')
                return ast
            if k == 'const':
                return kindspec[1]
            raise AssertionError(k)
        return action

    class Sem:
        pass

    sem = Sem()
    sem._calls = calls
    for rname, k in methods.items():
        if k == 'data':
            setattr(sem, rname, 0)          # a plain data attribute that happens to be named like a rule
        elif k != 'none':
            setattr(sem, rname, make(k, rname))
    if default != 'none':
        # _default receives the ast; the rule name is not passed, so tagging by name is only done by methods
        def _default(ast, *args, **kwargs):
            calls.append('_default')
            k = default if isinstance(default, str) else default[0]
            if k == 'identity':
                return ast
            if k == 'wrap':
                return [ast]
            if k == 'failif':
                if ast == default[1] and isinstance(ast, str):
                    raise FailedSemantics('no')
                return ast
            if k == 'raiseif':
                if ast == default[1] and isinstance(ast, str):
                    raise exn_class(default[2])('boom')
                return ast
            if k == 'const':
                return default[1]
            raise AssertionError(k)
        sem._default = _default
    return sem


def resolve_actions(spec, rule_names) -> dict:
    """rule name -> name of the method that serves it (or '_default' / None): the harness's own statement of the lookup order of
    tatsu/contexts/core.py (name, safe_name(name), name.strip('_'), _name, _name_, each passed through safe_name; then _default).
    The model is told which action each rule has from THIS table, so a change to the implementation's lookup shows as an E1 divergence."""
    from tatsu.util import safe_name
    default, methods = spec
    live = {m for m, k in methods.items() if k not in ('none', 'data')}      # 'data': a non-callable attribute of that name (never an action)
    out = {}
    for n in rule_names:
        found = None
        for cand in (n, safe_name(n), n.strip('_'), f'_{n}', f'_{n}_'):
            if cand and safe_name(cand) in live:
                found = safe_name(cand)
                break
        if found is None and default != 'none':
            found = '_default'
        out[n] = found
    return out


def tag_names(spec, rule_names) -> list:
    """what a tagging action writes for each rule: the name of the method that was found for it"""
    res = resolve_actions(spec, rule_names)
    return [res[n] if res[n] not in (None, '_default') else n for n in rule_names]


def sem_sx(spec, names) -> str:
    default, methods = spec
    res = resolve_actions(spec, list(names))

    def one(k):
        if isinstance(k, str):
            return k
        if k[0] == 'failif':
            return f'(failif {sx(k[1])})'
        if k[0] == 'raiseif':
            return f'(raiseif {sx(k[1])} {k[2]})'
        if k[0] == 'const':
            return f'(const {val_sx(k[1])})'
        if k[0] == 'failsize':
            return f'(failsize {int(k[1])})'
        raise ValueError(k)
    return '(sem ' + one(default) + ''.join(f' ({names[r]} {one(methods[m])})' for r, m in res.items() if m not in (None, '_default')) + ')'


LAST_FAILURE = None
LAST_EXCEPTION = None      # side channel: the exception OBJECT that reached the caller of parse()


def run_impl(model, text: str, start: str | None, settings: Settings, semantics=None, timeout=5.0):
    """-> ('ok', canon) | ('fail', None) | ('exc', class name) | ('recursion', None) | ('timeout', None)"""
    from tatsu.exceptions import FailedParse, ParseException
    kw = settings.kwargs()
    if kw.get('trace'):
        import io
        import contextlib
    result = []

    def target():
        try:
            if kw.get('trace'):
                import contextlib
                import io
                with contextlib.redirect_stderr(io.StringIO()), contextlib.redirect_stdout(io.StringIO()):
                    v = model.parse(text, start=start, semantics=semantics, **kw)
            else:
                v = model.parse(text, start=start, semantics=semantics, **kw)
            result.append(('ok', canon(v)))
        except FailedParse as e:
            global LAST_FAILURE
            LAST_FAILURE = (type(e).__name__, getattr(e, 'pos', None))      # side channel: class and position of the reported failure
            result.append(('fail', None))
        except RecursionError:
            result.append(('recursion', None))
        except ParseException as e:
            global LAST_EXCEPTION
            LAST_EXCEPTION = e
            result.append(('exc', type(e).__name__))
        except Exception as e:  # noqa
            LAST_EXCEPTION = e
            result.append(('exc', type(e).__name__))

    # run inline (threads cannot be killed); a watchdog is provided by the caller for hangs
    target()
    return result[0]


# ------------------------------------------------------------------ oracle tables
def linecount(text: str) -> int:
    from tatsu.util import linecount as lc
    return lc(text)


def lineat_table(text: str) -> list[int]:
    from tatsu.input.textlines import TextLines
    tl = TextLines(text)
    c = tl.newcursor()
    out = []
    for p in range(len(text) + 1):
        try:
            out.append(c.lineat(p))
        except Exception:
            out.append(0)
    return out


def regex_table(pats: list[str], text: str) -> str:
    from tatsu.util.itertools import str_from_match
    rows = []
    for i, p in enumerate(pats):
        cre = re.compile(p)
        ents = []
        for pos in range(len(text) + 1):
            m = cre.match(text, pos)
            if m:
                v = str_from_match(m)
                ents.append(f'({pos} {m.end() - pos} {sx(v if v is not None else "")})')
        rows.append(f'({i} ' + ' '.join(ents) + ')')
    return '(re ' + ' '.join(rows) + ')'


def unicode_table(chars: set[str]) -> str:
    alnum = [ord(c) for c in chars if c.isalnum()]
    alpha = [ord(c) for c in chars if c.isalpha()]
    lower = [(ord(c), ord(c.lower())) for c in chars if len(c.lower()) == 1 and c.lower() != c]
    upper = [(ord(c), ord(c.upper())) for c in chars if len(c.upper()) == 1 and c.upper() != c]
    return ('(uni (alnum ' + ' '.join(map(str, alnum)) + ') (alpha ' + ' '.join(map(str, alpha)) + ') (lower ' +
            ' '.join(f'({a} {b})' for a, b in lower) + ') (upper ' + ' '.join(f'({a} {b})' for a, b in upper) + '))')


_UNSAFE = None


def unsafe_keys() -> list[str]:
    global _UNSAFE
    if _UNSAFE is None:
        from tatsu.contexts.ast import AST
        _UNSAFE = sorted(AST._unsafe())
    return _UNSAFE


@dataclass
class Effective:
    """The resolved configuration the model is given (what the implementation's layering yields - C09 checks
    the layering itself; here it is read from the ParserConfig the grammar + settings resolve to)."""
    whitespace: object
    comments: str | None
    eol_comments: str | None
    nameguard: bool
    ignorecase: bool
    namechars: str
    memoization: bool
    left_recursion: bool
    prune: bool
    cap: int
    parseinfo: bool
    keywords: list


def effective_config(model, text: str, settings: Settings, cfg=None) -> Effective:
    from tatsu.input.textlines import TextLines
    if cfg is None:
        cfg = model.optimized().new_parse_config(**settings.kwargs())
    tl = TextLines(text, config=cfg)
    ws = tl.whitespace_re.pattern if tl.whitespace_re is not None else None
    from tatsu.util.undefined import Undefined
    if cfg.whitespace is Undefined and ws is not None:
        # nobody defined whitespace: the documented default is the regular expression \\s+ (docs/directives.rst, docs/syntax.rst),
        # not whatever the code's DEFAULT_WHITESPACE_RE happens to say
        ws = r'(?m)\s+'
    cap = int(max(1.0, cfg.perlinememos) * linecount(tl.textstr))
    return Effective(
        whitespace=ws, comments=cfg.comments or None, eol_comments=cfg.eol_comments or None,
        nameguard=bool(tl.nameguard), ignorecase=bool(cfg.ignorecase), namechars=cfg.namechars or '',
        memoization=bool(cfg.memoization), left_recursion=bool(cfg.left_recursion),
        prune=bool(cfg.prune_memos_on_cut), cap=cap, parseinfo=bool(cfg.parseinfo),
        keywords=sorted(cfg.keywords or ()),
    )


def rules_to_sx(g, model, names, tabs):
    opt = model.optimized()       # the code generator optimizes the grammar before walking it too (ngparser_gen.pythongen)
    rules_sx = []
    for name, decorators, e in g['rules']:
        r = opt.rulemap[name]
        # @name / @nomemo are what the grammar TEXT says (docs/syntax.rst), not what the implementation made of it
        is_name = bool(r.is_name) if 'name' not in decorators and 'isname' not in decorators else True
        no_memo = bool(r.no_memo) if 'nomemo' not in decorators else True
        ex = full_exp(g, name) if base_of(decorators) else e      # a based rule: the documented expansion
        rules_sx.append(f'(rule {int(bool(r.is_tokn))} {int(is_name)} {int(no_memo)} '
                        f'{int(bool(r.is_lrec))} {int(bool(r.memoizable))} {exp_sx(ex, names, tabs)})')
    return rules_sx


def genok_request(g, model) -> str:
    """ask the model which rule bodies lie in the fragment on which GenEquiv.v proves generated parser = interpreter"""
    names = {name: i for i, (name, _, _) in enumerate(g['rules'])}
    tabs = Tables()
    tabs.rule_exps = {n: full_exp(g, n) for n, _, _ in g['rules']}
    return f'(genok 1 (rules {" ".join(rules_to_sx(g, model, names, tabs))}))'


def model_request(g, model, text: str, start: str | None, settings: Settings, semspec=('none', {}),
                  mode='f', fuel=None, flags_from_impl=True, cfg=None) -> str:
    """Build the modelrun_Engine request for this case. `cfg`: the resolved ParserConfig to use instead of the
    model's own layering (the generated parser resolves its configuration itself)."""
    names = {name: i for i, (name, _, _) in enumerate(g['rules'])}
    tabs = Tables()
    tabs.rule_exps = {n: full_exp(g, n) for n, _, _ in g['rules']}
    eff = effective_config(model, text, settings, cfg=cfg)
    if 'keywords' not in settings.extra and (cfg is None or g.get('keywords')):
        # the reserved words are the ones the grammar text declares (quotes removed), not what the implementation's configuration ended up holding
        eff.keywords = sorted({k[1:-1] if len(k) >= 2 and k[0] == k[-1] and k[0] in '\'"' else k for k in g.get('keywords', [])})
    rules_sx = rules_to_sx(g, model, names, tabs)
    ws = 'none' if eff.whitespace is None else f'(some {tabs.pid(eff.whitespace)})'
    cm = 'none' if eff.comments is None else f'(some {tabs.pid(eff.comments)})'
    eol = 'none' if eff.eol_comments is None else f'(some {tabs.pid(eff.eol_comments)})'
    chars = set(text) | set(''.join(grammar_strings(g))) | set(eff.namechars)
    chars |= {c.lower() for c in chars if len(c.lower()) == 1} | {c.upper() for c in chars if len(c.upper()) == 1}
    startname = start if start is not None else g['rules'][0][0]
    if fuel is None:
        fuel = 400 + 40 * len(text)
    req = (f'(parse {mode} {fuel} {names[startname]} (rules {" ".join(rules_sx)}) {sx(text)} '
           f'{regex_table(tabs.pats, text)} {unicode_table(chars)} '
           f'(icfg {ws} {cm} {eol} {int(eff.nameguard)} {int(eff.ignorecase)} {sx(eff.namechars)}) '
           f'(unsafe {" ".join(sx(k) for k in unsafe_keys())}) '
           f'(ecfg {int(eff.memoization)} {int(eff.left_recursion)} {int(eff.prune)} {eff.cap} {int(eff.parseinfo)} '
           f'({" ".join(sx(k) for k in eff.keywords)})) '
           f'{sem_sx(semspec, names)} (lineat {" ".join(map(str, lineat_table(text)))}) 1)')
    return req


def model_outcome(reply, g, semspec=None):
    rule_names = [n for n, _, _ in g['rules']]
    tagnames = tag_names(semspec, rule_names) if semspec is not None else None
    if reply[0] == 'ok':
        return ('ok', canon_model(reply[1], rule_names, tagnames))
    if reply[0] == 'fail':
        return ('fail', None)
    if reply[0] == 'fatal':
        k = reply[1]
        if k == 'oof':
            return ('recursion', None)
        if k == 'hang':
            return ('timeout', None)
        return ('exc', EXN[int(k[1])] if int(k[1]) < len(EXN) else 'Foreign')
    if reply == 'timeout' or reply[0] == 'timeout':
        return ('recursion', None)      # no verdict: treated like fuel exhaustion
    if reply[0] == 'error':
        return ('model-error', reply[1])
    raise ValueError(reply)
