"""Writes MANIFEST.json from the table below (kept in one place so it stays valid)."""
import json
from pathlib import Path

V = Path(__file__).resolve().parent.parent
BASE = json.load(open('/root/.vp/BASELINE.json'))

# property -> (technique, level text, level note, design ref)
CLAIMED = {
    'C19': (
        'Coq proof (Rle.v, Queue.v) + extracted-model correspondence + impl oracle',
        'Coq theorems, unbounded: rle_decode(rle_encode s)=s for every string; for every interleaving of sends and '
        '(cut-short) receives with distinct ids the reader has delivered exactly the good packets of a prefix of the file, '
        'in order, none twice, and a full read completes it; truncation inside the last record delivers only earlier packets. '
        'The models are tied to compact.py / queue.py by differential execution (exhaustive small strings, random histories, '
        'truncation at every byte offset) and by checking the regex literals in the source; pack/unpack of JSON payloads is '
        'covered by an implementation oracle only (json/asjson are not modelled).',
        'Trusted: Coq kernel, extraction (ExtrOcamlBasic), harness generators; Python re/json/blake2b; record-granularity '
        'abstraction of the file; packet ids assumed distinct. Known findings: payload keys @/__class__, strings starting f{ or \\e[.',
        '7 C19'),
}

NOT_YET = {}


def main():
    props = [json.loads(l) for l in (V / 'properties.jsonl').read_text().splitlines() if l.strip()]
    checks = []
    na = []
    for p in props:
        pid = p['id']
        if pid in CLAIMED:
            tech, text, note, ref = CLAIMED[pid]
            checks.append({
                'property_id': pid,
                'quick_cmd': f'bin/check {pid} --tier quick',
                'thorough_cmd': f'bin/check {pid} --tier thorough',
                'evidence_file': f'/verif/evidence/{pid}.json',
                'replay_cmd_template': f'bin/check {pid} --replay {{path}}',
                'engine': 'coq-model+correspondence',
                'level_claimed': {'category': 'proof', 'text': text, 'design_ref': f'DESIGN.md section {ref}'},
                'level_note': note,
                'technique': tech,
            })
        else:
            na.append({'property_id': pid,
                       'reason': NOT_YET.get(pid, 'check not built yet in this revision of /verif (planned: DESIGN.md section 7); '
                                                  'not claimed until its Coq model, theorems and correspondence are committed')})
    man = {
        'version': 1,
        'setup_cmd': 'bin/setup',
        'hooks': {
            'guard': 'TATSU_VERIF',
            'enable': 'checks export TATSU_VERIF=1; no hook commits exist in /repo (schedules and faults are driven from the harness)',
            'baseline_off_cmd': '/verif/bin/baseline_off',
            'source_commits': [],
            'add_only': True,
        },
        'engines': [{
            'name': 'coq-model+correspondence',
            'path': '/verif/coq',
            'serves_properties': sorted(CLAIMED),
            'kind_free_text': 'Coq 8.16.1 models and theorems (coq/theories), extracted to OCaml (build/modelrun_*) and '
                              'run against /repo by harness/props/*.py; translators in harness/translate regenerate coq/gen/*.v',
        }],
        'checks': checks,
        'not_applicable': na,
        'notes': 'Fixes committed to /repo (unguarded, tests unedited and passing): see KNOWN_FINDINGS.jsonl "fixed:" lines. '
                 'Known findings that are recorded rather than repaired are listed there by signature.',
    }
    (V / 'MANIFEST.json').write_text(json.dumps(man, indent=1) + '\n')


if __name__ == '__main__':
    main()
