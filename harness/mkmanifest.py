"""Writes MANIFEST.json from the table below (kept in one place so it stays valid)."""
import json
from pathlib import Path

V = Path(__file__).resolve().parent.parent
BASE = json.load(open('/root/.vp/BASELINE.json'))

# property -> (technique, level text, level note, design ref)
CLAIMED = {
    'C01': (
        'Coq engine model (peval/feval) + exhaustive-small and random differential execution against tatsu',
        'The parser engine (peg/*._parse, contexts/*: frames, cst/ast folding, closures/joins, lookaheads, skip-to, rule calls, '
        'memo, seeds) is modelled as one fuelled Gallina evaluator; its clean memo-free instance peval IS the documented PEG '
        'semantics (ordered choice, greedy repetition, pure lookahead, whitespace placement, AST shapes by construction of the '
        'definitions), proved deterministic and fuel-monotone, and the faithful instance is proved equal to it (C04 theorem). '
        'The model is tied to the code by differential execution: every expression up to a node budget with every input over '
        '{a,b,space} up to a length bound (exhaustive) plus random grammars over the whole core language with inputs sampled '
        'from the grammar; any disagreement is reported with a shrunk replay. Because a faithful model reproduces the places where the code '
        'departs from the DOCUMENTATION, two implementation-only oracles stand beside it: an independent reference interpreter of the documented '
        'AST semantics (props/c01_docref.py; every deviation class is a listed finding with the docs sentence it contradicts) and the '
        '"one element of its caller" oracle, whose exact guard is a theorem (C01_call_one_element_exact) with a replayed refutation witness. '
        'Also proved: a successful parse never moves backwards nor past the end of the text (clean and faithful engine); the dict law (names are never '
        'removed from a frame, a sequence defines every name written in it, defaults None / []: KeysProof.v); collected elements stay in order '
        '(PrefixProof.v); the trees of left / right joins for any number of operands (AssocProof.v).',
        'Trusted: Coq kernel, extraction, harness (IR printers, generators, canonicaliser); oracles from the real Python per case '
        '(re matches, unicode predicates, resolved ParserConfig, is_lrec/is_memo flags). Hand-written model, agreement with the code '
        'established by the correspondence only. Not modelled: tracing, error messages, EOL; left/right joins are a construct of the model; rule includes and based rules reach the model as their documented expansions (made by the harness).',
        '7 C01'),
    'C04': (
        'Coq proof of memo transparency (simulation, strong induction on fuel) + configuration-matrix differential runs',
        'Theorem C04_memo_transparent (closed under the global context): for every grammar without left-recursive rules, text, '
        'oracle and EVERY engine configuration (memoization on/off, any capacity incl. 0/1, pruning at cuts on/off, guards on/off) '
        'the faithful engine returns exactly what the memo-free semantics returns whenever that terminates. The model is tied to '
        'the code by running model.parse under the configuration matrix {memoization} x {perlinememos} x {prune_memos_on_cut} x '
        '{parseinfo} x {trace, colorize} and comparing every pair of outcomes with each other and with the model, on left-recursive '
        'grammars too (implementation-vs-implementation oracle): outcome with parseinfo entries erased, the parseinfo entries themselves among '
        'parseinfo-on settings, and the class and position of the reported failure; rules optionally @nomemo, semantics objects that reject / '
        'raise, a retry-and-handing-on family. C04_parseinfo_only_adds (PinfoRel.v): for WHOLE evaluations, parseinfo on / off end in the same outcome class, '
        'exception, position and cut flag and in values equal after erasing the reserved entries (relational induction through every construct; '
        'hypothesis: actions blind to those entries, shown satisfiable); lifted to the engine on grammars without left recursion.',
        'Trusted: as C01. Tracing/colouring are not in the model (checked by the oracle only). The memo theorem covers non-left-recursive '
        'grammars; left-recursive ones are covered by the correspondence and oracle.',
        '7 C04'),
    'C02': (
        'Coq model of generated-code runtime (Gen.v) with name-binding theorems + G0/G2 correspondences + generated-vs-model oracle classified by the models',
        'Gen.v models the runtime of generated parsers (names bound to last_node, define only for sequences, the optimized grammar as pythongen walks it); proved: in the '
        'single-append fragment last_node is the value the named expression returned, so name binding agrees with the model interpreter; a rule call '
        'appends its value; refutation witness outside the fragment (replayed). Tied by G0 (generated source loads), G2 (real generated parser vs Gen.v, '
        'using the generated parser own configuration) and by the property oracle itself: generated parser vs model.parse under settings and semantics, '
        'every divergence classified by the two Coq evaluators (explained = known finding, unexplained = violation); configuration tables (incl. '
        'keywords) of the two back-ends compared; probes for constructs outside the IR; histories on ONE reused parser object. '
        'C02_generated_parser_equals_model (GenEquiv.v): on the fragment genok (names / overrides over single-append expressions, no names defined by options of '
        'choices or optionals, no list override) genparse_with = parse_with - same result AND same engine state - for every text, configuration, action oracle and fuel; '
        'the extracted genok is asked for every case on which the generated parser and model.parse differ, and a differing case INSIDE the fragment is an unlisted violation.',
        'Trusted: as C01. Outside the fragment the code really differs (known findings D2a-d), so the equivalence cannot hold there.',
        '7 C02'),
    'C03': (
        'Coq lemmas on the seed-growing loop + correspondence on left-recursive template grammars + independent reference parser',
        'recursive_call/grow are part of the faithful engine model; proved: the loop returns the last seed of a strictly advancing chain, a grown '
        'seed is reused without running the body, the re-entrant invocation fails while seeding, left recursion off fails, grammars without '
        'marked rules are plain PEG (C04 theorem); the seed-growing loop is bounded by the text (C03_seed_loop_is_bounded_by_the_text: memo '
        'entries and seeds only hold end positions inside the text - an invariant carried with the positions through every construct - so the '
        'loop runs at most len+2 rounds); a left-recursive parse ends inside the text. The property itself (termination, left fold over the longest chain, right recursion '
        'unaffected, model = generated parser) is decided by differential execution of the model against tatsu on layered template grammars '
        '(direct, two-alternative, common-prefix, aliased, mutual, optional-prefixed, named, right-mix, unary, two layers; cuts in parentheses) '
        'and by an independent loop-based reference parser folding to the left; list-returning and rejecting semantics on the recursive rules, '
        'the generated parser (also one object reused over several texts), deep nesting and a selector template with a shared recursive prefix.',
        'Trusted: as C01 plus the reference parser of the check. Association to the left is proved round by round for ANY grammar (PrefixProof.v: collected elements '
        'are kept, the recursive call contributes the seed as one element, so the previous tree is the first element of the new one); the exact tree of a whole '
        'chain for the template grammars is decided by the reference parser and the correspondence.',
        '7 C03'),
    'C05': (
        'Coq proofs of commit and containment laws for cuts + cut-dense differential runs + docs-equivalence oracle',
        'Proved of the clean semantics, for every grammar/text/frame: an option, optional, closure/join iteration that fails after a cut makes the '
        'enclosing choice/optional/repetition fail (a join commits after each separator; only a cut makes a closure fail); rule calls, choices, '
        'optionals, repetitions, lookaheads and skip groups never change the caller cut flag and report failure with the caller flag. Tied by '
        'differential execution on grammars with cuts inserted after every kind of element and inputs failing right after each lexeme, and by the '
        'cut-scope equivalences of docs/syntax.rst checked on the implementation; a cut-scope family (outer alternatives sharing first tokens, '
        'inner group / optional / closure / positive repetition / plain group with cuts in every option) also run through generated parsers.',
        'Trusted: as C01. Scope decision: a plain group is transparent to cuts.',
        '7 C05'),
    'C06': (
        'Coq proofs about rule invocation with an action oracle + semantics-matrix differential runs',
        'Proved: what a rule invocation does with its body value (action receives the folded AST, its result replaces it, FailedSemantics = failure '
        'with the caller cut flag and memoised as a failure, any other exception is the result of the invocation); actions that return their '
        'argument are indistinguishable from no semantics for every grammar/text (relational induction); @nomemo rules are never stored. Tied by '
        'running tatsu and the model with semantics objects drawn from {none, identity, tagging, FailedSemantics on a predicate, 8 exception '
        'classes incl. tatsu non-failure classes, constant, list-wrapping, size-rejecting, _default/methods}, comparing results AND the sequence of action calls; '
        'C06_foreign_exception_reaches_caller: for every grammar, text, configuration and fuel an exception raised by an action IS the result of parse() '
        '(unary program logic Triple.v through every construct, the memo, seeds and the seed-growing loop; ghost log written exactly when an action raises). '
        'Twin rule names, atoms equal across types, left-recursive rules with rejecting actions, histories of semantics objects on one parser, the exception OBJECT in generated parsers.',
        'Trusted: as C01; BoundCallable signature binding only for the shapes generated; the action LOOKUP order is stated in the harness (enginelib.resolve_actions). Known finding: StopIteration becomes RuntimeError in generated parsers.',
        '7 C06'),
    'C11': (
        'Coq proofs of the keyword check at rule invocation + keyword grammars differential runs + oracle on bound names',
        'Proved: a @name rule never succeeds with a keyword (both sides upper-cased under the ignorecase in effect), the rejection is an ordinary failure '
        'with the caller cut flag, non-keywords are accepted exactly as by the undecorated rule. Tied by differential execution on grammars with '
        '@@keyword declarations (words, quoted, mixed case) and @name rules in choices, closures, lookaheads x inputs with keywords, prefixes, suffixes, '
        'case variants x ignorecase by directive and setting; oracle on the values bound to @name results; generated parser; undecorated grammar.',
        'Trusted: as C01 (upper() is an oracle per character).',
        '7 C11'),
    'C13': (
        'Coq proofs of token/pattern quoting round trips and rail widths + pretty/recompile/fixpoint oracle over generated models',
        'Proved: unquote(py_repr s) = s for every text without both quote kinds (refutation witness for the rest), the pattern printer/lexer round trip '
        'under its guard, equal line width of loop/stopnloop/weld for any width function. The property as a whole is decided by an implementation oracle '
        'over generated grammar models (compiled, JSON-reloaded, constructor-built): pretty() compiles, is a fixpoint, parses sampled inputs to equal ASTs, '
        'keeps directives/keywords/params/decorators, railroads() completes with equal widths; correspondences tie the quoting and rail models to the code.',
        'Trusted: Coq kernel, extraction, harness. lay_out/walker-level rail theorem and lexeme-level round trip are not proved (partial). Known findings: '
        'both-quote tokens, slash+quote patterns, trim() of patterns, empty pattern, constants with newlines/backquotes, unprinted decorators.',
        '7 C13'),
    'C07': (
        'Coq proofs over node trees (children, parents, walkers, build/erase) + correspondence on real Node trees + parse oracle',
        'Unbounded theorems (structural induction over rose trees): children() = exactly the nodes reachable without crossing another '
        'node, in __pub__ order, each with that parent; depth-first, post-order and breadth-first walkers each visit a permutation of all '
        'nodes exactly once (orders characterised); erase(build t) = the plain AST value; attributes are the named elements. Tied by '
        'correspondence on random trees of real Node instances and on real parses (synthesized and generated classes); oracle: '
        'model-building parse vs plain-AST parse of generated annotated grammars.',
        'Trusted: Coq kernel, extraction, harness; iteration order of the Python set inside __pub__ enters as an oracle (a permutation). '
        'Known findings: reserved attribute/class names, first-synthesis-wins registry (see KNOWN_FINDINGS.jsonl).',
        '7 C07'),
    'C08': (
        'Coq proofs for the character-level matchers and the whitespace loop + exhaustive matcher correspondence + robustness oracle',
        'Proved: a match of @uint/@int is never empty, stays inside the text and is a literal int() converts ([+-]?D(_?D)*, D = isdecimal), so the '
        'conversion cannot raise; @name/@bool matches are non-empty and exact; skipping whitespace and comments always terminates, never moves backwards '
        'and never leaves the text - even for patterns that can match the empty string (for every regex oracle whose matches lie inside the text). '
        'Tied by M1: all strings up to length 4/5 over the characters the matchers distinguish x every position. The statement for whole grammars and for '
        'compiling grammar texts is an implementation oracle: random grammars with @meta expressions x unicode texts x {TextLines, Buffer} x {parseinfo}, '
        'mutated grammar texts; exception class, hang, recursion, failure position / line info, message renders.',
        'Trusted: Coq kernel, extraction, harness; Python int()/float() acceptance (checked on every matched slice). @float is covered by the '
        'correspondence and the oracle only (no theorem). C08_engine_raises_nothing_foreign: in the engine model a fatal outcome without a raising action is '
        'fuel exhaustion, the hang marker, an unmodelled leaf or an undefined rule (every grammar, text, configuration). Oracle families: undefined rule in every '
        'syntactic position, rule headers and decorators, scanner settings by three channels, generated parser target.',
        '7 C08'),
    'C09': (
        'Coq proofs for the input layer and the configuration layering + input-configuration differential runs + relayout oracle',
        'Proved: skipping whitespace/comments is idempotent; tokens, constants, void, fail and the end-of-text check give the same result however much '
        'whitespace precedes them, patterns and the any-character expression look at the cursor position only; nameguard blocks exactly name tokens followed '
        'by a name character and does not affect other tokens; the effective value of every configuration field is the first defined among parse-time setting, '
        'directive, build-time setting, default (Config.v vs Config.override/hard_override). Tied by differential execution under input configurations given as '
        'directives or settings (upper/mixed-case tokens, constants before non-skipping elements, upper-case start rules, namechars histories in one process), '
        'by K1 (real Grammar/ParserConfig vs Config.v on random setting triples incl. empty strings), by the metamorphic relayout oracle and by reused-parser histories.',
        'Trusted: as C01. Whitespace invariance of WHOLE parses is a theorem reduced to the lexical primitives (C09_layout_invariance, LayoutRel.v: two texts, a one-to-one '
        'correspondence of positions on which next_token / token / pattern / any-char / end-of-text agree => same value or same failure for every grammar; lifted to the engine on '
        'grammars without left recursion); that a concrete re-layout yields such a correspondence is what the relayout oracle checks on the implementation. Also proved: whitespace at rule entry '
        '(lower-case rules skip it, upper-case rules never). Known findings: settings given to tatsu.compile never reach the model; a closure iteration that only skips whitespace counts as progress.',
        '7 C09'),
    'C10': (
        'Coq state-machine model of the API caches (history independence invariant, schedule independence) + fresh-interpreter replay',
        'Api.v models compile()/parse() over a heap with the cache key the code uses; proved: for the repaired compile (the code after the '
        'fix: commits) the result of any call after ANY history equals its result from the initial state (invariant: every cache entry is '
        'what a fresh compile of its key yields); cached models are never mutated; idempotent caches are schedule independent for every '
        'interleaving of N threads; refutation witnesses for the shipped cache key are kept. Tied by replaying random API histories '
        'against fresh interpreters and the model, write-set snapshots around parses, and threads on a shared model under a tiny switch interval.',
        'Trusted: Coq kernel, extraction, harness, fork/fresh-interpreter runner. Bytecode-level atomicity and real thread schedules are '
        'sampled, not proved. Known finding: synthesized-class registry keyed by name only.',
        '7 C10'),
    'C12': (
        'Coq proof of the line cache against an independent recursive specification + exhaustive correspondence',
        'LineCache.v models str.splitlines(keepends), build_line_cache, lineinfo/lineat/poscol/posline for TextLines and Buffer; proved for '
        'every text and offset: inside the text all accessors equal the specification (line = breaks before pos, col = pos - line start, '
        'text = that line) for LF, CR, CRLF and the other separators; the behaviour at pos = len is characterised exactly (repaired sentinel '
        'exact; lineinfo clamps). Correspondence: all strings over {a, space, LF, CR} up to length 5/6 x all offsets x both input classes, '
        'plus random texts with all separators, cursors parked at every offset before being asked (moved cursors); oracle: regex-split reference. '
        'The parseinfo-of-rules half: C12_parseinfo_delimits (engine model: the ParseInfo a rule puts on its AST is (rule, start of body, exact end, '
        'their lines) with pos <= endpos <= len) + the engine correspondence with parseinfo on (comments, trailing newlines, @nomemo rules), the '
        'object-model family (typed rules over ASTs and nodes, three node flavours) and observers (trace / colorize / Buffer input must not change it).',
        'Trusted: Coq kernel, extraction, harness. Known finding: lineinfo(len).col is the column of the last character (clamp pinned by a shipped test for .line).',
        '7 C12'),
    'C14': (
        'Coq proof of asjson termination on cyclic heaps and of the fromjson round trip + reload oracle (JSON, pickle, model source)',
        'Json.v models asjson as a DFS over a finite heap with the path-local seen set and fromjson with the class registry and string '
        'sniffing; proved: asjson terminates on every finite heap (sharing, cycles) with fuel |heap|+1, renders back edges as references and '
        'yields dumpable data; fromjson(asjson g) = g for grammar-like trees without style-like strings (refutation witnesses f{a and \\e[ '
        'replayed on the code). Tied by correspondence on random object graphs and generated grammar models; oracle: reload through JSON, '
        'pickle and generated model source, compared on rules/directives/keywords/pretty and on parses of sampled inputs.',
        'Trusted: Coq kernel, extraction, harness. Pickle stream and source printer are oracle-only. Known findings: style-like strings, '
        '__class__ kwparam, unbracketed decorator list in model source.',
        '7 C14'),
    'C15': (
        'Coq statements over regenerated closed terms (translator re-reads bootstrap.py, bootparser.py, _tatsu.ebnf and regenerates the parser) + four-parser differential',
        'A translator turns the shipped artefacts (tatsu/bootstrap.py, tatsu/bootparser.py GRAMMAR_MODEL, tatsu/_tatsu.ebnf, grammar/tatsu.ebnf) and '
        'the parser regenerated from the grammar file into Coq terms on every run; proved (decidable equality on trees, with a sound difference '
        'finder): GRAMMAR_MODEL = compile(_tatsu.ebnf).optimized(); the syntax trees of bootstrap.py/bootparser.py equal those of the regenerated '
        'sources; the shipped generated parser, the interpreted grammar, bootparser and the regenerated parser build the same model on the '
        'grammar file itself; every name binding of the TatSu grammar except four examined rules lies in the fragment where generated code '
        'binds the returned value (C02 theorem instantiated). The for-all-texts agreement is tied by a differential: grammar texts generated '
        'from the TatSu grammar (all productions and alternatives covered) and mutants go through the four parsers; decision, exception class '
        'and position, and the resulting models are compared.',
        'Trusted: Coq kernel, translator T8, harness. GrammarSemantics and the generated-code runtime are not modelled: agreement on every '
        'text other than the regenerated artefacts rests on the differential, so the level is partial for the quantifier over all texts.',
        '7 C15'),
    'C16': (
        'Coq proof of exactness of the left-recursion analysis + exhaustive small rule graphs + runtime recursion oracle',
        'LeftRec.v models nullable/_is_nullable_safe/_callable_rule_ids, the first graph, components by mutual reachability and the leader '
        'choice; proved for every grammar: left calls are exactly the calls preceded only by nullable elements; detection with left recursion '
        'off is exact (error iff a rule reaches itself); rules on no cycle stay memoized and unmarked; with the repaired leader choice every '
        'cycle contains a leader (the shipped choice is refuted by a witness). Tied by correspondence of (is_lrec, is_memo) and GrammarError '
        'on all 3-rule digraphs / exhaustive small bodies and random graphs; every grammar is parsed on a battery under a recursion/time guard.',
        'Trusted: Coq kernel, extraction, harness. SCCs are specified, not the DFS of sccutils.py (held by the correspondence). Known finding: '
        'a cycle hidden behind a call to a rule that can match empty (outside the property guard for detection, inside it for runtime).',
        '7 C16'),
    'C17': (
        'Coq proof over the regenerated builtin table and the expression checker (capability semantics) + audit-hook oracle',
        'A translator regenerates the interpreter builtin table and the deny list/predicates from safeeval.py on every run; proved: no '
        'dangerous builtin survives the filter (forallb over the generated table, recompiled each run, so a deny-list regression breaks the '
        'proof), the checker is sound (names in context, no dunder/reflective attribute, call targets restricted), accepted expressions fire '
        'no dangerous capability, rejected text is never evaluated and the interpolation loop terminates. Tied by correspondence with '
        'is_eval_safe on generated expressions and by evaluating accepted expressions under sys.addaudithook directly and through the parser.',
        'Trusted: Coq kernel, extraction, translator, harness; the capability semantics abstracts eval() (tied only by the audit-hook runs); '
        'methods of data values are assumed to return data except for the attribute names the checker blocks.',
        '7 C17'),
    'C18': (
        'Coq proof of the submission-window state machine for every schedule + deterministic-executor correspondence',
        'ParProc.v models executor_pmap/parproc/taskproc; proved for every task list, worker count, mode and schedule (list nat): the loop '
        'terminates with fuel 2n+2, yields a permutation of the tasks results exactly once each, equals the sequential multiset, never has more '
        'than 1+workers pending, and a captured exception is exactly one result; the capture decision table is stated outright. Tied by driving '
        'the real parproc() with a deterministic executor and a schedule-driven as_completed over all schedules for n<=5 (6 thorough), and '
        'by real thread/process pools (multiset).',
        'Trusted: Coq kernel, extraction, harness; contract of concurrent.futures.as_completed and the pools. Known finding: a captured '
        'exception that does not unpickle breaks the process pool.',
        '7 C18'),
    'C19': (
        'Coq proof (Rle.v, Queue.v) + extracted-model correspondence + impl oracle',
        'Coq theorems, unbounded: rle_decode(rle_encode s)=s for every string; for every interleaving of sends and '
        '(cut-short) receives with distinct ids the reader has delivered exactly the good packets of a prefix of the file, '
        'in order, none twice, and a full read completes it; truncation inside the last record delivers only earlier packets; several live '
        'receive() generators on one reader advanced in any order keep exactly-once / in-order (QueueGen.v). '
        'The models are tied to compact.py / queue.py by differential execution (exhaustive small strings, random histories, '
        'truncation at every byte offset) and by checking the regex literals in the source; pack/unpack of JSON payloads is '
        'covered by an implementation oracle only (json/asjson are not modelled).',
        'Trusted: Coq kernel, extraction (ExtrOcamlBasic), harness generators; Python re/json/blake2b; record-granularity '
        'abstraction of the file; packet ids assumed distinct. Known findings: payload keys @/__class__, strings starting f{ or \\e[.',
        '7 C19'),
    'C20': (
        'Coq proof over the regenerated SGR tables and ANSI_RE scanner + exhaustive/random correspondence with ztyle.Style',
        'A translator re-reads ANSI_RE/SGR_RE and the attribute->SGR table from the source; proved for every ESC-free text and every style '
        '(16/256/RGB colours, every modifier subset): descape(apply_style st text) = text; descape(apply st text spec) = format(text, spec) '
        'and the visible length is its length; with colour disabled no escape is emitted; the SGR parameter list parses back to the same '
        'attributes; the Color.enabled priority table; repr/from_raw round trip partially (witnesses for the failing classes). Tied by '
        'correspondence of descape, apply_style, format and from_raw against the real classes.',
        'Trusted: Coq kernel, extraction, translator, harness. Display width is code-point count in the code and the model. Known findings: '
        'repr/from_raw on backslash-e text, non-printable characters and empty text.',
        '7 C20'),
}

NOT_YET = {}


def main():
    props = [json.loads(l) for l in (V / 'properties.jsonl').read_text().splitlines() if l.strip()]
    checks = []
    na = []
    for p in props:
        pid = p['id']
        if pid in CLAIMED:
            tech, text, note, ref = CLAIMED[pid]
            checks.append({
                'property_id': pid,
                'quick_cmd': f'bin/check {pid} --tier quick',
                'thorough_cmd': f'bin/check {pid} --tier thorough',
                'evidence_file': f'/verif/evidence/{pid}.json',
                'replay_cmd_template': f'bin/check {pid} --replay {{path}}',
                'engine': 'coq-model+correspondence',
                'level_claimed': {'category': 'proof', 'text': text, 'design_ref': f'DESIGN.md section {ref}'},
                'level_note': note,
                'technique': tech,
            })
        else:
            na.append({'property_id': pid,
                       'reason': NOT_YET.get(pid, 'check not built yet in this revision of /verif (planned: DESIGN.md section 7); '
                                                  'not claimed until its Coq model, theorems and correspondence are committed')})
    man = {
        'version': 1,
        'setup_cmd': 'bin/setup',
        'hooks': {
            'guard': 'TATSU_VERIF',
            'enable': 'checks export TATSU_VERIF=1; no hook commits exist in /repo (schedules and faults are driven from the harness)',
            'baseline_off_cmd': '/verif/bin/baseline_off',
            'source_commits': [],
            'add_only': True,
        },
        'engines': [{
            'name': 'coq-model+correspondence',
            'path': '/verif/coq',
            'serves_properties': sorted(CLAIMED),
            'kind_free_text': 'Coq 8.16.1 models and theorems (coq/theories), extracted to OCaml (build/modelrun_*) and '
                              'run against /repo by harness/props/*.py; translators in harness/translate regenerate coq/gen/*.v',
        }],
        'checks': checks,
        'not_applicable': na,
        'notes': 'Fixes committed to /repo (unguarded, tests unedited and passing): see KNOWN_FINDINGS.jsonl "fixed:" lines. '
                 'Known findings that are recorded rather than repaired are listed there by signature.',
    }
    (V / 'MANIFEST.json').write_text(json.dumps(man, indent=1) + '\n')


if __name__ == '__main__':
    main()
