"""C06 - semantic actions receive each rule's AST and their result replaces it."""
from __future__ import annotations

import sys
from pathlib import Path

sys.path.insert(0, str(Path(__file__).resolve().parent.parent))
import vlib
from vlib import Check, ModelRun
import enginelib as E
import enginegen as G
import enginerun as R

PID = 'C06'
RAISE = [0, 2, 3, 4, 5, 6, 7, 8, 10, 11, 12, 13]     # indexes into enginelib.EXN: KeyError IndexError ValueError TypeError AttributeError RuntimeError AssertionError StopIteration
STRS = ['a', 'b', 'ab', 'x', ',', '1', 'if']


def gen_semspec(rng, g):
    names = [n for n, _, _ in g['rules']]
    r = rng.random()
    if r < 0.15:
        default = 'identity'
    elif r < 0.25:
        default = ('failif', rng.choice(STRS))
    elif r < 0.33:
        default = ('raiseif', rng.choice(STRS), rng.choice(RAISE))
    else:
        default = 'none'
    methods = {}
    for n in names:
        if n.startswith('_'):
            continue
        r = rng.random()
        if r < 0.25:
            methods[n] = 'tag'
        elif r < 0.4:
            methods[n] = 'identity'
        elif r < 0.55:
            methods[n] = ('failif', rng.choice(STRS))
        elif r < 0.68:
            methods[n] = ('raiseif', rng.choice(STRS), rng.choice(RAISE))
        elif r < 0.72:
            methods[n] = ('const', rng.choice(['K', 7, None]))
        elif r < 0.8:
            methods[n] = 'data'
    return (default, methods)


def targeted_semspec(rng, g):
    """like gen_semspec, but the rejecting / raising predicates are aimed at strings the rule can actually return"""
    default, methods = gen_semspec(rng, g)
    for n, _, e in g['rules']:
        toks = [x[1] for x in E.walk(e) if E.kind(x) == 'tok']
        if n.startswith('_') or not toks or E.kind(e) not in ('tok', 'choice'):
            continue
        r = rng.random()
        if r < 0.45:
            methods[n] = ('failif', rng.choice(toks))
        elif r < 0.6:
            methods[n] = ('raiseif', rng.choice(toks), rng.choice(RAISE))
    return (default, methods)


def simple_rule_grammar(rng):
    """grammars where rule values are often plain strings so that failif/raiseif predicates fire"""
    g = G.gen_grammar(rng, G.GenCfg(names=0.05, overrides=0.02, max_rules=4, assoc=0.02), depth=rng.choice([2, 3]))
    rules = list(g['rules'])
    # add leaf rules returning single tokens and call them from the start rule
    leafs = []
    for i, s in enumerate(rng.sample(STRS[:5], 2)):
        nm = f'leaf{i}'
        # decorators in every combination and order: @nomemo stays @nomemo next to @name / @isname
        deco = rng.choice([[], [], [], ['nomemo'], ['nomemo'], ['name', 'nomemo'], ['nomemo', 'name'], ['isname', 'nomemo'], ['nomemo', 'isname'], ['name']])
        leafs.append((nm, deco, ('choice', [('tok', s), ('tok', rng.choice(STRS[:5]))])))
    n0, d0, e0 = rules[0]
    alt = ('seq', [('call', 'leaf0'), ('opt', ('call', 'leaf1')), ('rep', False, None, False, ('call', 'leaf0'))])
    rules[0] = (n0, d0, ('choice', [('seq', [('call', 'leaf0'), ('tok', '+'), ('call', 'leaf1')]), alt, e0]))
    g['rules'] = rules + leafs
    return g


def twin_grammar(rng):
    """rules whose names differ only by underscores (the action lookup tries name, name.strip('_'), _name, _name_), all of them
    reached in one parse, with actions that tell them apart"""
    base = rng.choice(['value', 'item', 'atom', 'Tok'])
    variants = rng.sample([base, '_' + base, base + '_', '_' + base + '_', '__' + base], rng.randint(2, 3))
    toks = rng.sample(['a', 'b', 'x', ',', '1'], len(variants))
    rules = [(v, ['nomemo'] if rng.random() < 0.2 else [], ('choice', [('tok', t), ('pat', r'\d+')]) if rng.random() < 0.5 else ('tok', t))
             for v, t in zip(variants, toks)]
    order = [rng.choice(variants) for _ in range(rng.randint(2, 5))]
    body = rng.choice([
        ('seq', [('call', v) for v in order]),
        ('rep', False, None, False, ('choice', [('call', v) for v in variants])),
        ('seq', [('choice', [('call', v) for v in variants]), ('rep', False, None, False, ('choice', [('call', v) for v in reversed(variants)]))]),
    ])
    g = {'rules': [('start', [], body)] + rules, 'directives': {}, 'keywords': []}
    lex = [rng.choice(toks + ['7']) for _ in range(rng.randint(1, 5))]
    texts = [' '.join(lex)] + [' '.join(rng.choice(toks) for _ in range(rng.randint(1, 5))) for _ in range(3)]
    # methods: for some variants only, so that the others fall back through the lookup order
    methods = {}
    for v in variants:
        r = rng.random()
        if r < 0.55:
            methods[v] = 'tag'
        elif r < 0.7:
            methods[v] = ('const', rng.choice(['K', 7]))
        elif r < 0.8:
            methods[v] = 'identity'
    if not methods:
        methods[variants[0]] = 'tag'
    spec = (rng.choice(['none', 'identity']), methods)
    return g, texts, spec


def atoms_grammar(rng):
    """rules whose values are atoms that compare equal across types (1 == True, 0 == False), passed through the same action"""
    pool = ['1', 'True', '0', 'False', 'None', "'1'", '42']
    consts = [rng.choice(pool) for _ in range(rng.randint(2, 4))]
    rules = [(f'c{i}', ['nomemo'] if rng.random() < 0.2 else [], ('seq', [('tok', t), ('over', False, ('const', c))]) if rng.random() < 0.6 else ('const', c))
             for i, (c, t) in enumerate(zip(consts, ['a', 'b', 'x', ',']))]
    n = len(rules)
    body = ('seq', [rng.choice([('call', f'c{i}'), ('named', rng.random() < 0.3, rng.choice(['n', 'm']), ('call', f'c{i}'))])
                    for i in [rng.randrange(n) for _ in range(rng.randint(2, 6))]])
    g = {'rules': [('start', [], body)] + rules, 'directives': {}, 'keywords': []}
    texts = [' '.join(G.sample_sentence(rng, g, body)) for _ in range(2)]
    methods = {}
    if rng.random() < 0.5:
        for i in range(n):
            if rng.random() < 0.5:
                methods[f'c{i}'] = rng.choice(['identity', 'tag'])
    spec = ('identity' if not methods or rng.random() < 0.7 else 'none', methods)
    return g, texts, spec


def shard(col, shard_i, ngrammars, ninputs):
    mr = ModelRun('Engine')
    rng = col.rng
    cases = []
    for gi in range(ngrammars * 2):
        fam, (g, texts, spec) = ('twins', twin_grammar(rng)) if gi % 2 == 0 else ('atoms', atoms_grammar(rng))
        col.count('family.' + fam)
        for t in texts:
            cases.append(R.Case(g, t, None, E.Settings(), spec))
            cases.append(R.Case(g, t, None, E.Settings(memoization=False), spec))
    # a @name rule with an action that changes the value: the reserved-word check is on the matched text, BEFORE the action runs
    from props.c11 import gen_kw_grammar, gen_texts
    for gi in range(max(2, ngrammars // 3)):
        g, kws, _shape = gen_kw_grammar(rng)
        col.count('family.keywords-with-actions')
        spec = ('none', {'ident': rng.choice(['tag', ('const', 'K'), 'wrap', 'identity'])})
        for t in gen_texts(rng, 6, kws):
            cases.append(R.Case(g, t, None, E.Settings(), spec, tag='kw'))
    # skip-to over a rule reference: the scan and the final parse must both run the rule's action
    for gi in range(max(2, ngrammars // 3)):
        tgt_tok = rng.choice(['a', 'b', 'x'])
        item = rng.choice([('tok', tgt_tok), ('choice', [('tok', tgt_tok), ('pat', r'\d+')]), ('seq', [('tok', tgt_tok), ('opt', ('tok', '!'))])])
        deco = ['nomemo'] if rng.random() < 0.3 else []
        g = {'rules': [('start', [], ('seq', [('opt', ('tok', '=')), ('skipto', ('call', 'item')), ('rep', False, None, False, ('call', 'item')), 'eof'])),
                       ('item', deco, item)], 'directives': {}, 'keywords': []}
        col.count('family.skipto-rule')
        meth = rng.choice([{'item': 'tag'}, {'item': ('failif', tgt_tok)}, {'item': ('const', 'K')}, {'item': 'identity'}, {}])
        spec = (rng.choice(['none', 'identity']) if meth else 'identity', meth)
        for t in [f'z z {tgt_tok}', f'= q {tgt_tok} {tgt_tok}', f'{tgt_tok}', f'9 {tgt_tok} 7', 'z z', f'zz{tgt_tok} {tgt_tok}!', f'= {tgt_tok}! {tgt_tok}']:
            cases.append(R.Case(g, t, None, E.Settings(), spec, tag='skipto'))
    # left-recursive rules whose action accepts the early growth rounds and rejects (or raises in) a later one: the shorter
    # match must be kept and handed to the caller
    for gi in range(max(2, ngrammars // 2)):
        g, kind = G.lrec_grammar(rng)
        col.count('family.lrec.' + kind)
        names = [n for n, _, _ in g['rules'] if n not in ('start', 'term', 'factor')]
        for t in G.lrec_inputs(rng, max(4, ninputs // 2), g=g):
            meth = {n: rng.choice([('failsize', rng.choice([3, 5, 7])), ('failsize', 5), 'identity', 'tag']) for n in names if rng.random() < 0.8}
            cases.append(R.Case(g, t, None, E.Settings(), ('none', meth), tag='lrec'))
    for gi in range(ngrammars):
        g = simple_rule_grammar(rng)
        texts = [t[:40] for t in G.gen_inputs(rng, g, ninputs)]
        for k in range(3):
            spec = gen_semspec(rng, g) if k < 2 else targeted_semspec(rng, g)
            col.count('sem.default.' + (spec[0] if isinstance(spec[0], str) else spec[0][0]))
            for t in texts:
                cases.append(R.Case(g, t, None, E.Settings(), spec))
        # identity == no semantics (implementation only)
        for t in texts:
            cases.append(R.Case(g, t, None, E.Settings(), ('none', {}), tag='none'))
            cases.append(R.Case(g, t, None, E.Settings(), ('identity', {}), tag='identity'))
    results = []
    for off in range(0, len(cases), 400):
        results += R.run_cases(mr, cases[off:off + 400])
    names_of = lambda c: [n for n, _, _ in c.g['rules']]
    prev = None
    for (c, io, mo, extra) in results:
        fp = [E.grammar_text(c.g), c.text, repr(c.semspec)]
        if mo is None:
            col.case(fp, nontrivial=False)
            continue
        col.case(fp, nontrivial=bool(c.text) and c.semspec != ('none', {}))
        col.count('impl:' + (io[0] if io[0] != 'exc' else 'exc.' + str(io[1])))
        if mo[0] == 'recursion' and io[0] != 'recursion':
            continue
        # the sequence of action calls: impl logs the method name ('_default' for the fallback)
        calls_ok = True
        if extra and extra['impl_calls'] is not None and extra['model_bodies'] is not None:
            res = E.resolve_actions(c.semspec, names_of(c))
            mcalls = [res[n] for n in extra['model_bodies']]
            calls_ok = list(extra['impl_calls']) == mcalls
            col.count('calls.compared')
        if io != mo or not calls_ok:
            def bad(cc):
                rr = R.run_cases(mr, [cc])[0]
                if rr[2] is None or rr[2][0] == 'recursion':
                    return False
                return rr[1] != rr[2]
            small = R.shrink_case(c, bad, budget=150) if io != mo else c
            rr = R.run_cases(mr, [small])[0]
            what = 'result' if io != mo else 'action-call-sequence'
            col.violation(f'E1sem:{what}:{R.kinds_signature(small)}:impl={rr[1][0]}{"." + str(rr[1][1]) if rr[1][0] == "exc" else ""}:model={rr[2][0] if rr[2] else None}',
                          f'implementation and model disagree ({what}) with semantics {small.semspec}',
                          {'correspondence': 'E1 x semantics', 'case': small.describe(), 'impl': rr[1], 'model': rr[2], 'extra': rr[3]})
        # generated parser with the same semantics (implementation vs implementation)
        if c.tag in ('none', 'identity') or col.rng.random() < 0.15 or io[0] == 'exc':
            E.LAST_EXCEPTION = None
            go, gcalls = R.gen_outcome(c)
            col.count('genparser.compared')
            # "reaches the caller unchanged": the exception object an action raised, not another one of the same class
            if isinstance(go, tuple) and go and go[0] == 'exc' and io[0] == 'exc' and go[1] == io[1] and E.LAST_EXCEPTION is not None \
                    and go[1] not in ('StopIteration',) and 'boom' not in str(E.LAST_EXCEPTION):
                col.violation(f'oracle:genparser-exception-replaced:{go[1]}',
                              'the generated parser hands the caller another exception than the one the action raised',
                              {'oracle': 'exception reaches the caller unchanged', 'case': c.describe(), 'message': str(E.LAST_EXCEPTION)[:200]})
            if isinstance(go, tuple) and go and go[0] in ('ok', 'fail', 'exc') and io[0] in ('fail', 'exc') and go != io and (go[0], io[0]) != ('ok', 'ok'):
                if not (go[0] == 'ok'):   # differing ASTs on success are C02's subject (last_node family)
                    col.violation(f'oracle:genparser-semantics:{io[0]}{"." + str(io[1]) if io[0] == "exc" else ""}-vs-{go[0]}{"." + str(go[1]) if go[0] == "exc" else ""}',
                                  'the generated parser treats a semantic failure / exception differently from the model',
                                  {'oracle': 'generated parser with the same semantics', 'case': c.describe(), 'model.parse': io, 'generated': go})
        # identity == none
        if c.tag == 'none':
            prev = (c, io)
        elif c.tag == 'identity' and prev is not None and prev[0].text == c.text and prev[0].g is c.g:
            col.count('identity-vs-none.compared')
            if prev[1] != io:
                col.violation('oracle:identity-differs-from-no-semantics',
                              'actions that return their argument change the result',
                              {'oracle': 'identity semantics == no semantics', 'case': c.describe(), 'none': prev[1], 'identity': io})
    if cases:
        col.sample(cases[len(cases) // 2].describe())


def shard_history(col, shard_i, n):
    """one generated parser OBJECT over several parse() calls with DIFFERENT semantics objects (A, then B, then none, ...): each call
    must run the actions of the object it was given (compared with a fresh parser and with model.parse)"""
    import tatsu
    rng = col.rng

    def outcome(run):
        try:
            return ('ok', E.canon(run()))
        except tatsu.exceptions.FailedParse:
            return ('fail', None)
        except Exception as e:  # noqa
            return ('exc', type(e).__name__)
    for _ in range(n):
        g = simple_rule_grammar(rng)
        cls = R.generated_parser(g)
        m = R.compile_grammar(g)
        if isinstance(cls, tuple) or isinstance(m, tuple):
            continue
        names = [nm for nm, _, _ in g['rules']]
        texts = [t[:30] for t in G.gen_inputs(rng, g, 6)]
        reused = cls()
        hist = []
        for step in range(rng.randint(3, 6)):
            t = rng.choice(texts)
            spec = rng.choice([('none', {}), ('identity', {}), ('none', {nm: 'tag' for nm in names if rng.random() < 0.6}),
                               ('none', {nm: ('const', step) for nm in names if rng.random() < 0.4})])
            hist.append((t, repr(spec)))
            a = outcome(lambda: reused.parse(t, semantics=E.make_semantics(spec, names)))
            b = outcome(lambda: cls().parse(t, semantics=E.make_semantics(spec, names)))
            c = outcome(lambda: m.parse(t, semantics=E.make_semantics(spec, names)))
            col.case(['sem-history', E.grammar_text(g), repr(hist)], nontrivial=step > 0)
            col.count('history.calls')
            if a != b or a[0] != c[0]:
                col.violation(f'oracle:semantics-history:reused={a[0]}:fresh={b[0]}:model={c[0]}',
                              'a reused generated parser runs the actions of an earlier semantics object (or differs from the model)',
                              {'oracle': 'actions of the semantics object given to THIS call', 'grammar': E.grammar_text(g), 'history': hist,
                               'reused': a, 'fresh': b, 'model.parse': c})
                break


def shard_params(col, shard_i):
    """the rule's declared parameters reach the action exactly as declared: every value type incl. falsy ones, positional and keyword,
    for actions written with *params and with named parameters, through model.parse and through the generated parser"""
    import tatsu
    values = ['A', 0, 7, 0.0, 2.5, True, False, '', 'x y', None]

    def lit(v):
        return repr(v) if not isinstance(v, str) or not v.isidentifier() else v

    class Star:
        def start(self, ast, *params, **kw):
            return ('$tag', 'start', [ast, list(params), sorted((k, v) for k, v in kw.items() if k != 'parseinfo')])

    class Named1:
        def start(self, ast, p1=None, **kw):
            return ('$tag', 'start', [ast, [p1], sorted((k, v) for k, v in kw.items() if k != 'parseinfo')])

    class Named2:
        def start(self, ast, p1=None, p2=None, **kw):
            return ('$tag', 'start', [ast, [p1, p2], sorted((k, v) for k, v in kw.items() if k != 'parseinfo')])

    def typed(x):
        return [type(x).__name__, x] if not isinstance(x, (list, tuple, dict)) else [typed(y) for y in x]
    cases = [([v], {}) for v in values] + [([a, b], {}) for a in values[:6] for b in values[1:7]] + [([], {'k': v}) for v in values[:8]] + \
            [([a], {'k': b}) for a in values[:4] for b in values[1:6]]
    for params, kwp in cases:
        if any(p is None for p in params) or (params and params[0] == ''):
            continue       # not expressible in the grammar syntax
        header = ', '.join([lit(p) for p in params] + [f'{k}={lit(v)}' for k, v in kwp.items()])
        g = f"start({header}) = 'x' ;"
        try:
            m = tatsu.compile(g)
            ns: dict = {}
            exec(tatsu.to_python_sourcecode(g, name='P'), ns)
            gp = ns['PParser']
        except Exception as e:  # noqa
            col.count('params.not-compilable:' + type(e).__name__)
            continue
        want_params = list(m.rules[0].params)
        want_kw = sorted(m.rules[0].kwparams.items())
        # the action may be any callable: a bound method, a functools.partial, an object with __call__, a lambda stored on the instance
        import functools

        def _impl(ast, *params_, **kw_):
            return ('$tag', 'start', [ast, list(params_), sorted((k_, v_) for k_, v_ in kw_.items() if k_ != 'parseinfo')])

        class Partial:
            def __init__(self):
                self.start = functools.partial(_impl)

        class CallableObject:
            class _Act:
                def __call__(self, ast, *params_, **kw_):
                    return _impl(ast, *params_, **kw_)

            def __init__(self):
                self.start = self._Act()

        class Lambda:
            def __init__(self):
                self.start = lambda ast, *a_, **k_: _impl(ast, *a_, **k_)

        for sem in (Star, Named1 if len(params) <= 1 else Named2, Partial, CallableObject, Lambda):
            for back, run in (('model', lambda: m.parse('x', semantics=sem())), ('generated', lambda: gp().parse('x', semantics=sem()))):
                col.case(['params', g, sem.__name__, back], nontrivial=True)
                col.count('params.compared')
                try:
                    r = run()
                    got = (list(r[2][1][:len(want_params)]), r[2][2], r[2][0])
                except Exception as e:  # noqa
                    got = ('raises', type(e).__name__, str(e)[:80])
                want = (want_params, want_kw, 'x')
                if typed(got) != typed(want):
                    col.violation(f'oracle:declared-params:{sem.__name__}:{back}:' + '+'.join(type(p).__name__ + ('-falsy' if not p else '') for p in params + list(kwp.values())),
                                  f'the action of {g!r} did not receive the declared parameters: got {got!r}, declared {want!r}',
                                  {'oracle': 'declared parameters reach the action', 'grammar': g, 'signature_style': sem.__name__, 'backend': back,
                                   'got': repr(got), 'declared': repr(want)})


def main():
    chk = Check(PID)
    chk.rule = ('random grammars extended with leaf rules (some @nomemo) whose values are plain strings x inputs x semantics objects drawn from '
                '{no method, identity, tagging with the name of the method found, FailedSemantics on a predicate of the ast, raising one of 8 exception classes on a '
                'predicate, constant, _default only / with methods}; families: rules whose names differ only by underscores, all reached in one parse '
                '(action lookup order), and rules yielding atoms equal across types (1/True, 0/False) through one action; compared: result and the sequence of action calls (implementation vs model), '
                'identity vs no semantics, generated parser failure/exception class. Non-trivial: non-empty input with a semantics object.')
    chk.trusted += ['oracles per case from the real Python (re, unicode predicates, resolved ParserConfig, lrec flags); the semantics classes of '
                    'enginelib.make_semantics mirror Engine/Semantics.v (deterministic functions of (rule, ast))']
    chk.coq()
    ok, out = vlib.build_modelrun('Engine')
    chk.obligation('modelrun_Engine builds', 'build', ok, out[-500:])
    if ok:
        if chk.quick:
            vlib.run_sharded(chk, shard, 14, extra=(16, 8))
            vlib.run_sharded(chk, shard_history, 14, extra=(6,))
            vlib.run_sharded(chk, shard_params, 1, procs=1)
        else:
            vlib.run_sharded(chk, shard, 28, extra=(40, 10))
            vlib.run_sharded(chk, shard_history, 28, extra=(40,))
            vlib.run_sharded(chk, shard_params, 1, procs=1)
        chk.obligation('E1 x semantics: results and action-call sequences, implementation vs model', 'correspondence',
                       not any(v['signature'].startswith('E1sem') for v in chk.violations))
        chk.obligation('identity == no semantics; generated parser agrees on failures/exceptions (implementation only)', 'oracle',
                       not any(v['signature'].startswith('oracle:') for v in chk.violations))
    return chk.finish()


if __name__ == '__main__':
    sys.exit(main())
