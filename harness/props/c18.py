"""C18 - parallel processing yields exactly one result per payload.

Obligations: the Coq theorems of Properties/C18.v; T: source shape of taskproc / executor_pmap;
T1: the capture table of the real taskproc vs the model over a lattice of exception classes;
X1: the real parproc()/executor_pmap driven by a deterministic executor whose futures complete in the
order a schedule dictates (all schedules for small task lists), yield order, ending and the trace of
submissions / snapshots compared with the extracted model; X2: real process / thread pools (multiset);
oracle: one result per payload, same multiset as the sequential mode.
"""
from __future__ import annotations

import ast
import asyncio
import concurrent.futures as cf
import contextlib
import errno
import gc
import io
import itertools
import math
import multiprocessing
import os
import pickle
import shutil
import signal
import sys
import tempfile
import threading
import time
from collections import Counter, deque
from collections.abc import Mapping, Sequence
from concurrent.futures import Executor, Future, ProcessPoolExecutor
from dataclasses import dataclass
from pathlib import Path
from typing import Any

sys.path.insert(0, str(Path(__file__).resolve().parent.parent))
import vlib
from vlib import Atom, Check, ModelRun, sx

PID = 'C18'
REAL_AS_COMPLETED = cf.as_completed
REAL_PROCESS_POOL = cf.ProcessPoolExecutor
REAL_THREAD_POOL = cf.ThreadPoolExecutor


# ------------------------------------------------------------------ exception classes and their ids
class C18Error(Exception):
    pass


class C18Lookup(KeyError):
    pass


class C18Type(TypeError):
    pass


class C18KI(KeyboardInterrupt):
    pass


class C18Base(BaseException):
    pass


class C18Mixed(ValueError, RuntimeError):
    pass


class C18Rec(RecursionError):
    pass


class C18TypeRuntime(TypeError, RuntimeError):
    pass


class C18TwoArg(Exception):
    """pickles, does not unpickle (the classic two-argument __init__)"""

    def __init__(self, a, b):
        super().__init__(f'{a}-{b}')


CLASSES: dict[str, type[BaseException]] = {c.__name__: c for c in [
    ValueError, KeyError, LookupError, TypeError, RuntimeError, RecursionError, NotImplementedError,
    KeyboardInterrupt, SystemExit, GeneratorExit, StopIteration, InterruptedError, OSError, ArithmeticError,
    ZeroDivisionError, AssertionError, AttributeError, Exception, BaseException,
    C18Error, C18Lookup, C18Type, C18KI, C18Base, C18Mixed, C18Rec, C18TypeRuntime,
]}
# the wider lattice: every errno-mapped OSError subclass, the exception classes that the machinery under the loop
# itself uses (futures, pickle, generators, the stop placeholder), warnings, groups
WIDE: list[tuple[str, type[BaseException]]] = [(c.__name__, c) for c in [
    FileNotFoundError, FileExistsError, PermissionError, TimeoutError, BrokenPipeError, ConnectionError,
    ConnectionResetError, ConnectionAbortedError, ConnectionRefusedError, IsADirectoryError, NotADirectoryError,
    BlockingIOError, ChildProcessError, ProcessLookupError,
    EOFError, MemoryError, UnicodeError, UnicodeDecodeError, IndexError, OverflowError, FloatingPointError, BufferError,
    ImportError, ModuleNotFoundError, NameError, UnboundLocalError, SyntaxError, StopAsyncIteration, ReferenceError,
    SystemError, Warning, UserWarning, DeprecationWarning, ExceptionGroup, BaseExceptionGroup,
    pickle.PickleError, pickle.PicklingError, pickle.UnpicklingError,
    cf.InvalidStateError, cf.BrokenExecutor, threading.BrokenBarrierError,
]] + [('FutCancelled', cf.CancelledError), ('AsyncCancelled', asyncio.CancelledError)]
for _n, _c in WIDE:
    assert _n not in CLASSES, _n
    CLASSES[_n] = _c

ERRNOS = ['EINTR', 'ENOENT', 'EACCES', 'ETIMEDOUT', 'EPIPE', 'EIO', 'ENOSPC', 'EAGAIN', 'ECHILD', 'EEXIST', 'EISDIR',
          'ECONNRESET', 'ESRCH', 'EPERM', 'EBADF']

# outcomes that are not small integers (`obj:<k>`; the model sees ret:(OBJ_BASE+k))
OBJ_BASE = 100000
OBJS: list[Any] = [None, '', (), [], {}, 0.0, False, True, 'text', [1, 2], {'a': 1}, frozenset(), b'', (None,), [[]]]

# recursion depth above which a `deep:<d>:...` behaviour cannot succeed under taskproc's limit of 2**16
DEEP_FAIL = 2 ** 16
DEEP_OK_MAX = 40000


def make_exc(name: str) -> BaseException:
    c = C18TwoArg if name == 'C18TwoArg' else CLASSES[name]
    if c is InterruptedError:
        return InterruptedError('stopped')           # looks exactly like taskproc's placeholder for a set stop event
    if c is BaseExceptionGroup:
        return c('c18', [C18Base('inner')])         # (with only Exceptions inside it would become an ExceptionGroup)
    if issubclass(c, BaseExceptionGroup):
        return c('c18', [ValueError('inner')])
    if issubclass(c, UnicodeDecodeError):
        return c('utf-8', b'\xff', 0, 1, 'c18')
    if c is C18TwoArg:
        return C18TwoArg(1, 2)
    return c('c18')


# ids fixed by Lib/ParProc.v
FIXED_IDS = {BaseException: 0, KeyboardInterrupt: 1, RuntimeError: 2, Exception: 3, RecursionError: 4,
             TypeError: 5, InterruptedError: 6, OSError: 7, object: 8}
_ids: dict[type, int] = dict(FIXED_IDS)


def cid(c: type) -> int:
    if c not in _ids:
        _ids[c] = 100 + len(_ids)
    return _ids[c]


for _c in [*CLASSES.values(), C18TwoArg]:          # deterministic numbering
    for _k in _c.__mro__:
        cid(_k)


def mro_ids(c: type) -> list[int]:
    return [cid(k) for k in c.__mro__]


# ------------------------------------------------------------------ payloads and the user function
# everything a payload does is encoded in its two dataclass fields so that it survives pickling:
#   payload = {'pid': int, 'first': spec, 'raises': [class names], 'sleep': seconds}
#   path    = Path('c18/<pid>/<second spec>')
# spec = 'ret:<int>' | 'exc:<class name>'
def _raises_of(p) -> tuple:
    return tuple(CLASSES[n] for n in p.payload['raises'])


@dataclass
class PlainPayload:
    path: Path
    payload: Any

    def raises(self):
        return _raises_of(self)


def _make_visual():
    from tatsu.parproc.payload import VisualPayload

    class VisPayload(VisualPayload):
        __slots__ = ()

        def raises(self):
            return _raises_of(self)

    VisPayload.__qualname__ = 'VisPayload'
    return VisPayload


VisPayload = None        # set in main() once tatsu is importable


def _dive(d: int, spec: str):
    if d <= 0:
        return behave(spec)
    return _dive(d - 1, spec)


def behave(spec: str):
    """spec = ret:<int> | obj:<k> | exc:<class name> | os:<ERRNO> | deep:<frames>:<spec>"""
    kind, _, val = spec.partition(':')
    if kind == 'deep':
        d, _, rest = val.partition(':')
        return _dive(int(d), rest)                # a recursive function on deeply nested input
    if kind == 'ret':
        return int(val)
    if kind == 'obj':
        return OBJS[int(val)]
    if kind == 'os':                              # the way I/O code fails: Python maps the errno to the subclass
        code = getattr(errno, val)
        raise OSError(code, 'c18 ' + val, 'c18.txt')
    raise make_exc(val)


def spec_effect(spec: str):
    """what a behaviour amounts to under taskproc's recursion limit: ('ret', code) | ('exc', class)"""
    kind, _, val = spec.partition(':')
    if kind == 'deep':
        d, _, rest = val.partition(':')
        if int(d) >= DEEP_FAIL:
            return ('exc', RecursionError)
        assert int(d) <= DEEP_OK_MAX, spec
        return spec_effect(rest)
    if kind == 'ret':
        return ('ret', int(val))
    if kind == 'obj':
        return ('ret', OBJ_BASE + int(val))
    if kind == 'os':
        return ('exc', type(OSError(getattr(errno, val), 'x')))
    return ('exc', C18TwoArg if val == 'C18TwoArg' else CLASSES[val])


def is_stop(spec: str) -> bool:
    """StopIteration family: a PROPAGATING one is rewritten by the generator machinery (outside the property), so the
    pool runs use it only where the loop is asked to capture it"""
    kind, val = spec_effect(spec)
    return kind == 'exc' and issubclass(val, (StopIteration, StopAsyncIteration))


def obj_code(o):
    for k, v in enumerate(OBJS):
        if type(v) is type(o) and v == o:
            return OBJ_BASE + k
    return ('unknown-outcome', repr(o))


LIMIT0 = sys.getrecursionlimit()      # every run starts from the interpreter's limit (concurrent taskprocs of the real
                                      # thread pool can leave the process-wide limit raised; forked workers inherit it)
NO_GC_IN_WORKERS = False     # set (before the pool forks) for the repetition of a run that died of D18b


def c18_func(arg, *args, **kwargs):
    if args != ('A',) or kwargs != {'k': 1}:
        raise AssertionError('args/kwargs not forwarded')
    if NO_GC_IN_WORKERS and multiprocessing.current_process().name != 'MainProcess':
        gc.disable()
    if isinstance(arg, Path):                     # taskproc's retry: func(payload.path, ...)
        return behave(arg.name.replace('=', ':'))
    if arg.payload.get('sleep'):
        time.sleep(arg.payload['sleep'])
    return behave(arg.payload['first'])


def pick_tag(o):
    return ('P', o)


def mk_payload(pid: int, first: str, second: str = 'ret:0', visual: bool = False, raises=(), sleep=0.0):
    path = Path('c18') / str(pid) / second.replace(':', '=')
    data = {'pid': pid, 'first': first, 'raises': list(raises), 'sleep': sleep}
    return (VisPayload if visual else PlainPayload)(path, data)


def spec_sx(spec: str):
    kind, val = spec_effect(spec)
    if kind == 'ret':
        return [Atom('ret'), val]
    return [Atom('exc'), mro_ids(val)]


def task_sx(p, reraise: bool):
    second = p.path.name.replace('=', ':')
    return [p.payload['pid'], isinstance(p, VisPayload), spec_sx(p.payload['first']), spec_sx(second),
            bool(reraise), [cid(CLASSES[n]) for n in p.payload['raises']]]


def canon_result(r, tagged=False):
    """(payload id, outcome, exception mro) - observable content of a Result"""
    from tatsu.parproc.result import Result
    if not isinstance(r, Result):
        return ('not-a-result', repr(type(r)))
    o = r.outcome
    if tagged:
        if not (isinstance(o, tuple) and len(o) == 2 and o[0] == 'P'):
            return ('outcome-not-pickable', repr(o))
        o = o[1]
    if type(o) is not int and not (o is None and r.exception is not None):
        o = obj_code(o)
    pid = r.payload.payload['pid'] if hasattr(r.payload, 'payload') else repr(r.payload)
    return (pid, o, None if r.exception is None else tuple(mro_ids(type(r.exception))))


def model_result(x):
    """reply (pid outcome exception) -> canonical tuple"""
    pid, o, e = x
    return (int(pid), None if o == 'none' else int(o[1]), None if e == 'none' else tuple(int(c) for c in e[1]))


def model_ending(x):
    if isinstance(x, str):
        return (x,)
    return (x[0], tuple(int(c) for c in x[1]))


def model_event(x):
    k = x[0]
    if k == 'submit0':
        return ('submit0', int(x[1]))
    if k == 'snap':
        return ('snap', tuple(int(i) for i in x[1]))
    if k == 'submit':
        return ('submit', int(x[1]), tuple(int(i) for i in x[2]))
    return ('yield', model_result(x[1]))


# ------------------------------------------------------------------ how the payloads reach the loop
# parproc is declared as taking `payloads: Iterable[Any]`: the same payloads are handed over in every kind of iterable
# (re-iterable containers, views, objects with only __iter__, one-shot iterators of every common origin), through every
# public entry point of the package.  The model always sees the plain list.
class ReIterable:
    """only __iter__ (no __len__, no __getitem__, always truthy): every iter() starts over"""

    def __init__(self, items):
        self._items = list(items)

    def __iter__(self):
        return iter(list(self._items))


class SizedIterable(ReIterable):
    def __len__(self):
        return len(self._items)


class LazySequence(Sequence):
    """a Sequence that is not a list (what an array / a lazily loaded corpus looks like)"""

    def __init__(self, items):
        self._items = list(items)

    def __len__(self):
        return len(self._items)

    def __getitem__(self, i):
        return self._items[i]


class OneShot:
    """an iterator object: iter() returns the object itself, a second pass finds nothing"""

    def __init__(self, items):
        self._it = iter(list(items))

    def __iter__(self):
        return self

    def __next__(self):
        return next(self._it)


def _gen_function(items):
    yield from items


def _true(_):
    return True


def identity_(x):
    return x


CONTAINERS: dict[str, tuple[str, Any]] = {
    'list': ('re-iterable', list),
    'tuple': ('re-iterable', tuple),
    'deque': ('re-iterable', deque),
    'dict-values': ('re-iterable', lambda ps: dict(enumerate(ps)).values()),
    'iterable-object': ('re-iterable', ReIterable),
    'sized-iterable-object': ('re-iterable', SizedIterable),
    'sequence-object': ('re-iterable', LazySequence),
    'generator-expression': ('one-shot', lambda ps: (p for p in ps)),
    'generator-function': ('one-shot', _gen_function),
    'list-iterator': ('one-shot', lambda ps: iter(list(ps))),
    'map': ('one-shot', lambda ps: map(identity_, ps)),
    'filter': ('one-shot', lambda ps: filter(_true, ps)),
    'chain': ('one-shot', lambda ps: itertools.chain(ps[:1], ps[1:])),
    'reversed': ('one-shot', lambda ps: reversed(list(ps)[::-1])),
    'iterator-object': ('one-shot', OneShot),
}


class QuietProgress:
    def update(self, *a, **kw):
        pass

    def stop(self):
        pass


def _quiet(*a, **kw):
    pass


ENTRIES = ('parproc', 'parallel_proc', 'parproc_visual')
# every (container, entry point) pair; rotated through by all run families
VIAS = [(c, e) for c in CONTAINERS for e in ENTRIES]
PLAIN_VIA = ('list', 'parproc')


def call_entry(entry, payloads_in, parallel, reraise, mw, kw):
    """the generator of Results for one run through the named public entry point"""
    import tatsu.parproc as tp
    if entry == 'parproc':
        return tp.parproc(c18_func, payloads_in, 'A', parallel=parallel, reraise=reraise, max_workers=mw, k=1, **kw)
    if entry == 'parallel_proc':       # the older argument order; max_workers travels in **kwargs
        return tp.parallel_proc(payloads_in, c18_func, 'A', parallel=parallel, reraise=reraise, max_workers=mw, k=1, **kw)
    if entry == 'parproc_visual':      # the loop the command line and tatsu.util.testing use, with the display switched off
        return tp.parproc_visual(c18_func, payloads_in, QuietProgress(), 'A', eprint=_quiet, summary=False, verbose=False,
                                 usecolor=False, parallel=parallel, reraise=reraise, max_workers=mw, k=1, **kw)
    raise AssertionError(entry)


def via_suffix(via, ok_with):
    """signature material: which of (container kind, entry point) the disagreement depends on; ok_with(via) re-runs"""
    cont, entry = via
    if via == PLAIN_VIA:
        return ''
    if not ok_with(PLAIN_VIA):
        return ''                                    # also with a plain list through parproc(): nothing to do with `via`
    parts = []
    if cont != 'list' and ok_with(('list', entry)):
        parts.append('payloads=' + CONTAINERS[cont][0] + ('' if CONTAINERS[cont][0] == 'one-shot' else ':' + cont))
    if entry != 'parproc' and ok_with((cont, 'parproc')):
        parts.append('entry=' + entry)
    if not parts:
        parts = ['payloads=' + CONTAINERS[cont][0], 'entry=' + entry]
    return ':' + ':'.join(parts)



# ------------------------------------------------------------------ source shape
def source_shape(chk: Check):
    def fn(tree, name):
        for n in ast.walk(tree):
            if isinstance(n, ast.FunctionDef) and n.name == name:
                return n
        return None

    def names(t):
        if t is None:
            return None
        if isinstance(t, ast.Tuple):
            return tuple(names(e) for e in t.elts)
        return ast.unparse(t)

    ttree = ast.parse((vlib.REPO / 'tatsu/parproc/task.py').read_text())
    tp = fn(ttree, 'taskproc')
    outer = [n for n in tp.body if isinstance(n, ast.Try)] if tp else []
    clauses = [names(h.type) for h in outer[0].handlers] if outer else None
    inner = [n for n in (outer[0].body if outer else []) if isinstance(n, ast.Try)]
    inner_clauses = [names(h.type) for h in inner[0].handlers] if inner else None
    want = ['KeyboardInterrupt', 'RuntimeError', ('Exception', 'RecursionError')]
    chk.obligation('T:task.py taskproc except clauses', 'translator',
                   clauses == want and inner_clauses == ['TypeError'] and bool(outer and outer[0].finalbody),
                   f'outer {clauses} inner {inner_clauses}')
    ptree = ast.parse((vlib.REPO / 'tatsu/parproc/pmap.py').read_text())
    ep = fn(ptree, 'executor_pmap')
    src = ast.unparse(ep) if ep else ''
    ok_w = 'n = 1 + (max_workers or 8)' in src and 'islice(taskiter, n)' in src and 'islice(taskiter, 1)' in src
    chk.obligation('T:pmap.py window constants', 'translator', ok_w, src[:300])
    ok_c = all('max_workers=max_workers or multiprocessing.cpu_count()' in ast.unparse(fn(ptree, f) or ast.Pass())
               for f in ('process_pmap', 'thread_pmap'))
    chk.obligation('T:pmap.py max_workers or cpu_count()', 'translator', ok_c)
    pp = fn(ast.parse((vlib.REPO / 'tatsu/parproc/parproc.py').read_text()), 'parproc')
    psrc = ast.unparse(pp) if pp else ''
    chk.obligation('T:parproc.py shortcuts', 'translator',
                   'if len(tasks) == 1' in psrc and 'map(taskproc, tasks)' in psrc and 'pmap(stop, taskproc, tasks, max_workers)' in psrc)


# ------------------------------------------------------------------ T1 capture table
def run_table(chk: Check, mr: ModelRun):
    from tatsu.parproc.task import Task, taskproc
    from tatsu.util import identity
    core = ['ValueError', 'KeyError', 'TypeError', 'C18Type', 'RuntimeError', 'RecursionError', 'C18Rec',
            'NotImplementedError', 'KeyboardInterrupt', 'C18KI', 'SystemExit', 'GeneratorExit', 'C18Base',
            'StopIteration', 'InterruptedError', 'C18Error', 'C18Lookup', 'C18Mixed', 'C18TypeRuntime',
            'ZeroDivisionError', 'AssertionError']
    wide = [n for n in CLASSES if n not in core]
    # deep:<d>: the function recurses d frames first (far beyond the interpreter's default limit, within / beyond
    # the 2**16 that taskproc grants); os:<ERRNO>: OSError built from an errno; obj:<k>: outcomes that are not ints
    deep = ['deep:3000:ret:7', 'deep:20000:ret:8', 'deep:3000:exc:ValueError', 'deep:1500:exc:C18Type',
            'deep:3000:exc:RuntimeError', 'deep:2000:os:EINTR', f'deep:{DEEP_FAIL + 4000}:ret:7']
    firsts = (['ret:7'] + ['exc:' + e for e in core] + ['exc:' + e for e in wide] + ['os:' + e for e in ERRNOS]
              + [f'obj:{k}' for k in range(len(OBJS))] + deep)
    full = set(['ret:7'] + ['exc:' + e for e in core] + deep[:4])
    seconds = ['ret:9', 'exc:ValueError', 'exc:TypeError', 'exc:RuntimeError', 'exc:KeyboardInterrupt', 'exc:C18Base',
               'deep:3000:ret:9', 'deep:20000:obj:0', 'deep:2500:exc:ValueError', 'deep:2500:os:ENOENT',
               f'deep:{DEEP_FAIL + 4000}:ret:9', 'exc:InterruptedError', 'os:EINTR', 'obj:1', 'exc:StopIteration']
    raises_sets = [(), ('ValueError',), ('LookupError',), ('Exception',), ('TypeError', 'KeyError'),
                   ('RuntimeError',), ('BaseException',), ('C18Error', 'ArithmeticError'), ('KeyboardInterrupt',),
                   ('OSError',), ('InterruptedError', 'ValueError')]
    few_sets = [(), ('ValueError',), ('Exception',), ('OSError',), ('InterruptedError', 'ValueError')]
    reqs, reals, descr = [], [], []
    pid = 0
    for first in firsts:
        for visual in (False, True):
            eff = spec_effect(first)
            secs = seconds if (visual and eff[0] == 'exc' and issubclass(eff[1], TypeError)) else ['ret:9']
            for second in secs:
                heavy = int(first.split(':')[1]) >= DEEP_FAIL if first.startswith('deep:') else \
                    (second.startswith('deep:') and int(second.split(':')[1]) >= DEEP_FAIL)
                for reraise in (False, True):
                    for raises in (few_sets[:2] if heavy else raises_sets if first in full else few_sets):
                        for stop_set in ((False, True) if (first in ('ret:7', 'exc:ValueError') and not raises) else (False,)):
                            pid += 1
                            p = mk_payload(pid, first, second, visual, raises)
                            stop = threading.Event()
                            if stop_set:
                                stop.set()
                            tagged = (pid % 2 == 0) and not stop_set    # the early `stopped` Result bypasses pickable
                            t = Task(stop=stop, func=c18_func, payload=p, pickable=pick_tag if tagged else identity,
                                     reraise=reraise, args=('A',), kwargs={'k': 1})
                            sys.setrecursionlimit(LIMIT0)
                            try:
                                real = ('res', canon_result(taskproc(t), tagged))
                            except Hang:
                                raise
                            except BaseException as e:   # noqa: BLE001 - KeyboardInterrupt etc. are the point
                                real = ('fail', tuple(mro_ids(type(e))))
                            stop_after = stop.is_set()
                            reals.append((real, stop_set, stop_after))
                            descr.append((first, second, visual, reraise, raises, stop_set))
                            reqs.append(f'(taskproc {sx(stop_set)} {sx(task_sx(p, reraise))})')
    bad = 0
    for (real, stop_set, stop_after), rep, d in zip(reals, mr.ask(reqs), descr):
        model = ('res', model_result(rep[1])) if rep[0] == 'res' else ('fail', tuple(int(c) for c in rep[1]))
        chk.case('table:' + repr(d), nontrivial=d[0] != 'ret:7')
        if d[0].startswith('deep:') or d[1].startswith('deep:'):
            chk.count('table.deep_recursion' + ('.legacy_call' if d[1].startswith('deep:') else ''))
        chk.count('table.' + ('captured' if real[0] == 'res' and real[1][-1] else 'returned' if real[0] == 'res' else 'propagates'))
        want_stop = stop_set or (model[0] == 'fail' and 1 in model[1])
        if real != model or stop_after != want_stop:
            bad += 1
            first, second, visual, reraise, raises, stop_set = d
            cat = 'ret'
            eff = spec_effect(first)
            if eff[0] == 'exc':
                cat = next(b.__name__ for b in (KeyboardInterrupt, RuntimeError, TypeError, Exception, BaseException)
                           if issubclass(eff[1], b))
            if first.startswith('deep:'):
                cat += '@deep'
            if second.startswith('deep:'):
                cat += '>deep'
            sig = (f'table:{cat}:{"visual" if visual else "plain"}:reraise={int(reraise)}:'
                   f'raises={"set" if raises else "none"}:stop={int(stop_set)}:{real[0]}-vs-{model[0]}')
            chk.violation(sig, f'taskproc differs from the capture table on {d}',
                          {'correspondence': 'T1 capture table', 'case': d, 'impl': real, 'model': model,
                           'stop_after': stop_after, 'stop_expected': want_stop})
    chk.obligation('T1:taskproc vs model capture table (exception lattice x reraise x raises() x visual retry x stop)',
                   'correspondence', bad == 0, f'{bad} of {len(reqs)} differ')
    chk.sample({'capture_table_case': descr[40], 'impl': reals[40][0]})


# ------------------------------------------------------------------ X1 the deterministic executor
class RigAbort(BaseException):
    pass


class Hang(BaseException):
    pass


class Rig:
    def __init__(self, sched, n, real_iter):
        self.sched = sched
        self.k = 0
        self.counts = []
        self.events = []
        self.futs = None          # the `futures` dict of executor_pmap, once as_completed has seen it
        self.execs = []
        self.shutdowns = []
        self.stop = None
        self.steps = 0
        self.budget = 4 * n + 12
        self.real_iter = real_iter
        self.notes = []

    def choose(self, m):
        v = self.sched[self.k] if self.k < len(self.sched) else 0
        self.k += 1
        self.counts.append(m)
        return v % m

    def tick(self):
        self.steps += 1
        if self.steps > self.budget:
            raise RigAbort('step budget exceeded (the loop does not terminate)')


RIG: Rig | None = None


def _pid_of_task(task):
    try:
        pl = task.payload.payload
        if isinstance(pl, dict):
            return pl['pid']
        return file_specs(task.payload.path)[0]      # the file-list family: the id is in the file's name
    except Exception:   # noqa: BLE001
        return -1


class _DetMixin:
    def _init(self, max_workers):
        self.max_workers = max_workers
        RIG.execs.append((type(self).__name__, max_workers))

    def submit(self, fn, /, *args, **kwargs):
        RIG.tick()
        f = Future()
        f._c18 = (fn, args, kwargs)
        task = args[0] if args else None
        if RIG.futs is None:
            RIG.events.append(('submit0', _pid_of_task(task)))
        else:
            RIG.events.append(('submit', _pid_of_task(task), tuple(_pid_of_task(t) for t in RIG.futs.values())))
        return f

    def shutdown(self, wait=True, *, cancel_futures=False):
        RIG.shutdowns.append((wait, cancel_futures))

    def __enter__(self):
        return self

    def __exit__(self, *a):
        self.shutdown(wait=True)
        return False


class DetProcessPool(_DetMixin, ProcessPoolExecutor):
    def __init__(self, max_workers=None, *a, **kw):   # no real pool is created
        self._init(max_workers)


class DetThreadPool(_DetMixin, Executor):
    def __init__(self, max_workers=None, *a, **kw):
        self._init(max_workers)


def _complete(fut):
    fn, args, kwargs = fut._c18
    try:
        fut.set_result(fn(*args, **kwargs))
    except BaseException as e:   # noqa: BLE001 - a worker sends any BaseException back
        fut.set_exception(e)


def det_as_completed(fs, timeout=None):
    """as_completed driven by the schedule: snapshot at the call, each future of the snapshot once."""
    rig = RIG
    if not isinstance(fs, dict) and isinstance(getattr(fs, 'mapping', None), Mapping):
        fs = fs.mapping      # as_completed(futures.keys()): the live dict behind the view
    if isinstance(fs, (dict, Mapping)):
        rig.futs = fs
    snapshot = list(fs)
    rig.events.append(('snap', tuple(_pid_of_task(fs[f]) if isinstance(fs, (dict, Mapping)) else -1 for f in snapshot)))
    remaining = list(snapshot)
    real = REAL_AS_COMPLETED(snapshot) if rig.real_iter else None
    while remaining:
        rig.tick()
        fut = remaining.pop(rig.choose(len(remaining)))
        if not fut.done():
            _complete(fut)
        if real is not None:
            got = next(real)        # exactly one finished future is outstanding: the real iterator yields it
            if got is not fut:
                rig.notes.append('real as_completed yielded another future')
            fut = got
        yield fut


def det_wait(fs, timeout=None, return_when='ALL_COMPLETED'):
    """concurrent.futures.wait driven by the schedule (for code that waits instead of iterating as_completed): with
    FIRST_COMPLETED one OR TWO futures finish before it returns (two workers may finish at the same moment)."""
    from concurrent.futures import DoneAndNotDoneFutures
    rig = RIG
    if not isinstance(fs, dict) and isinstance(getattr(fs, 'mapping', None), Mapping):
        fs = fs.mapping
    if isinstance(fs, (dict, Mapping)):
        rig.futs = fs
    fl = list(fs)
    rig.events.append(('wait', tuple(_pid_of_task(fs[f]) if isinstance(fs, (dict, Mapping)) else -1 for f in fl)))
    done = [f for f in fl if f.done()]
    first = str(return_when) == 'FIRST_COMPLETED'
    todo = [f for f in fl if not f.done()]
    n = len(todo) if not first else (0 if done else min(len(todo), 1 + rig.choose(2)))
    for _ in range(n):
        rig.tick()
        fut = todo.pop(rig.choose(len(todo)))
        _complete(fut)
        done.append(fut)
    return DoneAndNotDoneFutures(set(done), set(todo))


class FakeManager:
    def Event(self):
        RIG.stop = threading.Event()
        return RIG.stop


class Patched:
    """parproc() with the pools, as_completed and the Manager replaced by the deterministic rig"""

    def __init__(self, threads: bool):
        self.threads = threads

    def __enter__(self):
        import tatsu.parproc   # noqa: F401
        pp = sys.modules['tatsu.parproc.parproc']    # (the package attribute `parproc` is the function)
        pm = sys.modules['tatsu.parproc.pmap']
        self.pp, self.pm = pp, pm
        # the loop may be written with as_completed or with wait: whichever name the module holds is driven by the schedule
        self.saved = (cf.ProcessPoolExecutor, cf.ThreadPoolExecutor, getattr(pm, 'as_completed', None), multiprocessing.Manager,
                      pm.HAS_MULTITHREADING_SUPPORT, pp.HAS_MULTITHREADING_SUPPORT)
        self.saved_wait = getattr(pm, 'wait', None)
        cf.ProcessPoolExecutor = DetProcessPool
        cf.ThreadPoolExecutor = DetThreadPool
        if hasattr(pm, 'as_completed'):
            pm.as_completed = det_as_completed
        if hasattr(pm, 'wait'):
            pm.wait = det_wait
        multiprocessing.Manager = FakeManager
        pm.HAS_MULTITHREADING_SUPPORT = self.threads
        pp.HAS_MULTITHREADING_SUPPORT = False      # keep the Manager().Event() path (faked) so the rig sees `stop`
        return self

    def __exit__(self, *a):
        (cf.ProcessPoolExecutor, cf.ThreadPoolExecutor, ac, multiprocessing.Manager,
         self.pm.HAS_MULTITHREADING_SUPPORT, self.pp.HAS_MULTITHREADING_SUPPORT) = self.saved
        if ac is not None:
            self.pm.as_completed = ac
        if self.saved_wait is not None:
            self.pm.wait = self.saved_wait
        return False


def run_real(payloads, parallel, reraise, mw, sched, real_iter, tagged, via=PLAIN_VIA):
    """one run of the real loop under the rig -> (ending, results, events, rig); `via` = (container the payloads are
    handed over in, public entry point)"""
    global RIG
    RIG = rig = Rig(sched, len(payloads), real_iter)
    sys.setrecursionlimit(LIMIT0)
    out = []
    kw = {'pickable': pick_tag} if tagged else {}
    try:
        handed = CONTAINERS[via[0]][1](payloads)
        for r in call_entry(via[1], handed, parallel, reraise, mw, kw):
            c = canon_result(r, tagged)
            out.append(c)
            rig.events.append(('yield', c))
            rig.tick()
    except RigAbort as e:
        ending = ('no-termination', str(e))
    except Hang:
        raise
    except BaseException as e:   # noqa: BLE001
        ending = ('raised', tuple(mro_ids(type(e))))
    else:
        ending = ('interrupted',) if (rig.stop is not None and rig.stop.is_set()) else ('done',)
    return ending, out, rig.events, rig


def pattern_name(payloads, reraise):
    ks = []
    for p in payloads:
        f = p.payload['first']
        k = 'r' if f.startswith('ret') else f[4:] if f.startswith('exc:') else f
        if isinstance(p, VisPayload) and spec_effect(f)[0] == 'exc' and issubclass(spec_effect(f)[1], TypeError):
            k += '>' + p.path.name.replace('=', ':')
        ks.append(k)
    return ','.join(ks) + (':reraise' if reraise else '')


def classify(payloads, reraise, real, model):
    """shape class of a disagreement (signature material)"""
    (re_, ro, rev), (me, mo, mev) = real, model
    if re_[0] == 'no-termination':
        return 'no-termination'
    if Counter(ro) != Counter(mo):
        dup = any(v > 1 for v in Counter(x[0] for x in ro).values())
        lost = len(ro) < len(mo)
        return 'results:' + ('duplicated' if dup else 'lost' if lost else 'different')
    if re_ != me:
        return f'ending:{re_[0]}-vs-{me[0]}'
    if ro != mo:
        return 'yield-order'
    return 'trace'


def x1_configs(chk: Check):
    """(payload specs, reraise, threads, mw) for the exhaustive part"""
    nmax = 5 if chk.quick else 6
    modes = [(False, 1), (False, 2), (False, 3), (True, 2), (False, None)]
    for n in range(0, nmax + 1):
        pats = [(['ret'] * n, False)]
        for i in range(n):
            pats.append((['ret'] * i + ['exc:ValueError'] + ['ret'] * (n - i - 1), False))      # captured
            pats.append((['ret'] * i + ['exc:RuntimeError'] + ['ret'] * (n - i - 1), False))    # propagates
        if n:
            for i in sorted({0, n // 2, n - 1}):
                pats.append((['ret'] * i + ['exc:KeyboardInterrupt'] + ['ret'] * (n - i - 1), False))
            pats.append((['exc:KeyError'] * n, False))
            pats.append((['ret'] * (n - 1) + ['exc:ValueError'], True))                           # reraise
            pats.append((['exc:C18Type'] + ['ret'] * (n - 1), False))                             # visual retry
        if n >= 2:
            pats.append((['exc:ValueError', 'exc:RecursionError'] + ['ret'] * (n - 2), False))
            pats.append((['ret'] * (n - 2) + ['exc:KeyError', 'exc:C18Base'], False))
        for pat, reraise in pats:
            for threads, mw in modes:
                yield pat, reraise, threads, mw


def P(first, second='ret:0', visual=False, raises=()):
    """an explicit pattern item (hashable)"""
    return ('P', first, second, visual, tuple(raises))


def build_payloads(pat, rng=None):
    ps = []
    for i, k in enumerate(pat):
        if isinstance(k, tuple):
            _, first, second, visual, raises = k
            ps.append(mk_payload(i + 1, first, second=second, visual=visual, raises=raises))
        elif k == 'ret':
            ps.append(mk_payload(i + 1, f'ret:{(i + 1) * 10}'))
        elif k == 'exc:C18Type':
            ps.append(mk_payload(i + 1, k, second=f'ret:{(i + 1) * 10 + 1}', visual=True))
        elif k == 'exc:KeyError':
            ps.append(mk_payload(i + 1, k, raises=('LookupError',)))
        else:
            ps.append(mk_payload(i + 1, k))
    return ps


def sweep_specs():
    """one behaviour per exception class of the lattice / errno / non-int outcome / recursion depth"""
    out = ['exc:' + n for n in CLASSES] + ['os:' + e for e in ERRNOS] + [f'obj:{k}' for k in range(len(OBJS))]
    out += ['deep:3000:ret:7', 'deep:20000:obj:0', 'deep:3000:exc:ValueError', 'deep:2000:os:EINTR',
            'deep:3000:exc:RuntimeError']
    return out


def x1_sweep_configs(chk: Check):
    """every behaviour of the sweep in the middle of three tasks, every schedule; the legacy calling convention
    (VisualPayload + TypeError from the first call) with every kind of second call"""
    modes = [(False, 1), (True, 2)] if chk.quick else [(False, 1), (False, 2), (True, 2), (False, None)]
    for spec in sweep_specs():
        for threads, mw in modes:
            yield ['ret', P(spec), 'ret'], False, threads, mw
    legacy_seconds = ['deep:3000:ret:5', 'deep:20000:obj:0', 'deep:2500:exc:ValueError', 'deep:2500:os:EINTR',
                      'exc:InterruptedError', 'os:EINTR', 'os:ENOENT', 'obj:0', 'obj:1', 'exc:FutCancelled',
                      'exc:PicklingError', 'exc:TypeError', 'deep:3000:exc:RuntimeError']
    for first in ('exc:TypeError', 'deep:1500:exc:C18Type'):
        for second in legacy_seconds:
            for threads, mw in modes:
                yield [P('ret:1', visual=True), P(first, second, visual=True), 'ret'], False, threads, mw
    # several deep / legacy-deep tasks in one run (the limit is raised and restored around every call)
    for threads, mw in modes:
        yield [P('deep:3000:ret:1'), P('exc:TypeError', 'deep:3000:ret:2', visual=True), P('deep:3000:exc:KeyError'),
               P('exc:C18Type', 'deep:3000:ret:4', visual=True)], False, threads, mw


def run_x1(chk: Check, mr: ModelRun):
    cpu = multiprocessing.cpu_count()
    runs = []          # (descr, payloads, reraise, threads, mw, sched, real)

    def one(payloads, parallel, reraise, threads, mw, sched, real_iter, tagged, via=PLAIN_VIA):
        with Patched(threads), contextlib.redirect_stderr(io.StringIO()):   # pmap prints "Wait..." on KeyboardInterrupt
            real = run_real(payloads, parallel, reraise, mw, sched, real_iter, tagged, via)
        chk.count('x1.payloads_as.' + via[0])
        chk.count('x1.entry.' + via[1])
        return real

    def exhaust(pat, reraise, parallel, threads, mw, via_of):
        """all schedules of one configuration (stateless depth-first enumeration of the choice points)"""
        payloads = build_payloads(pat)
        sched = []
        nsched = 0
        while True:
            real_iter = (nsched % 2 == 1)
            tagged = (nsched % 3 == 2)
            via = via_of(nsched)
            ending, out, events, rig = one(payloads, parallel, reraise, threads, mw, sched, real_iter, tagged, via)
            full = (sched + [0] * len(rig.counts))[:len(rig.counts)]
            runs.append((payloads, parallel, reraise, threads, mw, full, (ending, out, events), rig, via, real_iter, tagged))
            nsched += 1
            chk.count('x1.exhaustive_runs')
            j = len(full) - 1
            while j >= 0 and full[j] + 1 >= rig.counts[j]:
                j -= 1
            if j < 0 or ending[0] == 'no-termination':
                break
            if nsched > math.factorial(max(len(pat), 1)):     # a correct loop has at most n! schedules
                chk.violation('x1:schedule-space', 'more schedules than n! for n tasks: futures are offered more than once',
                              {'correspondence': 'X1 deterministic executor', 'pattern': pat, 'threads': threads,
                               'max_workers': mw, 'schedules_seen': nsched})
                break
            sched = full[:j] + [full[j] + 1]
        return nsched

    # exhaustive over schedules (stateless depth-first enumeration of the choice points)
    all_configs = list(x1_configs(chk)) + list(x1_sweep_configs(chk))
    for ci, (pat, reraise, threads, mw) in enumerate(all_configs):
        # the first schedule of every configuration: plain list through parproc(); the others rotate through the
        # (container, entry point) pairs
        nsched = exhaust(pat, reraise, True, threads, mw,
                         lambda k, ci=ci: PLAIN_VIA if k == 0 else VIAS[(5 * ci + 7 * k) % len(VIAS)])
        chk.count(f'x1.schedules.n{len(pat)}', nsched)
    # the hand-over family: EVERY container x EVERY entry point, lists of 0..3 payloads (0..4 thorough), parallel with
    # both executors and sequential, every schedule
    for n in range(0, (3 if chk.quick else 4) + 1):
        pats = [['ret'] * n]
        if n:
            pats.append(['exc:ValueError'] + ['ret'] * (n - 1))          # the FIRST payload is the one that stands out
            pats.append(['exc:KeyError'] * n)
        if n >= 2:
            pats.append(['ret'] * (n - 1) + ['exc:ValueError'])
            pats.append(['exc:RuntimeError'] + ['ret'] * (n - 1))        # propagates
        for pat in pats:
            for via in VIAS:
                for parallel, threads, mw in ((True, False, 1), (True, True, 2), (False, False, None)):
                    exhaust(pat, False, parallel, threads, mw, lambda k, via=via: via)
                    chk.count('x1.handover_configs')
    # sequential mode and the single-task shortcut on the same patterns
    seen = set()
    for pat, reraise, threads, mw in all_configs:
        key = (tuple(pat), reraise)
        if key in seen:
            continue
        seen.add(key)
        payloads = build_payloads(pat)
        via = VIAS[(3 * len(seen)) % len(VIAS)]
        ending, out, events, rig = one(payloads, False, reraise, False, mw, [], False, False, via)
        runs.append((payloads, False, reraise, False, mw, [], (ending, out, events), rig, via, False, False))
        chk.count('x1.sequential_runs')
    # sampled: longer lists, random behaviours, random schedules with large entries (exercise the modulo)
    rng = chk.rng
    kinds = ['ret'] * 8 + ['exc:ValueError', 'exc:KeyError', 'exc:C18Error', 'exc:C18Type', 'exc:ZeroDivisionError',
                           'exc:C18Lookup']
    # the whole capturable part of the lattice (a propagating StopIteration is rewritten by the generator machinery:
    # outside the property, T1 only), errno-built OSErrors, non-int outcomes, deep recursion
    capturable = [n for n, c in CLASSES.items() if issubclass(c, Exception) and not issubclass(c, RuntimeError)
                  and not issubclass(c, (StopIteration, StopAsyncIteration))]
    risky = ['exc:RuntimeError', 'exc:RecursionError', 'exc:KeyboardInterrupt', 'exc:C18Base', 'exc:C18Mixed',
             'exc:SystemExit', 'exc:BrokenExecutor', 'exc:AsyncCancelled', 'deep:3000:exc:RuntimeError']
    seconds = ['ret:5', 'exc:ValueError', 'exc:TypeError', 'deep:2500:ret:6', 'deep:2500:exc:ValueError',
               'exc:InterruptedError', 'os:EINTR', 'os:EIO', 'obj:0']

    def wide_kind():
        x = rng.random()
        if x < 0.45:
            return 'exc:' + rng.choice(capturable)
        if x < 0.60:
            return 'os:' + rng.choice(ERRNOS)
        if x < 0.75:
            return f'obj:{rng.randrange(len(OBJS))}'
        if x < 0.85:
            return f'deep:{rng.choice([1200, 3000, 8000])}:ret:{rng.randint(0, 99)}'
        return f'deep:{rng.choice([1200, 3000])}:' + rng.choice(['exc:ValueError', 'exc:TypeError', 'os:EINTR', 'obj:0'])

    for it in range(250 if chk.quick else 4000):
        n = rng.randint(2, 14)
        wide = (it // 2) % 2 == 1
        pat = [(wide_kind() if (wide and rng.random() < 0.5) else rng.choice(kinds)) for _ in range(n)]
        if rng.random() < 0.25:
            pat[rng.randrange(n)] = rng.choice(risky)
        payloads = []
        for i, k in enumerate(pat):
            if k == 'ret':
                payloads.append(mk_payload(i + 1, f'ret:{rng.randint(0, 99)}', visual=rng.random() < 0.3))
            else:
                vis = rng.random() < 0.4
                payloads.append(mk_payload(i + 1, k, second=rng.choice(seconds if wide else seconds[:3]),
                                           visual=vis,
                                           raises=rng.choice([(), (), ('ValueError',), ('LookupError', 'C18Error'),
                                                              ('Exception',), ('OSError', 'ValueError', 'TypeError')])))
        if rng.random() < 0.1:     # equal payload ids / equal tasks are distinct futures
            payloads[0] = mk_payload(2, payloads[1].payload['first'], payloads[1].path.name.replace('=', ':'),
                                     isinstance(payloads[1], VisPayload), payloads[1].payload['raises'])
        threads = rng.random() < 0.3
        mw = rng.choice([None, 1, 1, 2, 3, 4, 5, 7, 0])
        reraise = rng.random() < 0.08
        parallel = rng.random() < 0.9
        sched = [rng.randint(0, 1000) for _ in range(n + 2)]
        via = PLAIN_VIA if it % 4 == 0 else (rng.choice(list(CONTAINERS)), rng.choice(ENTRIES))
        ending, out, events, rig = one(payloads, parallel, reraise, threads, mw, sched, it % 2 == 1, it % 3 == 0, via)
        runs.append((payloads, parallel, reraise, threads, mw, sched, (ending, out, events), rig, via, it % 2 == 1, it % 3 == 0))
        chk.count('x1.sampled_runs')

    reqs = []
    for payloads, parallel, reraise, threads, mw, sched, real, rig, via, real_iter, tagged in runs:
        tasks = sx([task_sx(p, reraise) for p in payloads])
        reqs.append(f'(parproc {sx(parallel)} {sx(threads)} {mw or 0} {cpu} {sx(sched)} {tasks})')
        reqs.append(f'(pmap {sx(threads)} {mw or 0} {cpu} {sx(sched)} {tasks})')
    reps = mr.ask(reqs)
    bad = obad = 0
    for idx, (payloads, parallel, reraise, threads, mw, sched, real, rig, via, real_iter, tagged) in enumerate(runs):
        rp, rm = reps[2 * idx], reps[2 * idx + 1]
        m_end = model_ending(rp[0])
        m_out = [model_result(x) for x in rp[1]]
        used_pool = bool(rig.execs)
        m_evs_all = [model_event(x) for x in rm[2]]
        m_evs = m_evs_all if used_pool else []
        ending, out, events = real
        if not used_pool:            # the consumer's yield marks only matter next to the pool's events
            events = [e for e in events if e[0] != 'yield']
        n = len(payloads)
        chk.case(f'x1:{pattern_name(payloads, reraise)}:{parallel}:{threads}:{mw}:{sched}:{via[0]}:{via[1]}',
                 nontrivial=n >= 2 and parallel)
        plain = [expected_result(p, reraise) for p in payloads]

        def ok_with(v):
            """the same run with the payloads handed over as `v`: does it agree with the model (and the oracle)?"""
            e2, o2, ev2, rig2 = one(payloads, parallel, reraise, threads, mw, sched, real_iter, tagged, v)
            if not rig2.execs:
                ev2 = [e for e in ev2 if e[0] != 'yield']
            want2 = [('DetThreadPool' if threads else 'DetProcessPool', mw or cpu)] if rig2.execs else []
            if not (e2 == m_end and o2 == m_out and ev2 == (m_evs_all if rig2.execs else []) and not rig2.notes
                    and rig2.execs == want2):
                return False
            return not all(x is not None for x in plain) or (e2 == ('done',) and Counter(o2) == Counter(plain))
        # the window the pool was created with
        want_exec = []
        if used_pool:
            want_exec = [('DetThreadPool' if threads else 'DetProcessPool', mw or cpu)]
        ok = (ending == m_end and out == m_out and events == m_evs and rig.execs == want_exec and not rig.notes)
        if not ok:
            bad += 1
            shape = classify(payloads, reraise, (ending, out, events), (m_end, m_out, m_evs))
            if rig.execs != want_exec and shape == 'trace':
                shape = 'executor-max-workers'
            mode = 'seq' if not parallel else 'thread' if threads else 'proc'
            chk.violation(f'x1:{mode}:{shape}' + via_suffix(via, ok_with),
                          f'{via[1]}() under the deterministic executor differs from the model ({shape}) for '
                          f'{pattern_name(payloads, reraise)} handed over as {via[0]}, mw={mw} schedule={sched}',
                          {'correspondence': 'X1 deterministic executor', 'pattern': pattern_name(payloads, reraise),
                           'payloads_as': via[0], 'entry': via[1],
                           'parallel': parallel, 'threads': threads, 'max_workers': mw, 'schedule': sched,
                           'impl': {'ending': ending, 'results': out, 'events': events, 'executors': rig.execs,
                                    'notes': rig.notes},
                           'model': {'ending': m_end, 'results': m_out, 'events': m_evs}})
        # oracle, independent of the model: no propagating task => one result per payload, same multiset as map()
        if all(x is not None for x in plain):
            chk.count('x1.oracle_applicable')
            if ending != ('done',) or Counter(out) != Counter(plain) or (not parallel and out != plain):
                obad += 1
                chk.violation('oracle:x1:' + ('ending' if ending != ('done',) else 'multiset') + via_suffix(via, ok_with),
                              f'not exactly one result per payload for {pattern_name(payloads, reraise)} handed to {via[1]}() '
                              f'as {via[0]}, mw={mw} schedule={sched}',
                              {'oracle': 'exactly once', 'pattern': pattern_name(payloads, reraise), 'parallel': parallel,
                               'payloads_as': via[0], 'entry': via[1],
                               'threads': threads, 'max_workers': mw, 'schedule': sched, 'ending': ending,
                               'results': out, 'expected_multiset': plain})
    chk.obligation('X1:parproc/executor_pmap under the deterministic executor vs ParProc.v (ending, yield order, '
                   'submission/snapshot trace; all schedules for small lists)', 'correspondence', bad == 0,
                   f'{bad} of {len(runs)} runs differ')
    chk.obligation('O1:exactly one result per payload, multiset of the sequential mode (deterministic executor)', 'oracle',
                   obad == 0)
    ex = runs[len(runs) // 3]
    chk.sample({'x1_pattern': pattern_name(ex[0], ex[2]), 'threads': ex[3], 'max_workers': ex[4], 'schedule': ex[5],
                'ending': ex[6][0], 'yielded_payloads': [r[0] for r in ex[6][1]]})


def final_effect(p):
    kind, val = spec_effect(p.payload['first'])
    if kind == 'exc' and issubclass(val, TypeError) and isinstance(p, VisPayload):
        kind, val = spec_effect(p.path.name.replace('=', ':'))      # the legacy convention: func(payload.path)
    return kind, val


def expected_result(p, reraise):
    """independent reading of the property: what one payload contributes when its exception is one the loop
    is asked to capture (None: the exception propagates by design / outside the property)"""
    kind, val = final_effect(p)
    pid = p.payload['pid']
    if kind == 'ret':
        return (pid, val, None)
    c = val
    if reraise or not issubclass(c, Exception) or issubclass(c, RuntimeError):
        return None
    rs = _raises_of(p)
    if rs and not issubclass(c, rs):
        return None
    return (pid, None, tuple(mro_ids(c)))


# ------------------------------------------------------------------ XF the file-list entry points (strengthening 8)
# The payloads are real files: processing_loop(file names), parproc_visual(VisualPayload(path, text)) with and without
# its summary, parproc_visual(legacy list of file names), next to parproc / parallel_proc on the same payload objects.
# What a file makes the function do is in its NAME (`<pid>~<first>~<second>~t<text>.ext`), so the TEXT is free: empty,
# blank, comment-only, no final newline, CR/LF, non-ASCII, long.  A file list may name a file more than once, under
# the same or another spelling.  Every entry of the list is one task of the model.
FILE_TEXTS: list[tuple[str, str]] = [
    ('empty', ''), ('space', ' '), ('newline', '\n'), ('blank-lines', '\n\n\n'), ('no-eol', 'one line'),
    ('two-lines', 'alpha\nbeta\n'), ('hash-comment', '# only a comment\n'), ('slash-comment', '// only a comment\n'),
    ('code-and-comments', 'x = 1  # one\n\n# two\ny = 2\n'), ('crlf', 'a\r\nb\r\n'), ('tabs', '\t\t\n'),
    ('zero', '0'), ('formfeed', '\x0c'), ('non-ascii', 'señal → λ\n'), ('long', 'x = 1\n' * 2000),
]
PLAIN_TEXT = 5
FILE_EXTS = ['.txt', '.py', '.java', '', '.ebnf', '.js']
FILE_DIR = 'fl'
SPELLINGS = {
    'plain': lambda n: f'{FILE_DIR}/{n}',
    'dot': lambda n: f'./{FILE_DIR}/{n}',                    # an equal Path
    'double-slash': lambda n: f'{FILE_DIR}//{n}',            # an equal Path
    'dotdot': lambda n: f'{FILE_DIR}/sub/../{n}',            # another Path, the same file
    'absolute': lambda n: os.path.join(os.getcwd(), FILE_DIR, n),
    'symlink': lambda n: f'ln/{n}',                          # another Path, the same file
}
FENTRIES = ['processing_loop', 'processing_loop:nosummary', 'visual:summary', 'visual:nosummary', 'visual:legacy',
            'visual:legacy:nosummary', 'parproc', 'parallel_proc']
PLAIN_OPTS = {'verbose': False, 'display': False, 'cont': 'list', 'share': False, 'aspath': False}


def file_specs(path) -> tuple[int, str, str]:
    parts = Path(path).name.split('~')
    return int(parts[0]), parts[1].replace('=', ':'), parts[2].replace('=', ':')


def c18_file_func(arg, *args, **kwargs):
    if args != ('A',) or kwargs != {'k': 1}:
        raise AssertionError('args/kwargs not forwarded')
    if isinstance(arg, Path):                     # taskproc's retry: func(payload.path, ...)
        return behave(file_specs(arg)[2])
    text = arg.payload                            # (None for a legacy list of names)
    if text is not None and text != arg.path.read_text():
        return 'c18-text-is-not-the-files'
    return behave(file_specs(arg.path)[1])


class FileCorpus:
    """files under the scratch working directory, written on demand"""

    def __init__(self):
        os.makedirs(f'{FILE_DIR}/sub', exist_ok=True)
        if not os.path.lexists('ln'):
            os.symlink(FILE_DIR, 'ln')
        self.done = set()
        self.texts = []
        for name, text in FILE_TEXTS:                        # shapes the platform's read_text() cannot read are left out
            p = Path(FILE_DIR) / 'probe'
            p.write_bytes(text.encode('utf-8'))
            try:
                p.read_text()
            except (UnicodeError, OSError):
                continue
            self.texts.append(name)
        (Path(FILE_DIR) / 'probe').unlink()

    def name(self, item) -> str:
        pid, first, second, ti, ext, spelling = item
        n = f'{pid}~{first.replace(":", "=")}~{second.replace(":", "=")}~t{ti}{ext}'
        if n not in self.done:
            (Path(FILE_DIR) / n).write_bytes(FILE_TEXTS[ti][1].encode('utf-8'))
            self.done.add(n)
        return SPELLINGS[spelling](n)


def fentry_flags(fentry):
    kind = fentry.split(':')[0]
    legacy = fentry.startswith('visual:legacy')
    summary = kind in ('processing_loop', 'visual') and 'nosummary' not in fentry
    return kind, legacy, legacy or summary          # (entry kind, legacy list of names, results are collected first)


def call_file_entry(fentry, names, parallel, reraise, mw, opts):
    import tatsu.parproc as tp
    from tatsu.parproc.payload import StrPayload, VisualPayload
    cont = CONTAINERS[opts['cont']][1]
    progress = None if opts['display'] else QuietProgress()
    kind, legacy, _ = fentry_flags(fentry)
    common = dict(eprint=_quiet, verbose=opts['verbose'], usecolor=False, parallel=parallel, reraise=reraise,
                  max_workers=mw, k=1)
    if 'nosummary' in fentry:
        common['summary'] = False
    if kind == 'processing_loop':
        items = [Path(n) if (opts['aspath'] and i % 2) else n for i, n in enumerate(names)]
        return tp.processing_loop(cont(items), c18_file_func, progress, 'A', **common)
    if legacy:
        items = [StrPayload(n) if (opts['aspath'] and i % 2) else n for i, n in enumerate(names)]
        return tp.parproc_visual(c18_file_func, cont(items), progress, 'A', **common)
    made, items = {}, []
    for n in names:
        if not (opts['share'] and n in made):     # share: a repeated entry is the SAME payload object
            made[n] = VisualPayload(Path(n), Path(n).read_text())
        items.append(made[n])
    if kind == 'visual':
        return tp.parproc_visual(c18_file_func, cont(items), progress, 'A', **common)
    if kind == 'parproc':
        return tp.parproc(c18_file_func, cont(items), 'A', parallel=parallel, reraise=reraise, max_workers=mw, k=1)
    if kind == 'parallel_proc':
        return tp.parallel_proc(cont(items), c18_file_func, 'A', parallel=parallel, reraise=reraise, max_workers=mw, k=1)
    raise AssertionError(fentry)


def file_canon(r):
    """((payload id, outcome, exception mro), path the result names)"""
    from tatsu.parproc.result import Result
    if not isinstance(r, Result):
        return ('not-a-result', repr(type(r))), None
    pl = r.payload
    path = pl.path if hasattr(pl, 'path') else Path(str(pl))
    o = r.outcome
    if type(o) is not int and not (o is None and r.exception is not None):
        o = obj_code(o)
    try:
        pid = file_specs(path)[0]
    except Exception:   # noqa: BLE001
        pid = repr(pl)
    return (pid, o, None if r.exception is None else tuple(mro_ids(type(r.exception)))), str(path)


def run_files_real(names, fentry, opts, parallel, reraise, threads, mw, sched, real_iter):
    """one run of a file-list entry point under the rig -> (ending, results, paths, events), rig"""
    global RIG
    RIG = rig = Rig(sched, len(names), real_iter)
    sys.setrecursionlimit(LIMIT0)
    out, paths = [], []
    with Patched(threads), contextlib.redirect_stderr(io.StringIO()), contextlib.redirect_stdout(io.StringIO()):
        try:
            for r in call_file_entry(fentry, names, parallel, reraise, mw, opts):
                c, path = file_canon(r)
                out.append(c)
                paths.append(path)
                rig.events.append(('yield', c))
                rig.tick()
        except RigAbort as e:
            ending = ('no-termination', str(e))
        except Hang:
            raise
        except BaseException as e:   # noqa: BLE001
            ending = ('raised', tuple(mro_ids(type(e))))
        else:
            ending = ('interrupted',) if (rig.stop is not None and rig.stop.is_set()) else ('done',)
    return (ending, out, paths, rig.events), rig


def shadow(item):
    """the task of the model for one entry of a file list"""
    pid, first, second = item[:3]
    return mk_payload(pid, first, second, visual=True)


def files_verdict(names, items, fentry, parallel, reraise, threads, mw, cpu, real, rig, rp, rm):
    """None when the run agrees with the model and with the oracle, else (kind, shape, model part)"""
    ending, out, paths, events = real
    m_end = model_ending(rp[0])
    m_out = [model_result(x) for x in rp[1]]
    used_pool = bool(rig.execs)
    m_evs = [model_event(x) for x in rm[2]] if used_pool else []
    buffered = fentry_flags(fentry)[2]
    evs = events if used_pool else [e for e in events if e[0] != 'yield']
    if buffered:       # the results are collected before the first one is handed on: nothing is yielded before a raise
        evs = [e for e in evs if e[0] != 'yield']
        m_evs = [e for e in m_evs if e[0] != 'yield']
        if m_end[0] == 'raised':
            m_out = m_out[:len(out)]
    want_exec = [('DetThreadPool' if threads else 'DetProcessPool', mw or cpu)] if used_pool else []
    model = {'ending': m_end, 'results': m_out, 'events': m_evs}
    if not (ending == m_end and out == m_out and evs == m_evs and rig.execs == want_exec and not rig.notes):
        shape = classify(None, reraise, (ending, out, evs), (m_end, m_out, m_evs))
        if shape.startswith('results:'):          # (a list may name a file twice: equal ids are not duplicates here)
            shape = 'results:' + ('lost' if len(out) < len(m_out) else 'duplicated' if len(out) > len(m_out) else 'different')
        if rig.execs != want_exec and shape == 'trace':
            shape = 'executor-max-workers'
        return 'xf', shape, model
    plain = [expected_result(shadow(it), reraise) for it in items]
    if all(x is not None for x in plain):
        if ending != ('done',):
            return 'oracle:xf', 'ending', model
        if Counter(out) != Counter(plain) or (not parallel and out != plain):
            return 'oracle:xf', 'multiset', model
        if Counter(paths) != Counter(str(Path(n)) for n in names):
            return 'oracle:xf', 'result-names-another-entry', model
    return None


def run_files(chk: Check, mr: ModelRun):
    cpu = multiprocessing.cpu_count()
    corpus = FileCorpus()
    texts = [i for i, (n, _) in enumerate(FILE_TEXTS) if n in corpus.texts]
    chk.count('xf.text_shapes', len(texts))
    rng = chk.rng
    runs = []

    def one(items, fentry, opts, parallel, reraise, threads, mw, sched, real_iter):
        names = [corpus.name(it) for it in items]
        real, rig = run_files_real(names, fentry, opts, parallel, reraise, threads, mw, sched, real_iter)
        return names, real, rig

    def record(items, fentry, opts, parallel, reraise, threads, mw, sched, real_iter):
        names, real, rig = one(items, fentry, opts, parallel, reraise, threads, mw, sched, real_iter)
        full = (list(sched) + [0] * len(rig.counts))[:len(rig.counts)] if parallel else list(sched)
        runs.append((items, names, fentry, dict(opts), parallel, reraise, threads, mw, full, real, rig, real_iter))
        chk.count('xf.entry.' + fentry)
        chk.count('xf.runs')
        for it in set(items):
            chk.count('xf.text.' + FILE_TEXTS[it[3]][0])
        if len({it[:5] for it in items}) < len(items):
            chk.count('xf.lists_with_repeated_files')
        return full, real, rig

    def exhaust(items, fentry, opts, parallel, reraise, threads, mw, limit=None):
        sched, nsched = [], 0
        while True:
            full, real, rig = record(items, fentry, opts, parallel, reraise, threads, mw, sched, nsched % 2 == 1)
            nsched += 1
            j = len(full) - 1
            while j >= 0 and full[j] + 1 >= rig.counts[j]:
                j -= 1
            if j < 0 or real[0][0] == 'no-termination' or not parallel or (limit and nsched >= limit):
                break
            if nsched > math.factorial(max(len(items), 1)):
                break                                  # (reported by the comparison: results duplicated)
            sched = full[:j] + [full[j] + 1]

    MODES = [(True, False, 1), (True, True, 2), (False, False, None), (True, False, None)]
    counter = itertools.count()

    def item(pid, first, second='ret:0', ti=None, spelling='plain'):
        k = next(counter)
        ti = texts[(7 * k) % len(texts)] if ti is None else ti
        return (pid, first, second, ti, FILE_EXTS[k % len(FILE_EXTS)], spelling)

    def respell(it, spelling):
        return it[:5] + (spelling,)

    def shapes(base):
        """lists over the distinct files `base` in which files are named once or several times"""
        yield 'distinct', list(base)
        if not base:
            return
        a = base[0]
        yield 'repeated-adjacent', [a, a] + base[1:]
        yield 'repeated-apart', base + [a]
        yield 'respelled-equal-path', [a] + base[1:] + [respell(a, 'dot' if len(base) % 2 else 'double-slash')]
        yield 'respelled-other-path', [respell(a, ('dotdot', 'absolute', 'symlink')[len(base) % 3])] + base[1:] + [a]
        if len(base) <= 2:
            yield 'three-times', [a] + base[1:] + [a, a]
        if len(base) == 2:
            yield 'all-twice', base + base

    # 1. small lists: behaviours x how often a file is named x entry point x mode, every schedule (up to 3 entries; a
    #    few schedules for 4)
    behaviours = [('ret:1', 'ret:0'), ('exc:ValueError', 'ret:0'), ('obj:1', 'ret:0'), ('exc:TypeError', 'ret:5'),
                  ('exc:TypeError', 'exc:KeyError'), ('os:ENOENT', 'ret:0')]
    ci = 0
    for k in range(0, 3 + 1):
        bases = [[item(i + 1, f'ret:{10 * (i + 1)}') for i in range(k)]]
        for j, (first, second) in enumerate(behaviours):
            if k:
                pos = j % k
                bases.append([item(i + 1, first if i == pos else f'ret:{10 * (i + 1)}', second if i == pos else 'ret:0')
                              for i in range(k)])
        if k:
            bases.append([item(i + 1, 'exc:KeyError') for i in range(k)])
            bases.append([item(1, 'exc:RuntimeError')] + [item(i + 2, 'ret:3') for i in range(k - 1)])      # propagates
            bases.append([item(i + 1, 'ret:3') for i in range(k - 1)] + [item(k, 'exc:KeyboardInterrupt')])
        for bi, base in enumerate(bases):
            if chk.quick and k == 3 and bi % 2:
                continue
            for shape, items in shapes(base):
                for fentry in FENTRIES:
                    ci += 1
                    mi = ci + ci // len(FENTRIES)       # (not locked to the position of the entry point in FENTRIES)
                    parallel, threads, mw = MODES[mi % len(MODES)]
                    reraise = (ci % 11 == 0)
                    opts = dict(PLAIN_OPTS, verbose=(ci % 3 == 0), share=(mi % 2 == 0), aspath=(ci % 5 == 0),
                                cont=list(CONTAINERS)[ci % len(CONTAINERS)] if mi % 4 == 0 else 'list')
                    exhaust(items, fentry, opts, parallel, reraise, threads, mw, limit=None if len(items) <= 3 else 3)
                    chk.count('xf.small_configs.' + shape)
    # 2. every text shape at every position of three files, every entry point, sequential and parallel; every outcome
    #    object and every capturable class of the lattice as the middle one of three
    for ti in texts:
        for pos in range(3):
            for fentry in FENTRIES:
                ci += 1
                mi = ci + ci // len(FENTRIES)       # (not locked to the position of the entry point in FENTRIES)
                items = [item(i + 1, f'ret:{i + 1}' if (i + ci) % 3 else 'exc:ValueError',
                              ti=ti if i == pos else PLAIN_TEXT) for i in range(3)]
                for parallel, threads, mw in MODES[(mi % 2)::2]:
                    record(items, fentry, dict(PLAIN_OPTS, verbose=(mi % 4 == 0)), parallel, False, threads, mw,
                           [ci % 3, mi % 2], mi % 2 == 1)
                chk.count('xf.text_sweep_configs')
    capturable = [n for n, c in CLASSES.items() if issubclass(c, Exception) and not issubclass(c, RuntimeError)
                  and not issubclass(c, (StopIteration, StopAsyncIteration, TypeError))]
    sweep = [f'obj:{k}' for k in range(len(OBJS))] + ['exc:' + n for n in capturable] + ['os:' + e for e in ERRNOS]
    for si, spec in enumerate(sweep):
        for fentry in (FENTRIES if spec.startswith('obj:') else [FENTRIES[si % len(FENTRIES)], FENTRIES[(si + 3) % len(FENTRIES)]]):
            ci += 1
            mi = ci + ci // len(FENTRIES)       # (not locked to the position of the entry point in FENTRIES)
            parallel, threads, mw = MODES[mi % len(MODES)]
            items = [item(1, 'ret:1'), item(2, spec, ti=texts[ci % len(texts)]), item(3, 'ret:3')]
            record(items, fentry, dict(PLAIN_OPTS, verbose=(mi % 2 == 0)), parallel, False, threads, mw, [ci % 3, mi % 2],
                   mi % 2 == 1)
            chk.count('xf.outcome_sweep_configs')
    # 3. sampled: longer lists, random behaviours / texts / repetitions / spellings / options / schedules
    kinds = ['ret'] * 7 + ['exc:ValueError', 'exc:KeyError', 'exc:C18Error', 'os:EIO', 'obj:0', 'obj:1', 'obj:4']
    for it in range(150 if chk.quick else 2500):
        n = rng.randint(1, 10)
        items = []
        for i in range(n):
            if items and rng.random() < 0.3:       # an entry for a file that is already in the list
                items.append(respell(rng.choice(items), rng.choice(list(SPELLINGS))))
                continue
            k = rng.choice(kinds)
            first = f'ret:{rng.randint(0, 99)}' if k == 'ret' else k
            second = 'ret:0'
            if rng.random() < 0.15:
                first, second = 'exc:TypeError', rng.choice(['ret:5', 'exc:ValueError', 'obj:0', 'os:EINTR'])
            ti = texts[0] if rng.random() < 0.2 else rng.choice(texts)
            items.append((i + 1, first, second, ti, rng.choice(FILE_EXTS), rng.choice(list(SPELLINGS))))
        propagating = rng.random() < 0.08
        if propagating:
            items[rng.randrange(n)] = (n + 1, rng.choice(['exc:RuntimeError', 'exc:C18Base', 'exc:KeyboardInterrupt']),
                                       'ret:0', rng.choice(texts), '.txt', 'plain')
        reraise = rng.random() < 0.05
        opts = {'verbose': rng.random() < 0.5, 'display': (not propagating and not reraise and rng.random() < 0.15),
                'cont': rng.choice(list(CONTAINERS)), 'share': rng.random() < 0.5, 'aspath': rng.random() < 0.3}
        parallel, threads, mw = rng.choice(MODES + [(True, False, 3), (True, True, None), (True, False, 0)])
        record(items, rng.choice(FENTRIES), opts, parallel, reraise, threads, mw,
               [rng.randint(0, 1000) for _ in range(n + 2)], it % 2 == 1)
        chk.count('xf.sampled_runs')

    reqs = []
    for items, names, fentry, opts, parallel, reraise, threads, mw, sched, real, rig, real_iter in runs:
        tasks = sx([task_sx(shadow(it), reraise) for it in items])
        reqs.append(f'(parproc {sx(parallel)} {sx(threads)} {mw or 0} {cpu} {sx(sched)} {tasks})')
        reqs.append(f'(pmap {sx(threads)} {mw or 0} {cpu} {sx(sched)} {tasks})')
    reps = mr.ask(reqs)

    def judge(items, fentry, opts, parallel, reraise, threads, mw, sched, real_iter):
        """a variant of a failing run: does it agree with the model and the oracle?"""
        names, real, rig = one(items, fentry, opts, parallel, reraise, threads, mw, sched, real_iter)
        tasks = sx([task_sx(shadow(it), reraise) for it in items])
        rp, rm = mr.ask([f'(parproc {sx(parallel)} {sx(threads)} {mw or 0} {cpu} {sx(sched)} {tasks})',
                         f'(pmap {sx(threads)} {mw or 0} {cpu} {sx(sched)} {tasks})'])
        return files_verdict(names, items, fentry, parallel, reraise, threads, mw, cpu, real, rig, rp, rm) is None

    def attribute(items, fentry, opts, parallel, reraise, threads, mw, sched, real_iter):
        """signature material: what the disagreement depends on (entry point, repeated files, a text shape, options)"""
        rest = (parallel, reraise, threads, mw, sched, real_iter)
        if fentry != 'parproc' and not judge(items, 'parproc', PLAIN_OPTS, *rest):
            return ''                                # parproc() itself on the same payloads: nothing to do with this family
        parts = []
        if fentry != 'parproc' and judge(items, 'parproc', opts, *rest):
            parts.append('entry=' + fentry)
        seen, uniq = set(), []
        for it in items:
            if it[:5] not in seen:
                seen.add(it[:5])
                uniq.append(it)
        if len(uniq) < len(items) and judge(uniq, fentry, opts, parallel, reraise, threads, mw, [], real_iter):
            parts.append('repeated-entries')
        for ti in sorted({it[3] for it in items if it[3] != PLAIN_TEXT}):
            if judge([it[:3] + (PLAIN_TEXT if it[3] == ti else it[3],) + it[4:] for it in items], fentry, opts, *rest):
                parts.append('text=' + FILE_TEXTS[ti][0])
                break
        for o in PLAIN_OPTS:
            if opts[o] != PLAIN_OPTS[o] and judge(items, fentry, dict(opts, **{o: PLAIN_OPTS[o]}), *rest):
                parts.append('option=' + o)
                break
        return ''.join(':' + p for p in parts)

    bad = obad = 0
    sigs_seen: dict[tuple, str] = {}
    for idx, (items, names, fentry, opts, parallel, reraise, threads, mw, sched, real, rig, real_iter) in enumerate(runs):
        rp, rm = reps[2 * idx], reps[2 * idx + 1]
        n = len(items)
        descr = ','.join(f'{it[0]}:{it[1]}>{it[2]}:{FILE_TEXTS[it[3]][0]}{it[4]}:{it[5]}' for it in items)
        chk.case(f'xf:{fentry}:{descr}:{parallel}:{threads}:{mw}:{sched}:{sorted(opts.items())}:{reraise}',
                 nontrivial=n >= 2)
        verdict = files_verdict(names, items, fentry, parallel, reraise, threads, mw, cpu, real, rig, rp, rm)
        if verdict is None:
            continue
        kind, shape, model = verdict
        if kind == 'xf':
            bad += 1
        else:
            obad += 1
        mode = 'seq' if not parallel else 'thread' if threads else 'proc'
        # the attribution re-runs variants: once per (kind, shape, entry, repeated?, texts) class
        akey = (kind, shape, fentry, len({it[:5] for it in items}) < n, tuple(sorted({it[3] for it in items})),
                tuple(sorted(opts.items())))
        if akey not in sigs_seen:
            sigs_seen[akey] = attribute(items, fentry, opts, parallel, reraise, threads, mw, sched, real_iter)
        suffix = sigs_seen[akey]
        sig = (f'xf:{mode}:{shape}' if kind == 'xf' else f'oracle:xf:{shape}') + suffix
        ending, out, paths, events = real
        chk.violation(sig, f'{fentry} on the file list [{descr[:300]}] ({"parallel" if parallel else "sequential"}, mw={mw}, '
                           f'schedule={sched}): {shape} - not one result per entry of the list as the model / parproc() gives',
                      {'correspondence': 'XF file-list entry points', 'entry': fentry, 'options': opts,
                       'files': [{'pid': it[0], 'first': it[1], 'second': it[2], 'text': FILE_TEXTS[it[3]][0],
                                  'suffix': it[4], 'spelling': it[5]} for it in items],
                       'parallel': parallel, 'threads': threads, 'max_workers': mw, 'schedule': sched, 'reraise': reraise,
                       'impl': {'ending': ending, 'results': out, 'paths': [os.path.relpath(p) if p else p for p in paths],
                                'executors': rig.execs, 'notes': rig.notes},
                       'model': model})
    chk.obligation('XF:processing_loop / parproc_visual (summary on and off, legacy name lists) / parproc / parallel_proc on '
                   'real files under the deterministic executor vs ParProc.v (one task per entry of the list)',
                   'correspondence', bad == 0, f'{bad} of {len(runs)} runs differ')
    chk.obligation('OF:exactly one result per entry of the file list, each naming its entry (deterministic executor)',
                   'oracle', obad == 0)

    # 4. the same through the real process pool (multiset only)
    pool_bad = 0
    for pi in range(4 if chk.quick else 24):
        fentry = FENTRIES[(pi + chk.seed) % 6]            # the six file-list entries
        n = rng.choice([4, 7, 11])
        items = []
        for i in range(n):
            if items and rng.random() < 0.3:
                items.append(respell(rng.choice(items), rng.choice(list(SPELLINGS))))
            else:
                items.append((i + 1, rng.choice([f'ret:{i}', f'ret:{i}', 'exc:ValueError', 'obj:1', 'os:EIO']), 'ret:0',
                              texts[0] if rng.random() < 0.3 else rng.choice(texts), rng.choice(FILE_EXTS), 'plain'))
        names = [corpus.name(it) for it in items]
        sys.setrecursionlimit(LIMIT0)
        out, paths = [], []
        try:
            with contextlib.redirect_stderr(io.StringIO()), contextlib.redirect_stdout(io.StringIO()):
                for r in call_file_entry(fentry, names, True, False, rng.choice([1, 2, 3]), dict(PLAIN_OPTS, verbose=pi % 2 == 0)):
                    c, path = file_canon(r)
                    out.append(c)
                    paths.append(path)
            ending = ('done',)
        except Hang:
            raise
        except BaseException as e:   # noqa: BLE001
            ending = ('raised', type(e).__name__)
        plain = [expected_result(shadow(it), False) for it in items]
        chk.case(f'xf-pool:{fentry}:{[it[:5] for it in items]}')
        chk.count('xf.process_pool_runs')
        if ending != ('done',) or Counter(out) != Counter(plain) or Counter(paths) != Counter(str(Path(n_)) for n_ in names):
            pool_bad += 1
            why = 'raised:' + ending[1] if ending[0] == 'raised' else 'lost' if len(out) < n else \
                'duplicated' if len(out) > n else 'different'
            chk.violation(f'xf:process-pool:{why}:entry={fentry}',
                          f'real process pool: {fentry} on a list of {n} file names does not give one result per entry',
                          {'correspondence': 'XF real process pool', 'entry': fentry, 'files': [list(it) for it in items],
                           'impl': {'ending': ending, 'results': out}, 'expected_multiset': plain})
    chk.obligation('XF2:the file-list entry points through the real process pool give one result per entry', 'correspondence',
                   pool_bad == 0)
    ex = runs[len(runs) // 2]
    chk.sample({'xf_entry': ex[2], 'files': [f'{it[0]}:{it[1]}:{FILE_TEXTS[it[3]][0]}:{it[5]}' for it in ex[0]],
                'ending': ex[9][0], 'yielded_payloads': [r[0] for r in ex[9][1]]})


# ------------------------------------------------------------------ X2 real pools
class RealThreads:
    def __enter__(self):
        import tatsu.parproc   # noqa: F401
        pp = sys.modules['tatsu.parproc.parproc']    # (the package attribute `parproc` is the function)
        pm = sys.modules['tatsu.parproc.pmap']
        self.pp, self.pm = pp, pm
        self.saved = (pm.HAS_MULTITHREADING_SUPPORT, pp.HAS_MULTITHREADING_SUPPORT)
        pm.HAS_MULTITHREADING_SUPPORT = True
        pp.HAS_MULTITHREADING_SUPPORT = True
        return self

    def __exit__(self, *a):
        self.pm.HAS_MULTITHREADING_SUPPORT, self.pp.HAS_MULTITHREADING_SUPPORT = self.saved
        return False


class NoCtx:
    def __enter__(self):
        return self

    def __exit__(self, *a):
        return False


def run_x2(chk: Check, mr: ModelRun):
    from tatsu.parproc import parproc
    rng = chk.rng
    cpu = multiprocessing.cpu_count()
    kinds = ['ret'] * 6 + ['exc:ValueError', 'exc:KeyError', 'exc:C18Error', 'exc:C18Type', 'exc:C18Lookup']

    def round_trips(name):
        try:
            return type(pickle.loads(pickle.dumps(make_exc(name)))) is CLASSES[name]
        except Exception:   # noqa: BLE001
            return False

    # capturable classes whose instances survive the trip back from a worker process (the others: D18a)
    capturable = [n for n, c in CLASSES.items() if issubclass(c, Exception) and not issubclass(c, RuntimeError)
                  and round_trips(n)]
    chk.count('x2.capturable_classes', len(capturable))
    wide_kinds = (['exc:' + n for n in capturable] + ['os:' + e for e in ERRNOS]
                  + [f'obj:{k}' for k in range(len(OBJS))])
    # deep recursion only in worker PROCESSES: sys.setrecursionlimit is process-wide, and concurrent threads of a
    # thread pool overwrite each other's limit (thread mode is unreachable on this interpreter; see notes)
    deep_kinds = ['deep:1500:ret:1', 'deep:3000:ret:2', 'deep:9000:ret:3', 'deep:3000:exc:ValueError', 'deep:2000:os:EINTR']
    seconds = ['ret:5', 'exc:ValueError', 'exc:InterruptedError', 'os:ENOENT', 'obj:0']
    deep_seconds = ['deep:1500:ret:6', 'deep:3000:ret:7', 'deep:3000:exc:ValueError']
    cases = []
    nproc, nthr = (6, 6) if chk.quick else (60, 60)
    for it in range(nproc + nthr):
        threads = it >= nproc
        n = rng.choice([2, 3, 5, 8, 12, 20])
        wide = it % 2 == 1
        pool = kinds + ((wide_kinds if threads else wide_kinds + deep_kinds * 4) if wide else [])
        pat = [(rng.choice(pool) if rng.random() < 0.5 else rng.choice(kinds)) for _ in range(n)]
        prop = None
        if it % 6 == 5:
            prop = rng.choice(['exc:RuntimeError', 'exc:RecursionError', 'exc:C18Mixed'])
            pat[rng.randrange(n)] = prop
        payloads = []
        for i, k in enumerate(pat):
            vis = rng.random() < 0.4
            secs = seconds[:2] if not wide else seconds if threads else seconds + deep_seconds
            payloads.append(mk_payload(i + 1, k if k != 'ret' else f'ret:{rng.randint(0, 99)}',
                                       second=rng.choice(secs), visual=vis,
                                       raises=() if (k in ('ret', prop) or spec_effect(k)[0] == 'ret' or is_stop(k)) else rng.choice([(), ('Exception',), ('LookupError', 'ValueError', 'C18Error', 'TypeError', 'OSError')]),
                                       sleep=rng.choice([0, 0, 0.001, 0.003, 0.01, 0.02])))
        cases.append((payloads, threads, rng.choice([1, 2, 3, 4, None]), prop, 'pool'))
    # every capturable class / errno / outcome object once, through a real process pool and a real thread pool
    sweep = wide_kinds
    for threads in (False, True):
        payloads = []
        for i, k in enumerate(sweep):
            payloads.append(mk_payload(2 * i + 1, k, sleep=rng.choice([0, 0, 0.001, 0.002])))
            payloads.append(mk_payload(2 * i + 2, f'ret:{i}'))
        cases.append((payloads, threads, 3, None, 'class-sweep'))
    # the legacy calling convention (func(payload.path) after a TypeError) on deeply nested input, next to new-style
    # deep calls, in worker processes that start with the interpreter's default recursion limit
    payloads = []
    for i, (first, second) in enumerate([('exc:TypeError', 'deep:1500:ret:11'), ('deep:3000:ret:12', 'ret:0'),
                                         ('exc:C18Type', 'deep:3000:ret:13'), ('ret:14', 'ret:0'),
                                         ('deep:1200:exc:TypeError', 'deep:9000:ret:15'),
                                         ('exc:TypeError', 'deep:3000:exc:ValueError'),
                                         ('exc:TypeError', 'deep:2000:os:EINTR'), ('exc:TypeError', 'ret:18')]):
        payloads.append(mk_payload(i + 1, first, second=second, visual=True))
    cases.append((payloads, False, 2, None, 'legacy-deep'))
    # the exception object itself has to travel back from the worker process
    cases.append(([mk_payload(1, 'ret:1'), mk_payload(2, 'exc:C18TwoArg'), mk_payload(3, 'ret:3'), mk_payload(4, 'ret:4')],
                  False, 2, None, 'unpicklable-exception'))
    cases.append(([mk_payload(1, 'ret:1'), mk_payload(2, 'exc:C18TwoArg'), mk_payload(3, 'ret:3')],
                  True, 2, None, 'unpicklable-exception'))
    # many captured exceptions per worker process: the garbage they leave behind (D18b)
    many = []
    for i in range(80):
        many.append(mk_payload(2 * i + 1, ['exc:ValueError', 'exc:KeyError', 'os:EIO', 'exc:EOFError'][i % 4]))
        many.append(mk_payload(2 * i + 2, f'ret:{i}'))
    cases.append((many, False, 3, None, 'many-captured'))

    def real_run(payloads, threads, mw, via=PLAIN_VIA):
        out = []
        mark = None
        sys.setrecursionlimit(LIMIT0)
        with (RealThreads() if threads else NoCtx()):
            try:
                gen = call_entry(via[1], CONTAINERS[via[0]][1](payloads), True, False, mw, {})
                for r in gen:
                    out.append(canon_result(r))
                    if len(out) > 3 * len(payloads) + 5:
                        gen.close()
                        raise RigAbort('more results than payloads: the loop does not terminate')
            except Hang:
                raise
            except BaseException as e:   # noqa: BLE001
                ending = ('raised', type(e).__name__, tuple(mro_ids(type(e))) if type(e) in CLASSES.values() else ())
                remote = str(getattr(e, '__cause__', None) or '')
                if isinstance(e, (TypeError, OSError)) and 'managers.py' in remote and 'task.stop.is_set()' in remote:
                    mark = 'stop-proxy'      # died in the worker inside taskproc's `task.stop.is_set()`, before the try
            else:
                ending = ('done',)
        return ending, out, mark

    reqs = []
    reals = []
    proxy_deaths = 0
    x2_vias = [v for v in VIAS if v[1] != 'parproc_visual']      # (the display wrapper runs under the deterministic executor)
    vias = []
    for ci, (payloads, threads, mw, prop, kind) in enumerate(cases):
        t0 = time.time()
        # the sampled pool runs rotate through the containers and the two plain entry points; the special cases keep
        # the plain list
        via = x2_vias[(11 * ci + 5 * chk.seed) % len(x2_vias)] if kind == 'pool' else PLAIN_VIA
        vias.append(via)
        chk.count('x2.payloads_as.' + via[0])
        chk.count('x2.entry.' + via[1])
        for attempt in range(3):
            # after a death by D18b the run is repeated with the cyclic GC switched off in the worker processes (the
            # defect is recorded once), so that its results can still be compared
            globals()['NO_GC_IN_WORKERS'] = attempt > 0 and kind != 'many-captured'
            try:
                ending, out, mark = real_run(payloads, threads, mw, via)
            finally:
                globals()['NO_GC_IN_WORKERS'] = False
            if mark != 'stop-proxy' and kind != 'many-captured':
                break
            if mark == 'stop-proxy':
                proxy_deaths += 1
                if proxy_deaths == 1:
                    chk.violation('x2:process-pool:stop-proxy-connection-closed-by-gc-in-worker',
                                  'real process pool: after captured exceptions a later task of the same worker died inside '
                                  f'task.stop.is_set() ({ending[1]}), the generator raised it and the remaining payloads got no '
                                  f'result ({len(out)} of {len(payloads)} yielded); pattern {pattern_name(payloads, False)[:200]}',
                                  {'correspondence': 'X2 real pools', 'kind': kind, 'max_workers': mw, 'payloads': len(payloads),
                                   'yielded': len(out), 'ending': ending[:2],
                                   'note': 'timing dependent (cyclic GC in the worker); the run is repeated for the comparison'})
                if kind == 'many-captured':
                    break
        if kind == 'many-captured' and mark == 'stop-proxy':
            ending, out = ('done',), None         # already reported; nothing else to compare in this case
        chk.count('x2.thread_pool_runs' if threads else 'x2.process_pool_runs')
        chk.case(f'x2:{pattern_name(payloads, False)}:{threads}:{mw}:{kind}')
        reals.append((ending, out, time.time() - t0))
        if os.environ.get('C18_TIMES'):
            print(f'x2 {kind} threads={threads} mw={mw} n={len(payloads)} {time.time() - t0:.2f}s', file=sys.stderr)
        tasks = sx([task_sx(p, False) for p in payloads])
        reqs.append(f'(parproc 0 0 0 {cpu} () {tasks})')
    chk.count('x2.stop_proxy_deaths', proxy_deaths)
    bad = 0
    for (payloads, threads, mw, prop, kind), (ending, out, dt), rep, via in zip(cases, reals, mr.ask(reqs), vias):
        m_end = model_ending(rep[0])
        m_out = [model_result(x) for x in rep[1]]
        mode = 'thread' if threads else 'process'
        if out is None:
            continue

        def x2_ok_with(v):
            e2, o2, _ = real_run(payloads, threads, mw, v)
            return e2 == ('done',) and Counter(o2) == Counter(m_out)
        if m_end == ('done',):
            if ending != ('done',) or Counter(out) != Counter(m_out):
                bad += 1
                if kind == 'unpicklable-exception' and not threads and ending[:2] == ('raised', 'BrokenProcessPool'):
                    sig = f'x2:{mode}-pool:captured-exception-does-not-unpickle:{ending[1]}'
                else:
                    why = 'raised:' + ending[1] if ending[0] == 'raised' else \
                        'lost' if len(out) < len(m_out) else 'duplicated' if len(out) > len(m_out) else 'different'
                    sig = f'x2:{mode}-pool:{why}' + ('' if kind in ('pool', 'unpicklable-exception') else ':' + kind)
                    sig += via_suffix(via, x2_ok_with)
                chk.violation(sig, f'real {mode} pool: results are not one per payload / not the sequential multiset for '
                                   f'{pattern_name(payloads, False)} handed to {via[1]}() as {via[0]}, max_workers={mw}',
                              {'correspondence': 'X2 real pools', 'pattern': pattern_name(payloads, False), 'threads': threads,
                               'payloads_as': via[0], 'entry': via[1],
                               'max_workers': mw, 'impl': {'ending': ending, 'results': out},
                               'sequential_model': {'ending': m_end, 'results': m_out}})
        else:
            # a propagating exception: the generator must raise one of the propagating exceptions and what it
            # yielded before must be distinct results of the sequential multiset
            allowed = {tuple(mro_ids(final_effect(p)[1])) for p in payloads
                       if expected_result(p, False) is None and final_effect(p)[0] == 'exc'}
            sub = not (Counter(out) - Counter(expected_result(p, False) for p in payloads))
            if ending[0] != 'raised' or ending[2] not in allowed or not sub:
                bad += 1
                chk.violation(f'x2:{mode}-pool:propagation', f'real {mode} pool: a propagating exception was not raised '
                              f'or invented results for {pattern_name(payloads, False)}',
                              {'correspondence': 'X2 real pools', 'pattern': pattern_name(payloads, False),
                               'impl': {'ending': ending, 'results': out}})
    chk.obligation('X2:real ProcessPoolExecutor / ThreadPoolExecutor runs give the sequential multiset', 'correspondence',
                   not any(v['signature'].startswith('x2:') for v in chk.violations),
                   f'{bad} of {len(cases)} runs differ (listed findings included)')
    chk.sample({'x2_pattern': pattern_name(cases[0][0], False), 'ending': reals[0][0],
                'yielded_payloads': [r[0] for r in reals[0][1]]})


def _alarm(signum, frame):
    raise Hang('C18 harness watchdog: the loop under test hangs')


def main():
    global VisPayload
    chk = Check(PID)
    VisPayload = _make_visual()
    globals()['VisPayload'] = VisPayload
    # the repo's own exception classes (fixed order: the class ids are part of the requests to the model)
    from tatsu import exceptions as tex
    from tatsu.parproc.task import TaskStop
    for c in [TaskStop, tex.TatSuException, tex.ParseException, tex.ParseError, tex.GrammarError, tex.FailedSemantics,
              tex.OptionSucceeded]:
        CLASSES.setdefault(c.__name__, c)
        for k in c.__mro__:
            cid(k)
    chk.rule = ('X1: every schedule (depth-first over the choice points) for task lists of length 0..5 (quick) / 0..6 '
                '(thorough), process pool with max_workers 1,2,3,None and thread pool, patterns: all ok, one captured / '
                'propagating exception at every position, KeyboardInterrupt, reraise, visual retry, all captured; a sweep with '
                'every class of the exception lattice (builtins incl. every errno-mapped OSError subclass built from the errno, '
                'futures / pickle / generator / asyncio classes, the repo\'s own, groups, warnings), every non-int outcome '
                'object and deep recursion (1200..20000 frames, i.e. beyond the default limit and within 2**16) in the middle '
                'of three tasks, and the legacy convention func(payload.path) with every kind of second call; plus sampled '
                'lists up to 14 tasks with random behaviours from all of these, worker counts and schedules; sequential mode '
                'on the same patterns. T1: exception lattice (about 80 classes + errnos + outcome objects + deep first / '
                'second calls, also beyond 2**16) x reraise x raises() sets x visual retry. X2: real pools with sleeps, the '
                'class sweep, legacy-deep and many-captured runs. Hand-over (strengthening 7): the payloads are given as list, '
                'tuple, deque, dict view, objects with only __iter__ / with __len__ / a Sequence, and as one-shot iterators '
                '(generator expression and function, list iterator, map, filter, chain, reversed, iterator object), through '
                'parproc(), parallel_proc() and parproc_visual() (display off): every pair for 0..3 payloads x both '
                'executors and sequential x every schedule, and rotated through all other X1 / X2 run families. '
                'File lists (strengthening 8, XF): real files whose behaviour is in the name and whose text is free (empty, '
                'blank, comment-only, no final newline, CR/LF, non-ASCII, long; 6 suffixes), through processing_loop(), '
                'parproc_visual() with and without its summary and with a legacy list of names, parproc() and '
                'parallel_proc(); lists of 0..3 distinct files x files named once / twice / three times / under another '
                'spelling of the same or of another Path (./, //, sub/.., absolute, through a symlink) x every entry x '
                'every schedule; every text shape at every position, every outcome object and capturable class; sampled '
                'longer lists with verbose / the real progress display / shared payload objects / Path entries / containers; '
                'a few runs through the real process pool. '
                'Non-trivial: parallel with at least two tasks / an '
                'exception is raised; distinct by pattern, mode, worker count and schedule.')
    chk.trusted += ['concurrent.futures: Future, the contract of as_completed (snapshot at the call, each future once, any '
                    'order; the real iterator is driven in half of the X1 runs) and of the pools; multiprocessing (fork), pickle',
                    'modelled: task.py taskproc, pmap.py executor_pmap/process_pmap/thread_pmap, parproc.py parproc; not '
                    'modelled: pickable (oracle: outcome == pickable(raw outcome)), the stop event set from outside, '
                    'imap_pmap/interpreter_pmap (unreachable on 3.12), what summary and the display of parproc_visual print (XF drives both on and off and compares only the results that come out)']
    chk.assumptions += ['the stop event is clear when parproc starts and is only set by a KeyboardInterrupt in a task',
                        'a task runs when its future completes; pickable and payload.raises() do not raise',
                        'results and captured exceptions survive pickling (violations are reported by X2)']
    source_shape(chk)
    chk.coq()
    ok, outp = vlib.build_modelrun('ParProc')
    chk.obligation('modelrun_ParProc builds', 'build', ok, outp[-500:])
    if ok:
        mr = ModelRun('ParProc')
        signal.signal(signal.SIGALRM, _alarm)
        # parproc_visual writes the captured exceptions to ./log/<script>_<time>.log: run in a scratch directory
        cwd0 = os.getcwd()
        scratch = tempfile.mkdtemp(prefix='verif-c18-', dir='/var/tmp')
        try:
            os.chdir(scratch)
            signal.alarm(600 if chk.quick else 3000)
            for phase in (run_table, run_x1, run_files, run_x2):
                t0 = time.time()
                phase(chk, mr)
                if os.environ.get('C18_TIMES'):
                    print(f'{phase.__name__} {time.time() - t0:.2f}s', file=sys.stderr)
        except Hang as e:
            chk.violation('hang', str(e), {'hang': str(e)})
        finally:
            signal.alarm(0)
            os.chdir(cwd0)
            shutil.rmtree(scratch, ignore_errors=True)
    chk.exhaustive = False
    return chk.finish()


if __name__ == '__main__':
    _rc = main()
    if _rc:
        # code under test that loses track of its pool can leave worker processes behind (seen with a stop event
        # shared between runs): the interpreter would wait for them at exit, long after the verdict is out
        sys.stdout.flush()
        sys.stderr.flush()
        os._exit(_rc)
    sys.exit(_rc)
