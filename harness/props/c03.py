"""C03 - left-recursive rules parse, terminate and associate to the left."""
from __future__ import annotations

import re
import sys
from pathlib import Path

sys.path.insert(0, str(Path(__file__).resolve().parent.parent))
import vlib
from vlib import Check, ModelRun
import enginelib as E
import enginegen as G
import enginerun as R

PID = 'C03'

TOK_RE = re.compile(r'\s*(\d+|[a-z]+|[-+*/^()~!])')


class Ref:
    """Independent reference: an iterative (loop) parser for the same language, folding to the left."""

    def __init__(self, g, kind):
        self.g = g
        self.kind = kind
        self.rules = {n: e for n, _, e in g['rules']}
        if g.get('renamed'):             # the reference works on the names of the templates
            import enginegen as _G
            old, new = g['renamed']
            self.rules = {n: e for n, _, e in _G.rename_rule(g['rules'], new, old)}
        first = self.rules['expr']
        if E.kind(first) == 'call':          # aliased
            first = self.rules['e']
        if kind == 'optcall':
            first = self.rules['sum']
        self.postfix = kind == 'postfix'
        self.ops1 = [alt[1][1][1] for alt in first[1] if E.kind(alt) == 'seq' and E.kind(alt[1][-2]) == 'tok'] if E.kind(first) == 'choice' else []
        # operators of the first level, in order of the alternatives
        self.level1 = []
        for alt in first[1]:
            if E.kind(alt) == 'seq':
                ops = [x[1] if E.kind(x) == 'tok' else x[3][1] for x in alt[1] if E.kind(x) == 'tok' or (E.kind(x) == 'named' and E.kind(x[3]) == 'tok')]
                self.level1.append(ops[0])
        self.named = kind == 'named'
        self.tag = None
        if kind == 'tagged':
            alt0 = first[1][0]
            self.tag = E.const_value(alt0[1][0][1])
            self.level1 = [x[1] for x in alt0[1] if E.kind(x) == 'tok'][:1]
        atom_rule = self.rules.get('factor', self.rules['term']) if kind in ('rightmix', 'unary', 'layered') else self.rules['term']
        self.atom_has_paren = E.kind(atom_rule) == 'choice' and any(E.kind(a) == 'seq' and a[1][0] == ('tok', '(') for a in atom_rule[1])
        self.atom_ident = self.atom_has_paren   # the richer atom also accepts identifiers

    def tokenize(self, text):
        toks, pos = [], 0
        while True:
            m = TOK_RE.match(text, pos)
            if not m:
                break
            toks.append(m.group(1))
            pos = m.end()
        rest = text[pos:].strip()
        return toks, rest == ''

    # each parse function returns (value, index) or None
    def atom(self, t, i):
        if i < len(t) and t[i].isdigit():
            return t[i], i + 1
        if self.atom_ident and i < len(t) and t[i].isalpha():
            return t[i], i + 1
        if self.atom_has_paren and i < len(t) and t[i] == '(':
            r = self.expr(t, i + 1)
            if r and r[1] < len(t) and t[r[1]] == ')':
                return ['(', r[0], ')'], r[1] + 1
        return None

    def factor(self, t, i):
        return self.atom(t, i)

    def term(self, t, i):
        if self.kind == 'rightmix':
            r = self.factor(t, i)
            if not r:
                return None
            if r[1] < len(t) and t[r[1]] == '^':
                r2 = self.term(t, r[1] + 1)
                if r2:
                    return [r[0], '^', r2[0]], r2[1]
            return r
        if self.kind == 'unary':
            if i < len(t) and t[i] == '-':
                r = self.term(t, i + 1)
                if r:
                    return ['-', r[0]], r[1]
            return self.factor(t, i)
        if self.kind == 'layered':
            op2 = [x[1] for x in self.rules['term'][1][0][1] if E.kind(x) == 'tok'][0]
            r = self.factor(t, i)
            if not r:
                return None
            v, i = r
            while i < len(t) and t[i] == op2:
                r2 = self.factor(t, i + 1)
                if not r2:
                    break
                v, i = [v, op2, r2[0]], r2[1]
            return v, i
        return self.atom(t, i)

    def expr(self, t, i):
        if self.kind == 'optcall' and i < len(t) and t[i] in ('~', '!'):
            r = self.sum_(t, i + 1)
            return ([t[i], r[0]], r[1]) if r else None
        return self.sum_(t, i)

    def sum_(self, t, i):
        r = self.term(t, i)
        if not r:
            return None
        v, i = r
        while i < len(t) and (t[i] in self.level1 or (self.postfix and t[i] == '(')):
            if self.postfix and t[i] == '(':
                if i + 1 < len(t) and t[i + 1] == ')':
                    v, i = [v, '(', ')'], i + 2
                    continue
                break
            r2 = self.term(t, i + 1)
            if not r2:
                break
            if self.named:
                v = {'dict': {'left': v, 'op': t[i], 'right': r2[0]}}
            elif self.tag is not None:
                v = [self.tag, v, t[i], r2[0]]
            else:
                v = [v, t[i], r2[0]]
            i = r2[1]
        return v, i

    def parse(self, text):
        t, clean = self.tokenize(text)
        if not clean and not t:
            return ('fail', None)
        has_start = self.g['rules'][0][0] == 'start'
        r = self.expr(t, 0)
        if not r:
            return ('fail', None)
        v, i = r
        if has_start:
            if i != len(t) or not clean:
                return ('fail', None)
            return ('ok', v)      # start = expr $ : the sequence value is the expr value alone ($ adds nothing)
        return ('ok', v)


REF_KINDS = {'direct', 'direct2', 'named', 'rightmix', 'unary', 'layered', 'aliased', 'postfix', 'optcall', 'tagged'}


def all_op_strings(maxlen):
    operands = ['1', 'x']
    ops = ['+', '-', '*']
    out = ['']
    frontier = [[o] for o in operands]
    out += [' '.join(f) for f in frontier]
    for _ in range((maxlen - 1) // 2):
        nxt = []
        for f in frontier:
            for op in ops:
                for o in operands:
                    nxt.append(f + [op, o])
        out += [' '.join(f) for f in nxt] + [' '.join(f[:-1]) for f in nxt[:len(nxt) // 3]]
        frontier = nxt
    return out


def shard(col, shard_i, ngrammars, ninputs, exhaustive_len):
    mr = ModelRun('Engine')
    rng = col.rng
    cases = []
    refs = []
    for gi in range(ngrammars):
        g, kind = G.lrec_grammar(rng)
        force_upper = False
        if gi < 2:
            # two grammars per shard whose cycle runs through a helper rule, which is then spelled in upper case (see below)
            for _ in range(60):
                if kind in ('postfix', 'aliased', 'aliased2', 'mutual', 'optcall') and not g.get('renamed'):
                    break
                g, kind = G.lrec_grammar(rng)
            force_upper = True
        col.count('kind.' + kind)
        texts = G.lrec_inputs(rng, ninputs, maxlen=7, g=g)
        if exhaustive_len and gi % 4 == 0:
            texts = texts + all_op_strings(exhaustive_len)
        ref = Ref(g, kind) if kind in REF_KINDS else None
        # a third of the grammars run with a semantics object on the recursive rules: tagging, or returning a plain list
        # holding the node (the seed of the next round is then a list the caller must not extend)
        semspec = ('none', {})
        if gi % 3 == 1:
            names = [n for n, _, _ in g['rules'] if n not in ('start', 'term', 'factor')]
            semspec = ('none', {n: rng.choice(['wrap', 'wrap', 'tag', 'identity']) for n in names if rng.random() < 0.8})
            col.count('semantics.' + '+'.join(sorted(set(semspec[1].values())) or ['none']))
        if kind in ('prefix2', 'direct', 'direct2', 'layered', 'aliased') and 'paren' not in kind and "'('" in E.grammar_text(g):
            # many seeds alive at once on ONE line: deeply nested parentheses around chains (seeds must not be evicted / capped)
            for depth in (4, 6, 9):
                inner = '1'
                for d in range(depth):
                    inner = f'({inner}{rng.choice(["+", "-", "*"])}{d % 3 + 1})'
                texts = texts + [inner, inner + rng.choice(['+2', '-x', '!', '+']), f'{inner}+{inner}']
        if kind == 'selector':
            tn = dict([g['renamed']]) if g.get('renamed') else {}
            o1 = [x[1] for x in E.walk(dict((n, e) for n, _, e in g['rules'])[tn.get('sum', 'sum')]) if E.kind(x) == 'tok'][0]
            o2 = [x[1] for x in E.walk(dict((n, e) for n, _, e in g['rules'])[tn.get('term', 'term')]) if E.kind(x) == 'tok'][0]
            for depth in (1, 2, 3, 5):
                inner = '1'
                for d in range(depth):
                    inner = f'({inner}{o1}{d + 2}){o2}({d}{o1}x)'
                texts = texts + [f'a[{inner}]', f'a[{inner}:5]', f'a[{inner}:{inner}]', f'a.b[{inner}:1].c', f'a[{inner}', f'a[{inner}:]', f'a[1][{inner}:2]']
        # @nomemo on some rules of the grammar - the recursive ones included: seeds are not memos, the rule still grows
        if rng.random() < 0.25:
            g = dict(g)
            g['rules'] = [(n, (d + ['nomemo']) if rng.random() < 0.5 and 'nomemo' not in d else d, e) for n, d, e in g['rules']]
            col.count('grammar.with-nomemo')
        # helper rules of a cycle spelled in upper case (token rules: Primary / FieldAccess style)
        if (gi % 5 == 3 or force_upper) and not g.get('renamed'):
            cand = [n for n, _, _ in g['rules'] if n not in ('start', 'expr') and n.islower()]
            # prefer helper rules that lie ON the cycle (they call back into the recursive rule)
            on_cycle = [n for n, _, e in g['rules'] if n in cand and any(x == ('call', 'expr') for x in E.walk(e))]
            if on_cycle and (force_upper or rng.random() < 0.8):
                cand = on_cycle
            if cand:
                old_name = rng.choice(cand)
                g = dict(g)
                g['rules'] = G.rename_rule(g['rules'], old_name, old_name.capitalize())
                g['renamed'] = (old_name, old_name.capitalize())
                col.count('grammar.upper-case-helper')
                # an upper-case rule does not skip whitespace at its entry: the reference parser (which does) is asked about
                # texts without blanks only
                texts = sorted({t.replace(' ', '') for t in texts})
        # the memo cache may be as small as the engine allows (the setting is clamped to one entry per line): seeds live elsewhere
        settings = None
        if gi % 4 == 2:
            settings = E.Settings(perlinememos=rng.choice([0, 0.0, -1, 0.01, 0.5, 1]))
            col.count('settings.perlinememos')
        for t in texts:
            cases.append(R.Case(g, t, None, settings, semspec, tag=kind))
            refs.append(ref if semspec == ('none', {}) else None)
    results = []
    for off in range(0, len(cases), 400):
        results += R.run_cases(mr, cases[off:off + 400])
    for (c, io, mo, extra), ref in zip(results, refs):
        fp = [E.grammar_text(c.g), c.text, repr(c.semspec)]
        if mo is None:
            col.case(fp, nontrivial=False)
            col.count('uncompilable')
            col.violation(f'compile:{c.tag}:{io}', f'a left-recursive template grammar does not compile: {io}',
                          {'case': c.describe(), 'impl': io})
            continue
        col.case(fp, nontrivial=bool(c.text))
        col.count(f'impl:{io[0]}')
        if io[0] in ('recursion', 'timeout'):
            col.violation(f'oracle:termination:{c.tag}:{io[0]}', f'parsing a left-recursive grammar does not terminate ({io[0]})',
                          {'oracle': 'termination', 'case': c.describe(), 'impl': io})
            continue
        if mo[0] != 'recursion' and io != mo:
            def bad(cc):
                rr = R.run_cases(mr, [cc])[0]
                return rr[2] is not None and rr[2][0] != 'recursion' and rr[1] != rr[2]
            small = R.shrink_case(c, bad, budget=150)
            rr = R.run_cases(mr, [small])[0]
            col.violation(f'E1lrec:{c.tag}:{R.kinds_signature(small)}:impl={rr[1][0]}:model={rr[2][0] if rr[2] else None}',
                          'implementation and model disagree on a left-recursive grammar',
                          {'correspondence': 'E1 left recursion', 'case': small.describe(), 'impl': rr[1], 'model': rr[2]})
        # the generated parser must agree with the model on success / failure and, where C02's known binding differences
        # cannot arise (no names in these templates except the 'named' kind), on the value
        if col.rng.random() < 0.25 or (c.g.get('renamed') and c.g['renamed'][1][:1].isupper()):
            go, _ = R.gen_outcome(c)
            col.count('genparser.compared')
            if isinstance(go, tuple) and go and go[0] in ('ok', 'fail', 'exc', 'recursion') and io[0] in ('ok', 'fail'):
                differs = go[0] != io[0] or (c.tag != 'named' and go != io)
                if differs:
                    col.violation(f'oracle:generated-parser:{c.tag}:{io[0]}-vs-{go[0]}',
                                  'the generated parser and the in-memory model disagree on a left-recursive grammar',
                                  {'oracle': 'generated parser vs model.parse', 'case': c.describe(), 'model.parse': io, 'generated': go})
        if ref is not None:
            want = ref.parse(c.text)
            col.count('ref.compared')
            if want != io:
                signed = c.tag == 'optcall' and c.text.lstrip()[:1] in ('~', '!')
                col.violation(f'oracle:left-assoc:{c.tag}{":cycle-entered-through-non-leader" if signed else ""}:{want[0]}-vs-{io[0]}',
                              f'result differs from the left fold of the longest chain (reference {want}, got {io})',
                              {'oracle': 'iterative reference folded to the left', 'case': c.describe(), 'reference': want, 'impl': io})
    if cases:
        col.sample(cases[len(cases) // 2].describe())


def shard_reuse(col, shard_i, n):
    """one generated parser OBJECT parses several texts in a row: seeds and memos of an earlier text must not survive into the next
    (each call compared with a fresh parser object and with model.parse)"""
    import tatsu
    rng = col.rng

    def outcome(run):
        try:
            return ('ok', E.canon(run()))
        except tatsu.exceptions.FailedParse:
            return ('fail', None)
        except RecursionError:
            return ('recursion', None)
        except Exception as e:  # noqa
            return ('exc', type(e).__name__)
    for _ in range(n):
        g, kind = G.lrec_grammar(rng)
        cls = R.generated_parser(g)
        m = R.compile_grammar(g)
        if isinstance(cls, tuple) or isinstance(m, tuple):
            continue
        texts = G.lrec_inputs(rng, 6, maxlen=7, g=g)
        reused = cls()
        hist = []
        for t in texts:
            hist.append(t)
            a = outcome(lambda: reused.parse(t))
            b = outcome(lambda: cls().parse(t))
            c = outcome(lambda: m.parse(t))
            col.case(['reuse', E.grammar_text(g), repr(hist)], nontrivial=len(hist) > 1)
            col.count('reuse.calls')
            if a != b or (kind != 'named' and a != c) or a[0] != c[0]:
                col.violation(f'oracle:reused-parser:{kind}:reused={a[0]}:fresh={b[0]}:model={c[0]}',
                              'a generated parser object reused for another text differs from a fresh one / from the model',
                              {'oracle': 'reused generated parser', 'grammar': E.grammar_text(g), 'history': hist, 'reused': a, 'fresh': b, 'model.parse': c})
                break


def main():
    chk = Check(PID)
    chk.rule = ('layered expression grammars generated from templates (direct, two-operator direct, aliased, mutual, optional-prefixed, '
                'named, right-recursive mix, unary prefix, two left-recursive layers; with/without start = expr $; atoms with parentheses) x '
                'operator/operand strings: random up to 7 lexemes and, for a quarter of the grammars, all alternating operand/operator strings '
                'up to the length bound. Compared: implementation vs model (seed growing), implementation vs an independent iterative reference '
                'parser folding to the left (for the kinds it covers), termination. Non-trivial: non-empty input.')
    chk.trusted += ['oracles per case from the real Python (re, unicode predicates, resolved ParserConfig, is_lrec / is_memo flags of the optimized grammar: C16)',
                    'the reference parser of this check (an independent loop-based parser for the template languages)']
    chk.coq()
    ok, out = vlib.build_modelrun('Engine')
    chk.obligation('modelrun_Engine builds', 'build', ok, out[-500:])
    if ok:
        if chk.quick:
            vlib.run_sharded(chk, shard, 14, extra=(8, 14, 5))
            vlib.run_sharded(chk, shard_reuse, 14, extra=(6,))
        else:
            vlib.run_sharded(chk, shard, 28, extra=(40, 30, 7))
            vlib.run_sharded(chk, shard_reuse, 28, extra=(40,))
        chk.obligation('E1: left-recursive grammars, implementation vs model', 'correspondence',
                       not any(v['signature'].startswith(('E1lrec', 'compile')) for v in chk.violations))
        chk.obligation('left fold of the longest chain + termination (implementation vs reference)', 'oracle',
                       not any(v['signature'].startswith('oracle:') for v in chk.violations))
    return chk.finish()


if __name__ == '__main__':
    sys.exit(main())
