"""C15 - the shipped bootstrap parser agrees with the shipped TatSu grammar.

(a) T8 (harness/translate/t_boot.py) regenerates coq/gen/BootGen.v from /repo and Properties/C15.v re-decides, in the
    kernel, that GRAMMAR_MODEL is the model of _tatsu.ebnf, that four parsers build the same model from the grammar
    file, that boot/bootstrap.py and boot/bootparser.py are syntactically what the generators emit today, and which
    bindings of the TatSu grammar lie in the fragment where generated code binds names like the interpreter (C02).
(B1) the same regeneration compared as text and as Python syntax, first differing rule reported.
(B2) differential over grammar TEXTS (the quantifier of the property): the shipped generated parser
    (TatSuParserGenerator = boot/bootstrap.py), the grammar compiled from _tatsu.ebnf interpreted with
    GrammarSemantics, boot/bootparser.py (GRAMMAR_MODEL interpreted) and the freshly regenerated parser must make the
    same accept/reject decision (same exception class and position) and build equal models (field-by-field tree,
    pretty(), asjson()); the raw ASTs (ASTSemantics) of the first two are compared as well.  Texts: one generator
    case per production and alternative of _tatsu.ebnf (coverage tracked by the rules that actually succeed and by
    generator tags), the grammar files shipped in /repo, and mutants (insert/delete/transpose/replace/truncate).
"""
from __future__ import annotations

import ast as pyast
import difflib
import json
import re
import signal
import sys
from pathlib import Path

sys.path.insert(0, str(Path(__file__).resolve().parent.parent))
sys.path.insert(0, str(Path(__file__).resolve().parent.parent / 'translate'))
import vlib
from vlib import Check

sys.path.insert(0, str(vlib.REPO))

PID = 'C15'
NAME = 'TatSuBootstrap'
CTX: dict = {}          # filled by the parent before the workers fork


# =========================================================================== grammar-text generator
WORDS = ['a', 'b', 'c', 'foo', 'bar', 'x1', '_u', 'Expr', 'e_2', 'né']
RULES = ['start', 'expr', 'term', 'atom', 'TOKEN', 'Name', 'r2', '_priv', 'list_', 'stmt']
TOKENS = ['a', 'b', '+', '::', '(', '->', 'if', '"', "'", '\\n', 'é', ' ', '{}']
REGEXES = ['a+', r'\d+', r'[a-z]\w*', r'a\/b', r'(?i)x|y', r'\s*', r'[^"]+', r"[^']", r'\\', 'x{2,3}']


class TG:
    """one generated grammar text + the productions/alternatives it was built from"""

    def __init__(self, rng, focus=None):
        self.rng = rng
        self.tags: set[str] = set()
        self.focus = focus
        self.names: list[str] = []
        self.defined: list[str] = []
        self.force_duplicate = False
        self.pending_plain_keyword = False

    def tag(self, t):
        self.tags.add(t)
        return t

    def ch(self, alts, prod):
        """pick one alternative (name, thunk) of production `prod`; the focus alternative is preferred once"""
        if self.focus:
            for n, f in alts:
                if f'{prod}.{n}' == self.focus:
                    self.focus = None
                    self.tag(f'{prod}.{n}')
                    return f()
        n, f = self.rng.choice(alts)
        self.tag(f'{prod}.{n}')
        return f()

    # ---- lexical
    def sp(self):
        r = self.rng.random()
        if r < 0.80:
            return ' '
        if r < 0.88:
            return '\n    '
        if r < 0.91:
            self.tag('comment.(*')
            return ' (* c *) '
        if r < 0.94:
            self.tag('comment./*')
            return ' /* c\n   d */ '
        if r < 0.97:
            self.tag('comment.#')
            return ' # eol\n    '
        self.tag('comment.//')
        return ' // eol\n    '

    def word(self):
        return self.rng.choice(WORDS)

    def quoted(self, s=None):
        s = self.rng.choice(TOKENS) if s is None else s
        alts = [('single', lambda: "'" + s.replace("'", "\\'") + "'"), ('double', lambda: '"' + s.replace('"', '\\"') + '"')]
        if self.rng.random() < 0.9:          # mostly the quote that needs no escaping (the grammar's string patterns cut at \' )
            alts = [a for a, q in zip(alts, "'\"") if q not in s] or alts
        return self.ch(alts, 'STRING')

    def string(self):
        def multi():
            q = self.rng.choice(["'''", '"""'])
            self.tag('multiline_string.' + q)
            return q + self.rng.choice(['ab', 'a\n  b', 'it"s', "x\\ny"]) + q
        return self.ch([('quoted', self.quoted), ('quoted', self.quoted), ('multiline', multi)], 'string')

    def raw_string(self):
        self.tag('raw_string')
        return 'r' + self.rng.choice(["'a\\d'", '"b\\s"', "'c'"])

    def regex(self):
        p = self.rng.choice(REGEXES)
        return self.ch([
            ('/../', lambda: '/' + p + '/'),
            ('/../', lambda: '/' + p + '/'),
            ('?"', lambda: '?"' + (p if '"' not in p else 'q+') + '"'),
            ("?'", lambda: "?'" + (p if "'" not in p else 'q*') + "'"),
            ('deprecated', lambda: '?/' + p + '/?'),
        ], 'regex')

    def number(self):
        # `literal` tries value -> number first: only a leading '+' reaches int, only '+' or a bare '.' reach float
        return self.ch([('int', lambda: self.rng.choice(['+3', '+12', '+0'])),
                        ('float', lambda: self.rng.choice(['+1.5', '-.5', '.25', '+2.e3'])),
                        ('hex', lambda: self.rng.choice(['0x1F', '0Xab'])),
                        ('number', lambda: self.rng.choice(['10', '-1.25e+2', '0', '7', '-12', '1.5', '2.']))], 'literal.num')

    def literal(self):
        return self.ch([
            ('raw_string', self.raw_string),
            ('string', self.string),
            ('number', self.number),
            ('json', lambda: self.rng.choice(['true', 'false', 'null'])),
            ('boolean', lambda: self.rng.choice(['True', 'False'])),
            ('none', lambda: 'None'),
            ('word', self.word),
        ], 'literal')

    # ---- expressions
    def atom(self, d):
        alts = [
            ('token', lambda: self.ch([('string', self.string), ('string', self.string), ('raw_string', self.raw_string)], 'token')),
            ('token', lambda: self.quoted()),
            ('call', lambda: self.rng.choice(self.names)),
            ('call', lambda: self.rng.choice(self.names)),
            ('pattern', self.regex),
            ('meta', lambda: '@' + self.ch([(m, (lambda m=m: m)) for m in ('name', 'int', 'uint', 'float', 'bool')], 'meta')),
            ('dot', lambda: '/./'),
            ('eof', lambda: '$'),
            ('eol', lambda: '$->'),
            ('constant', self.constant),
            ('alert', lambda: '^' * self.rng.choice([1, 1, 2, 3]) + self.constant()),
        ]
        if d > 0:
            alts += [('group', lambda: '(' + self.pad(self.expre(d - 1)) + ')'),
                     ('skip', lambda: '(?:' + self.pad(self.expre(d - 1)) + ')')]
        return self.ch(alts, 'atom')

    def plain_atom(self, d):
        """an atom that an `element` does not read as something else first (element tries meta before term)"""
        for _ in range(20):
            a = self.atom(d)
            if not a.startswith('@'):
                return a
        return "'x'"

    def constant(self):
        return self.ch([
            ('```', lambda: '```' + self.rng.choice(['x', 'a\nb', "it's q"]) + '```'),
            ('`literal`', lambda: '`' + self.literal() + '`'),
            ('`text`', lambda: '`' + self.rng.choice(['two words', '1 + 1', '{x}', '']) + '`'),
        ], 'constant')

    def pad(self, s):
        return (self.sp() if self.rng.random() < 0.7 else '') + s + (self.sp() if self.rng.random() < 0.7 else '')

    def sep_atom(self):
        return self.rng.choice(["','", '";"', '/,/', 'TOKEN' if 'TOKEN' in self.names else "'|'", "('+'|'-')"])

    def braces(self, d):
        return '{' + self.pad(self.expre(d - 1)) + '}'

    def term(self, d):
        alts = [('atom', lambda: self.atom(d))] * 6 + [
            ('void', lambda: '()'),
            ('cut', lambda: '~'),
            ('cut_deprecated', lambda: '>>'),
            ('empty_closure', lambda: '{}'),
            ('negative_void', lambda: '!()'),
        ]
        if d > 0:
            alts += [
                ('positive_gather', lambda: self.sep_atom() + '.' + self.braces(d) + self.rng.choice('+-')),
                ('normal_gather', lambda: self.sep_atom() + '.' + self.braces(d) + self.rng.choice(['', '*'])),
                ('positive_join', lambda: self.sep_atom() + '%' + self.braces(d) + self.rng.choice('+-')),
                ('normal_join', lambda: self.sep_atom() + '%' + self.braces(d) + self.rng.choice(['', '*'])),
                ('left_join', lambda: self.sep_atom() + '<' + self.braces(d) + self.rng.choice('+-')),
                ('right_join', lambda: self.sep_atom() + '>' + self.braces(d) + self.rng.choice('+-')),
                ('positive_closure.{}', lambda: self.braces(d) + self.rng.choice('+-')),
                ('positive_closure.atom+', lambda: self.plain_atom(d - 1) + '+'),
                ('closure.{}', lambda: self.braces(d) + self.rng.choice(['', '*'])),
                ('closure.atom*', lambda: self.plain_atom(d - 1) + '*'),
                ('optional.[]', lambda: '[' + self.pad(self.expre(d - 1)) + ']'),
                ('optional.atom?', lambda: self.plain_atom(d - 1) + '?'),
                ('skip_to', lambda: '->' + self.term(d - 1)),
                ('lookahead', lambda: '&' + self.term(d - 1)),
                ('negative_lookahead', lambda: '!' + self.term(d - 1)),
            ]
        return self.ch(alts, 'term')

    def element(self, d):
        alts = [('term', lambda: self.term(d))] * 5 + [
            ('named_single', lambda: self.word() + self.rng.choice([':', '=']) + self.term(d)),
            ('named_list', lambda: self.word() + self.rng.choice(['+:', '+=']) + self.term(d)),
            ('override_single', lambda: self.rng.choice(['=', '@:']) + self.term(d)),
            ('override_list', lambda: self.rng.choice(['+=', '@+:']) + self.term(d)),
            ('meta', lambda: '@name'),
        ]
        if self.defined:
            alts.append(('rule_include', lambda: '>' + self.rng.choice(self.defined)))
        return self.ch(alts, 'element')

    def sequence(self, d):
        n = self.rng.choice([1, 1, 2, 2, 3])

        def spaced():
            return ''.join(self.element(d) + (self.sp() if i < n - 1 else '') for i in range(n))

        def commas():
            return (',' + self.rng.choice([' ', ''])).join(self.element(d) for _ in range(max(n, 2)))
        def atom_then_qregex():
            # `optional` reads  atom '?'  only when the '?' does not open a regex:  =atom !('?"' | "?'" | '?/') '?'
            p = self.rng.choice(['a+', r'\d', 'x|y'])
            form = self.ch([('?"', lambda: '?"' + p + '"'), ("?'", lambda: "?'" + p + "'"), ('?/', lambda: '?/' + p + '/?')],
                           'optional.not-before')
            return self.plain_atom(d) + self.rng.choice(['', ' ', ' ']) + form + (self.sp() + self.element(d) if n > 2 else '')
        return self.ch([('spaced', spaced)] * 8 + [('commas', commas)] * 2 + [('atom-then-?regex', atom_then_qregex)], 'sequence')

    def expre(self, d):
        def choice():
            k = self.rng.choice([2, 2, 3])
            lead = self.rng.random() < 0.3
            if lead:
                self.tag('choice.leading-bar')
            return ('|' + self.sp() if lead else '') + (self.sp() + '|' + self.sp()).join(self.sequence(d) for _ in range(k))
        return self.ch([('sequence', lambda: self.sequence(d))] * 2 + [('choice', choice)], 'expre')

    # ---- rules, directives, keywords
    def params(self):
        first = self.ch([('path', lambda: self.rng.choice(['a::B', 'x::y::Z'])), ('literal', self.literal)], 'first_param')
        more = ''.join(',' + self.sp() + self.literal() for _ in range(self.rng.choice([0, 0, 1, 2])))
        return first + more

    def kwparams(self):
        self.tag('pair')
        return (',' + self.sp()).join(self.word() + '=' + self.literal() for _ in range(self.rng.choice([1, 1, 2])))

    def the_params(self):
        return self.ch([('kwparams', self.kwparams),
                        ('params+kwparams', lambda: self.params() + ',' + self.sp() + self.kwparams()),
                        ('params', self.params)], 'the_params_at_last')

    def paramdef(self):
        return self.ch([('[]', lambda: '[' + self.the_params() + ']'),
                        ('()', lambda: '(' + self.the_params() + ')'),
                        ('::', lambda: '::' + self.params() + ' ')], 'paramdef')

    def rule(self, name, last, d):
        out = ''
        decs = [self.rng.choice(['name', 'isname', 'nomemo', 'nostak']) for _ in range(self.rng.choice([0, 0, 0, 1, 2]))]
        if name in self.defined and self.rng.random() < 0.9:
            decs.append('override')                                   # a redefinition is valid only with @override
        for dec in decs:
            self.tag('decorator.' + dec)
            out += '@' + dec + self.rng.choice([' ', '\n'])
        out += name
        colon_params = False
        if self.rng.random() < 0.3:
            pd = self.paramdef()
            colon_params = pd.startswith('::')
            out += pd
        if self.defined and self.rng.random() < 0.15:
            self.tag('rule.base')
            out += ' < ' + self.rng.choice(self.defined)
        # after `name::A, b` the grammar's  {',' literal !'=' ~}  refuses a literal followed by '='
        op = self.rng.choice([':', '::=', ':='] if colon_params else ['=', ':', '::=', ':='])
        self.tag('rule.op' + op)
        if self.pending_plain_keyword and out == name:
            # the plain keyword list  {+=(word | string) !(':' | '=')}+  must stop before the name of the next rule
            self.tag('keyword.plain-then-rule' + op[0])
        self.pending_plain_keyword = False
        out += self.rng.choice([' ', '']) + op + self.sp()
        out += self.expre(d)
        ends = ['semicolon'] * 6 + ['blank'] * 3 + ['dedent'] + (['eof'] * 4 if last else [])
        end = self.rng.choice(ends)
        self.tag('ENDRULE.' + end)
        out += {'semicolon': self.rng.choice([' ;', ';']) + self.rng.choice(['\n', '\n\n', ' ']), 'dedent': '\n', 'blank': '\n\n',
                'eof': ''}[end]
        self.defined.append(name)
        return out

    def directive(self):
        def boolean():
            n = self.rng.choice(['nameguard', 'ignorecase', 'left_recursion', 'parseinfo', 'memoization'])
            self.tag('directive.' + n)
            return self.ch([('::bool', lambda: f'@@{n} :: ' + self.rng.choice(['True', 'False'])), ('bare', lambda: f'@@{n}')],
                           'directive.boolean')
        self.pending_plain_keyword = False
        return self.ch([
            ('comments', lambda: '@@comments :: ' + self.regex()),
            ('eol_comments', lambda: '@@eol_comments :: ' + self.regex()),
            # the last alternative of value=(regex | string | 'None' | 'False' | `None`) consumes nothing: the directive
            # is written without a value and the next directive / keyword / rule follows
            ('whitespace', lambda: '@@whitespace ::' + self.ch([('regex', lambda: ' ' + self.regex()), ('string', lambda: ' ' + self.string()),
                                                               ('None', lambda: ' None'), ('False', lambda: ' False'),
                                                               ('empty', lambda: self.rng.choice(['', ' ', '  # none']))],
                                                              'directive.whitespace')),
            ('boolean', boolean), ('boolean', boolean),
            ('grammar', lambda: '@@grammar' + self.rng.choice([' :: ', '::']) + self.rng.choice(['Test', 'my_g'])),
            ('namechars', lambda: '@@namechars :: ' + self.quoted(self.rng.choice(['-', '$-', '']))),
        ], 'directive') + '\n'

    def keyword(self):
        ws = [self.ch([('word', self.word), ('string', lambda: self.quoted(self.rng.choice(['if', 'then', 'x y'])))], 'keyword.item')
              for _ in range(self.rng.choice([1, 2, 3]))]
        def plain():
            self.pending_plain_keyword = True
            return '@@keyword :: ' + ' '.join(ws)

        def parens():
            self.pending_plain_keyword = False
            return '@@keyword :: (' + ' '.join(ws) + ')'
        return self.ch([('parens', parens), ('plain', plain)], 'keyword') + '\n'

    def grammar(self, nrules=None, depth=None):
        n = nrules or self.rng.choice([1, 1, 2, 3, 4])
        d = self.rng.choice([0, 1, 1, 2, 2, 3]) if depth is None else depth
        self.names = self.rng.sample(RULES, n)
        if self.rng.random() < 0.5 and 'start' not in self.names:
            self.names[0] = 'start'
        out = ''
        for _ in range(self.rng.choice([0, 0, 1, 2, 3])):
            out += self.directive() if self.rng.random() < 0.75 else self.keyword()
        todo = list(self.names)
        if self.force_duplicate or (n > 1 and self.rng.random() < 0.1):
            todo.append(todo[0])                                      # a rule defined twice (valid only with @override)
        for i, name in enumerate(todo):
            out += self.rule(name, i == len(todo) - 1, d)
            if self.rng.random() < 0.1 and out.endswith('\n'):
                self.tag('keyword.between-rules' if i < len(todo) - 1 else 'keyword.after-rules')
                out += self.keyword()
        return out


FOCI = None


def all_foci():
    """every (production, alternative) the generator knows: collected by running it a while"""
    global FOCI
    if FOCI is None:
        import random
        r = random.Random(12345)
        seen = set()
        for _ in range(1500):
            g = TG(r)
            g.grammar()
            seen |= {t for t in g.tags}
        FOCI = sorted(seen)
    return FOCI


def focused(rng, tag, small):
    """a generated text whose construction used the alternative / decoration `tag` (None if the generator cannot place it)"""
    for _ in range(400):
        g = TG(rng, focus=tag)
        if tag == 'decorator.override':
            g.force_duplicate = True
        t = g.grammar(nrules=(1 if small else rng.choice([1, 2, 3])), depth=(rng.choice([0, 1]) if small else rng.choice([0, 1, 1, 2])))
        if tag in g.tags:
            return g, t
    return None, None


MUT_CHARS = list("{}[]()<>|;:=+*-?!&~@$^`'\"/\\.,%# \n") + ['::', '@@', '->', '>>', '.{', '%{', '```', "'''", '(?:', '?/', '/?', 'x']


def mutate(rng, s: str) -> str:
    for _ in range(rng.choice([1, 1, 1, 2, 3])):
        if not s:
            return rng.choice(MUT_CHARS)
        i = rng.randrange(len(s))
        k = rng.random()
        if k < 0.3:
            s = s[:i] + s[i + 1:]
        elif k < 0.55:
            s = s[:i] + rng.choice(MUT_CHARS) + s[i:]
        elif k < 0.7 and i + 1 < len(s):
            s = s[:i] + s[i + 1] + s[i] + s[i + 2:]
        elif k < 0.85:
            s = s[:i] + rng.choice(MUT_CHARS) + s[i + 1:]
        elif k < 0.90:
            s = s[:i]
        elif k < 0.95:
            s = s[:i] + s[i].swapcase() + s[i + 1:]
        else:
            j = rng.randrange(len(s))
            a, b = min(i, j), max(i, j)
            s = s[:a] + s[b:]
    return s


# =========================================================================== running the parsers
class Timeout(Exception):
    pass


def _alarm(_s, _f):
    raise Timeout()


def guarded(fn, text, seconds=20):
    """outcome of one parser on one text: ('ok', result) | ('reject', class, pos) | ('crash', class) | ('timeout',)"""
    from tatsu.exceptions import ParseException
    signal.signal(signal.SIGALRM, _alarm)
    signal.setitimer(signal.ITIMER_REAL, seconds)
    try:
        r = fn(text)
        return ('ok', r)
    except Timeout:
        return ('timeout',)
    except ParseException as e:
        pos = getattr(e, 'pos', None)
        return ('reject', type(e).__name__, pos if isinstance(pos, int) else None)
    except RecursionError:
        return ('crash', 'RecursionError')
    except Exception as e:  # noqa: BLE001
        return ('crash', type(e).__name__)
    finally:
        signal.setitimer(signal.ITIMER_REAL, 0)


def make_parsers(ctx):
    from tatsu.boot import bootparser
    from tatsu.boot.boot import TatSuParser, TatSuParserGenerator
    from tatsu.config import ParserConfig
    from tatsu.peg.semantics import GrammarSemantics
    from tatsu.semantics import ASTSemantics
    M, Regen = ctx['M'], ctx['Regen']

    def shipped(text, name=None):
        return TatSuParserGenerator(name).parse(text)

    def interp(text, name=None):
        return M.parse(text, start='start', semantics=GrammarSemantics(name))

    def bootp(text, name=None):
        return bootparser.TatSuBootstrapParser().parse(text, semantics=GrammarSemantics(name))

    def regen(text, name=None):
        # exactly what TatSuParserGenerator.__init__ does, over the regenerated class
        return Regen(config=ParserConfig.new(name=name, semantics=GrammarSemantics(name=name))).parse(text)

    def shipped_ast(text):
        return TatSuParser().parse(text, semantics=ASTSemantics(), parseinfo=False)

    def interp_ast(text):
        return M.parse(text, start='start', semantics=ASTSemantics(), parseinfo=False)

    return {'shipped': shipped, 'interp': interp, 'bootparser': bootp, 'regen': regen}, (shipped_ast, interp_ast)


def canon_model(m):
    """observable identity of a built grammar model"""
    import t_boot
    from tatsu import peg as g
    if not isinstance(m, g.Grammar):
        return ('not-a-grammar', type(m).__name__)
    # the three views are taken separately: a printer that raises on a model (pretty() on directives {'whitespace': None} does,
    # recorded under C13) must not hide the other two from the comparison
    def view(f):
        try:
            return f()
        except Exception as e:  # noqa: BLE001
            return f'<raises {type(e).__name__}>'
    return ('model', t_boot.model_tree(m), view(m.pretty), view(lambda: json.dumps(m.asjson(), sort_keys=True, default=repr)))


def canon(out):
    if out[0] == 'ok':
        try:
            return ('ok',) + canon_model(out[1])
        except Exception as e:  # noqa: BLE001
            return ('ok', 'uncanonical', type(e).__name__, str(e)[:80])
    return out


def kind(o) -> str:
    return o[0] if o[0] in ('ok', 'timeout') else f'{o[0]}:{o[1]}'


def ast_diff(a, b, path=''):
    """first unexplained difference of two raw ASTs (asjson); the known one - empty_closure binds '@' to the token '{}'
    in generated code and to () in the interpreter (C02, last_node) - is counted, not reported"""
    explained = 0
    if a == '{}' and b == []:
        return None, 1
    if type(a) is not type(b):
        return f'{path}: {type(a).__name__} vs {type(b).__name__}', 0
    if isinstance(a, dict):
        if sorted(a) != sorted(b):
            return f'{path}: keys {sorted(a)} vs {sorted(b)}', 0
        for k in sorted(a):
            d, e = ast_diff(a[k], b[k], f'{path}.{k}')
            explained += e
            if d:
                return d, explained
        return None, explained
    if isinstance(a, list):
        if len(a) != len(b):
            return f'{path}: len {len(a)} vs {len(b)}', 0
        for i, (x, y) in enumerate(zip(a, b)):
            d, e = ast_diff(x, y, f'{path}[{i}]')
            explained += e
            if d:
                return d, explained
        return None, explained
    return (None if a == b else f'{path}: {a!r} vs {b!r}'), 0


class CovSem:
    """records which rules of the TatSu grammar reach their semantic action (= succeeded) during one parse"""

    def __init__(self, inner, seen):
        object.__setattr__(self, '_inner', inner)
        object.__setattr__(self, '_seen', seen)

    def __getattr__(self, name):
        self._seen.add(name)
        return getattr(self._inner, name)


OPT_SEEN: set = set()      # branch keys taken during the current coverage parse (see instrument_branches)


def model_kids(n):
    from tatsu import peg as g
    out = []
    for f in ('exp', 'sep'):
        c = getattr(n, f, None)
        if isinstance(c, g.Model):
            out.append(c)
    for f in ('sequence', 'options'):
        out += list(getattr(n, f, None) or ())
    return out


def instrument_branches(Mcov) -> dict:
    """Branch-level view of the TatSu grammar: every option of every choice and the body of every optional of `Mcov` (a
    private compiled copy of _tatsu.ebnf, used for coverage only) records its key in OPT_SEEN each time it SUCCEEDS.
    -> {key: (rule, one-line text of the branch, called rule or None)}.  Rule includes are expanded copies sharing the
    same objects: a shared branch is one branch, named after the first rule it is met in."""
    from tatsu import peg as g
    keys: dict = {}
    done: set = set()

    def wrap(e, key):
        orig = e._parse

        def traced(ctx, _orig=orig, _key=key):
            v = _orig(ctx)
            OPT_SEEN.add(_key)
            return v
        object.__setattr__(e, '_parse', traced)

    def one_line(e):
        try:
            return ' '.join(str(e._pretty(lean=True)).split())[:70]
        except Exception:  # noqa: BLE001
            return type(e).__name__

    for r in Mcov.rules:
        counter = {'choice': 0, 'optional': 0}

        def walk(n, r=r, counter=counter):
            if isinstance(n, g.Choice):
                k = counter['choice']
                counter['choice'] += 1
                for i, o in enumerate(n.options):
                    e = o.exp if isinstance(o, g.Option) else o
                    if id(e) not in done:
                        done.add(id(e))
                        key = f'{r.name}|{k}.{i}'
                        keys[key] = (r.name, one_line(e), e.name if isinstance(e, g.Call) else None)
                        wrap(e, key)
            elif isinstance(n, g.Optional):
                k = counter['optional']
                counter['optional'] += 1
                e = n.exp
                if id(e) not in done:
                    done.add(id(e))
                    key = f'{r.name}?{k}'
                    keys[key] = (r.name, '[' + one_line(e) + ']', None)
                    wrap(e, key)
            for c in model_kids(n):
                walk(c)
        walk(r.exp)
    return keys


def productions_of(ctx, text):
    """the rules of _tatsu.ebnf that succeed at least once while the compiled grammar parses `text`, and the branches
    (choice options, optional bodies) that succeeded"""
    from tatsu.peg.semantics import GrammarSemantics
    from tatsu.util import safe_name
    seen: set = set()
    OPT_SEEN.clear()
    M = ctx.get('Mcov') or ctx['M']
    out = guarded(lambda t: M.parse(t, start='start', semantics=CovSem(GrammarSemantics(None), seen)), text)
    ctx['branches_last'] = set(OPT_SEEN)
    return {r for r in ctx['rulenames'] if r in seen or safe_name(r) in seen}, out[0]


BASE_PRODS = {'start', 'grammar', 'rule', 'expre', 'sequence', 'element', 'term', 'atom', 'ENDRULE', 'EOL', 'DEDENT', 'BLANK', 'word',
              'token', 'string', 'singlequoted', 'doublequoted', 'SINGLEQUOTED', 'DOUBLEQUOTED', 'STRING', 'call', 'option', 'choice'}


def compare(ctx, text, with_ast=True):
    """-> (disagreement or None, outcomes by parser, extra counters)"""
    parsers, (shipped_ast, interp_ast) = ctx['parsers']
    name = ctx.get('name')            # the name given to the generator / GrammarSemantics (None: taken from @@grammar)
    outs = {n: canon(guarded(lambda t, f=f: f(t, name), text)) for n, f in parsers.items()}
    ref = outs['shipped']
    dis = None
    for n in ('interp', 'bootparser', 'regen'):
        if outs[n] != ref:
            dis = ('model', n)
            break
    extra = {}
    if dis is None and with_ast and ref[0] == 'ok':
        a, b = guarded(shipped_ast, text), guarded(interp_ast, text)
        if a[0] != b[0]:
            dis = ('ast-outcome', f'{kind(a)}-vs-{kind(b)}')
        elif a[0] == 'ok':
            from tatsu.util.asjson import asjson
            d, e = ast_diff(asjson(a[1]), asjson(b[1]))
            extra['ast.explained-empty_closure'] = e
            if d:
                dis = ('ast', d)
    return dis, outs, extra


def describe(dis, outs):
    import t_boot
    ref = outs['shipped']
    if dis[0] == 'model':
        o = outs[dis[1]]
        if ref[0] == 'ok' and o[0] == 'ok':
            if ref[1] == 'model' and o[1] == 'model':
                d = t_boot.tree_diff(ref[2], o[2])
                if d:
                    where = '/'.join(c for c, _ in d[0][-3:])
                    return f'models-differ:{where}:{d[1].split(":")[0] if ":" in d[1] else d[1]}', f'{d}'
                return ('pretty-differs' if ref[3] != o[3] else 'asjson-differs'), ''
            return f'results:{ref[1]}-vs-{o[1]}', ''
        if ref[0] == 'reject' and o[0] == 'reject' and ref[1] == o[1]:
            return f'reject-position:{ref[1]}', f'{ref[2]} vs {o[2]}'
        return f'{kind(ref)}-vs-{kind(o)}', ''
    if dis[0] == 'ast':
        return 'raw-ast-differs', dis[1]
    return f'raw-ast:{dis[1]}', ''


def shrink(ctx, text, dis, budget=60):
    """greedy line- then chunk- then character-level reduction keeping the same disagreement class"""
    cls = dis[:2] if dis[0] == 'model' else dis[:1]

    def bad(t):
        nonlocal budget
        if budget <= 0:
            return False
        budget -= 1
        d, _, _ = compare(ctx, t)
        return d is not None and (d[:2] if d[0] == 'model' else d[:1]) == cls

    lines = text.split('\n')
    i = 0
    while i < len(lines) and len(lines) > 1:
        t = '\n'.join(lines[:i] + lines[i + 1:])
        if bad(t):
            lines = lines[:i] + lines[i + 1:]
        else:
            i += 1
    text = '\n'.join(lines)
    size = max(1, len(text) // 4)
    while size >= 1 and budget > 0:
        i = 0
        while i < len(text) and budget > 0:
            t = text[:i] + text[i + size:]
            if t != text and bad(t):
                text = t
            else:
                i += size
        size //= 2
    return text


MAX_REPORTS_PER_SHARD = 3


def report(col, ctx, text, origin, dis, outs):
    col.count('B2.disagreements')
    ctx['reports'] = ctx.get('reports', 0) + 1
    if ctx['reports'] > MAX_REPORTS_PER_SHARD:          # the verdict is already decided; shrinking costs ~60 comparisons each
        col.count('B2.disagreements-not-shrunk-nor-reported')
        return
    small = shrink(ctx, text, dis)
    dis2, outs2, _ = compare(ctx, small)
    if dis2 is None:
        small, dis2, outs2 = text, dis, outs
    what, detail = describe(dis2, outs2)
    prods, _ = productions_of(ctx, small)
    rare = sorted(prods - BASE_PRODS)
    side = dis2[1] if dis2[0] == 'model' else 'shipped-vs-interp'
    sig = f'B2:{side}:{what}:prods={"+".join(rare[:4]) if rare else "base"}'
    col.violation(sig, f'the shipped bootstrap parser and {side} disagree on a grammar text ({what})',
                  {'oracle': 'B2 differential over grammar texts', 'text': small, 'original_text': text if text != small else None,
                   'origin': origin, 'detail': detail,
                   'outcomes': {n: (o[:2] if o[0] == 'ok' else o) for n, o in outs2.items()}})


def shard(col, shard_i, nvalid, nmut, corpus):
    ctx = CTX
    ctx['parsers'] = make_parsers(ctx)
    sys.stderr = open('/dev/null', 'w')           # GrammarSemantics prints a deprecation warning for every `>>`
    rng = col.rng
    foci = all_foci()
    accepted = []

    def run_valid(origin, text, tags, with_ast):
        """-> True when all parsers accepted the text with equal models"""
        ctx['name'] = 'Custom' if rng.random() < 0.25 else None
        dis, outs, extra = compare(ctx, text, with_ast=with_ast)
        k = kind(outs['shipped'])
        col.case(['valid', text], nontrivial=True)
        col.count('generated.' + k)
        for key, v in extra.items():
            if v:
                col.count(key, v)
        if dis:
            report(col, ctx, text, origin, dis, outs)
            return False
        if outs['shipped'][0] != 'ok':
            return False
        accepted.append(text)
        prods, _ = productions_of(ctx, text)
        for p in prods:
            col.count('production.' + p)
        for b in ctx.get('branches_last', ()):
            col.count('branch.' + b)
        for t in tags:
            col.count('alt.' + t)
        for c in re.findall(r'"__class__": "(\w+)"', outs['shipped'][4]):
            col.count('node.' + c)
        if outs['shipped'][3].startswith('<raises '):
            col.count('model.pretty-' + outs['shipped'][3].strip('<>').replace(' ', '-'))
        col.sample({'origin': origin, 'text': text[:300], 'outcome': 'accepted by all four parsers, equal models'})
        return True

    # focused texts per (production, alternative), dealt round-robin to the shards, retried (at most 16 times) until one is
    # accepted; every try is compared like any other text
    for name in [f for i, f in enumerate(foci) if i % ctx['nshards'] == shard_i]:
        for _try in range(16):
            g, t = focused(rng, name, small=_try >= 3)
            if g is None:
                break
            if run_valid('focus:' + name, t, g.tags, with_ast=True):
                col.count('focus-accepted')
                break
        else:
            col.count('focus-not-accepted:' + name)
    for _ in range(nvalid):
        g = TG(rng)
        run_valid('random', g.grammar(), g.tags, with_ast=rng.random() < 0.5)
    for i, (name, t) in enumerate(corpus):
        if i % ctx['nshards'] == shard_i:
            run_valid(f'corpus:{name}', t, set(), with_ast=True)
    # mutants of the accepted texts
    pool = [t for t in accepted if len(t) <= 500] or ["start = 'a' ;"]
    for _ in range(nmut):
        text = mutate(rng, rng.choice(pool))
        ctx['name'] = 'Custom' if rng.random() < 0.25 else None
        dis, outs, extra = compare(ctx, text, with_ast=rng.random() < 0.25)
        col.case(['mutant', text], nontrivial=True)
        col.count('mutant.' + kind(outs['shipped']))
        if dis:
            report(col, ctx, text, 'mutant', dis, outs)


def reachable_rules(M) -> set:
    """rules of the grammar reachable from `start` through calls and includes"""
    from tatsu import peg as g
    rulemap = {r.name: r for r in M.rules}

    def refs(n, acc):
        if isinstance(n, (g.Call, g.RuleInclude)):
            acc.add(n.name)
        for f in ('exp', 'sep'):
            c = getattr(n, f, None)
            if isinstance(c, g.Model):
                refs(c, acc)
        for f in ('sequence', 'options'):
            for c in getattr(n, f, None) or ():
                refs(c, acc)
        return acc

    seen, todo = set(), ['start']
    while todo:
        r = todo.pop()
        if r in seen or r not in rulemap:
            continue
        seen.add(r)
        todo += sorted(refs(rulemap[r].exp, set()) - seen)

    def calls(n, acc):
        if isinstance(n, g.Call):
            acc.add(n.name)
        for f in ('exp', 'sep'):
            c = getattr(n, f, None)
            if isinstance(c, g.Model) and not isinstance(n, g.RuleInclude):
                calls(c, acc)
        for f in ('sequence', 'options'):
            for c in getattr(n, f, None) or ():
                calls(c, acc)
        return acc
    called = {'start'}
    for r in seen:
        called |= calls(rulemap[r].exp, set())
    return seen, called & seen


def unsatisfiable_rules(M, reachable) -> dict:
    """productions that cannot succeed on any text, with the reason (checked, not assumed):
    DEDENT = EOL &/^\\S/ - the pattern has no (?m), so `^` matches at offset 0 of the text only, and DEDENT starts with
    EOL, which consumes a line end: the lookahead is always evaluated at an offset > 0."""
    from tatsu import peg as g
    out = {}
    for r in M.rules:
        if r.name not in reachable:
            continue
        e = r.exp
        seq = list(getattr(e, 'sequence', []) or [])
        if len(seq) == 2 and isinstance(seq[0], g.Call) and seq[0].name == 'EOL' and isinstance(seq[1], g.Lookahead) \
                and isinstance(seq[1].exp, g.Pattern) and seq[1].exp.pattern.startswith('^') and '(?m' not in seq[1].exp.pattern:
            probes = ['\nb', ' \nb', '\r\nb', '\n\nb', 'x\nb', '\n']
            if all(guarded(lambda t: M.parse(t, start=r.name), p)[0] != 'ok' for p in probes):
                out[r.name] = f'EOL followed by a lookahead for /{seq[1].exp.pattern}/ without (?m): ^ never matches after a line end'
    # hex: called from `literal` only, after `value`; value -> number matches the leading 0 of every hex literal and an ordered
    # choice never comes back to a later option once an earlier one succeeded
    rulemap = {r.name: r for r in M.rules}

    def option_name(o):
        e = o.exp if isinstance(o, g.Option) else o
        return e.name if isinstance(e, g.Call) else None

    def calls_of(n, acc):
        if isinstance(n, g.Call):
            acc.add(n.name)
        for f in ('exp', 'sep'):
            c = getattr(n, f, None)
            if isinstance(c, g.Model):
                calls_of(c, acc)
        for f in ('sequence', 'options'):
            for c in getattr(n, f, None) or ():
                calls_of(c, acc)
        return acc
    try:
        lit, hx, num, val = rulemap['literal'], rulemap['hex'], rulemap['number'], rulemap['value']
        order = [option_name(o) for o in lit.exp.options]
        callers = {r.name for r in M.rules if 'hex' in calls_of(r.exp, set())}
        if ('hex' in reachable and callers == {'literal'} and 'value' in order[:order.index('hex')]
                and 'number' in calls_of(val.exp, set()) and isinstance(hx.exp, g.Pattern) and hx.exp.pattern.startswith('0[xX]')
                and isinstance(num.exp, g.Pattern) and re.match(num.exp.pattern, '0x1') and re.match(num.exp.pattern, '0X1')):
            out['hex'] = ('shadowed: `literal` tries `value` before `hex`, and value -> number matches the leading 0 of every text '
                          'hex could match (ordered choice)')
    except (KeyError, AttributeError, ValueError):
        pass
    return out


# =========================================================================== B1
def strip_header(src: str) -> str:
    """the generated header's version line is the only thing allowed to differ"""
    return re.sub(r'(automatically generated by \S+ )v\S+', r'\1v<version>', src, count=1)


def rule_methods(tree: pyast.Module, cls: str):
    for n in tree.body:
        if isinstance(n, pyast.ClassDef) and n.name == cls:
            return {m.name: m for m in n.body if isinstance(m, pyast.FunctionDef)}, n
    return {}, None


def b1(chk: Check, arts):
    py = arts['py']
    results = {}
    for fname, shipped, regen in (('bootstrap.py', py['py_bootstrap'], py['py_bootstrap_regen']),
                                  ('bootparser.py', py['py_bootparser'], py['py_bootparser_regen'])):
        a, b = strip_header(shipped), strip_header(regen)
        text_equal = a == b
        diff = [l for l in difflib.unified_diff(a.split('\n'), b.split('\n'), 'shipped', 'regenerated', lineterm='', n=0)][:20]
        ta, tb = pyast.parse(shipped), pyast.parse(regen)
        ast_equal = pyast.dump(ta) == pyast.dump(tb)
        first = None
        if not ast_equal:
            if fname == 'bootstrap.py':
                ma, _ = rule_methods(ta, NAME + 'Rules')
                mb, _ = rule_methods(tb, NAME + 'Rules')
                for n in list(ma) + [n for n in mb if n not in ma]:
                    if n not in ma or n not in mb or pyast.dump(ma[n]) != pyast.dump(mb[n]):
                        first = 'rule=' + n if n != '__init__' else 'config'
                        break
            if first is None and fname == 'bootparser.py':
                import t_boot
                mt = arts['model_trees']
                d = t_boot.tree_diff(mt['t_boot_model'], mt['t_compiled_opt'])
                if d and d[0] and d[0][0][1] < len(mt['t_boot_model'][2]):
                    first = 'GRAMMAR_MODEL.rule=' + str(dict(mt['t_boot_model'][2][d[0][0][1]][1]).get('name', '?')).strip("'")
                elif d:
                    first = 'GRAMMAR_MODEL.' + d[1].split(':')[0]
            if first is None:
                for i, (x, y) in enumerate(zip(ta.body, tb.body)):
                    if pyast.dump(x) != pyast.dump(y):
                        first = f'stmt={getattr(x, "name", None) or getattr(getattr(x, "targets", [None])[0], "id", None) or i}'
                        break
                else:
                    first = 'length'
            chk.violation(f'B1:{fname}:{first}', f'boot/{fname} is not what the generator produces from _tatsu.ebnf today: first difference at {first}',
                          {'correspondence': 'B1 regeneration', 'file': fname, 'first_difference': first, 'diff': diff})
        results[fname] = {'text_equal_modulo_version': text_equal, 'python_syntax_equal': ast_equal, 'text_diff': diff if not text_equal else []}
        chk.count(f'B1.{fname}.' + ('identical-text' if text_equal else 'text-differs-syntax-equal' if ast_equal else 'syntax-differs'))
        chk.obligation(f'B1: boot/{fname} == regenerated from _tatsu.ebnf (Python syntax; text differences with equal syntax are layout only)',
                       'correspondence', ast_equal, json.dumps(diff)[:1500])
        chk.case(['B1', fname], nontrivial=True)
    # the version recorded in the header vs the running version (informational: stale header, no behaviour)
    from tatsu._version import __version__
    m = re.search(r'automatically generated by \S+ v(\S+)', py['py_bootstrap'])
    results['header_version'] = {'bootstrap.py': m.group(1) if m else None, 'tatsu': __version__}
    # the other shipped copies of the grammar
    g1 = (vlib.REPO / 'grammar' / 'tatsu.ebnf')
    if g1.exists():
        same = g1.read_text() == (vlib.REPO / 'tatsu' / '_tatsu.ebnf').read_text()
        results['grammar/tatsu.ebnf identical to tatsu/_tatsu.ebnf'] = same
        if not same:
            chk.violation('B1:grammar/tatsu.ebnf', 'the two shipped copies of the TatSu grammar differ',
                          {'correspondence': 'B1 grammar copies', 'files': ['grammar/tatsu.ebnf', 'tatsu/_tatsu.ebnf']})
        chk.obligation('B1: grammar/tatsu.ebnf is the same text as tatsu/_tatsu.ebnf', 'correspondence', same)
    chk.extra['B1'] = results


# =========================================================================== main
def run_translator(chk: Check):
    import t_boot
    try:
        arts = t_boot.artefacts()
        src, info = t_boot.translate(arts)
        t_boot.write(src)
        chk.obligation('T8: GRAMMAR_MODEL, compiled/_tatsu.ebnf models, bootstrap.py/bootparser.py syntax, rules as exp -> gen/BootGen.v',
                       'translator', True)
        chk.extra['T8'] = {'tree_sizes': info['sizes'], 'rules': len(info['rules'])}
        return arts, info
    except Exception as e:  # noqa: BLE001  fail closed
        t_boot.OUT.write_text(f'(* translator t_boot failed: {type(e).__name__} *)\nDefinition translator_failed : False := I.\n')
        chk.obligation('T8: GRAMMAR_MODEL, compiled/_tatsu.ebnf models, bootstrap.py/bootparser.py syntax, rules as exp -> gen/BootGen.v',
                       'translator', False, f'{type(e).__name__}: {e}')
        return None, None


def explain_coq_failure(chk: Check, info):
    """when an equality theorem fails, say which node differs (computed on the same trees the Coq terms were printed from)"""
    import t_boot
    tr = info['trees']
    pairs = [('t_boot_model', 't_compiled_opt'), ('t_boot_model_opt', 't_boot_model'), ('t_generated', 't_compiled'), ('t_interp', 't_generated'),
             ('t_bootparser', 't_generated'), ('t_regen', 't_generated'), ('py_bootstrap', 'py_bootstrap_regen'),
             ('py_bootparser', 'py_bootparser_regen')]
    found = False
    for a, b in pairs:
        d = t_boot.tree_diff(tr[a], tr[b])
        if d:
            found = True
            where = '/'.join(f'{c}[{i}]' for c, i in d[0][-4:])
            name = None
            # rule the difference lies in (models: Grammar child; python: method of the Rules class)
            if d[0]:
                top = tr[a][2][d[0][0][1]] if d[0][0][1] < len(tr[a][2]) else None
                if top is not None:
                    name = dict(top[1]).get('name')
                    if a.startswith('py_') and len(d[0]) > 1 and d[0][1][1] < len(top[2]):
                        name = f'{name}.{dict(top[2][d[0][1][1]][1]).get("name")}'
            chk.violation(f'coq:{a}<>{b}:{name}', f'{a} and {b} differ at {where} ({d[1]})',
                          {'theorem': 'equality of regenerated terms (Properties/C15.v)', 'left': a, 'right': b, 'path': [list(x) for x in d[0]],
                           'difference': d[1], 'in': name})
    return found


def main():
    chk = Check(PID)
    chk.rule = ('grammar TEXTS: for every (production, alternative) of _tatsu.ebnf known to the generator one text focused on it, plus random '
                'texts (1-4 rules; directives of every kind, both keyword forms, params/kwparams in [], () and :: form, base rules, decorators, '
                'every term kind incl. gather/join/left and right joins, skip-to, skip groups, @metas, alerts, the three constant forms, raw and '
                'multi-line strings, the four regex forms incl. deprecated ?/../?, >> , $->, comma sequences, the four rule operators and the '
                'four rule terminators, four comment styles), the grammar files shipped in /repo, and mutants (delete/insert/transpose/replace/'
                'truncate/cut) of the accepted ones; each text through 4 parsers (shipped generated, compiled grammar interpreted, bootparser.py, '
                'regenerated) + raw ASTs of two; coverage = rules of _tatsu.ebnf that succeeded in accepted texts, and every choice option / '
                'optional body of the grammar (instrumented private copy) taken in an accepted text, incl. the value-less @@whitespace, '
                'an atom directly before a ?-regex, a plain keyword list directly before a rule header.')
    chk.trusted += ['harness/translate/t_boot.py: serialisation of models / Python syntax trees into btree (fail closed on unknown field types); '
                    'Model.optimized() on the compile side of `GRAMMAR_MODEL = optimized model`',
                    'GrammarSemantics, the generated-code runtime and the regex engine are the real Python (the for-all-texts part is the '
                    'differential B2, not a Coq theorem)',
                    'the code generators pythongen / parsermodel_gen are run, not modelled (B1 compares their output with the shipped files)']
    arts, info = run_translator(chk)
    st = chk.coq()
    if arts is None:
        return chk.finish()
    if not st.get('ok', True) and info is not None:
        if explain_coq_failure(chk, info):
            pass
    b1(chk, arts)

    import t_boot
    CTX['M'] = arts['M']
    try:
        CTX['Regen'] = t_boot.exec_parser(arts['py']['py_bootstrap_regen'])
        chk.obligation('B1: the regenerated parser source loads', 'correspondence', True)
    except Exception as e:  # noqa: BLE001
        chk.obligation('B1: the regenerated parser source loads', 'correspondence', False, f'{type(e).__name__}: {e}')
        return chk.finish()
    CTX['rulenames'] = [r.name for r in arts['M'].rules]
    # a private, instrumented copy of the compiled grammar for branch coverage (another name = another entry of compile()'s cache)
    import tatsu
    Mcov = tatsu.compile(t_boot.ebnf_text(), name=NAME + 'Coverage')
    branch_keys = {}
    if Mcov is not arts['M'] and t_boot.model_tree(Mcov)[2] == t_boot.model_tree(arts['M'])[2]:
        branch_keys = instrument_branches(Mcov)
        CTX['Mcov'] = Mcov
    chk.obligation('B2 coverage: an instrumented private copy of the compiled grammar (same rules) records the branches taken',
                   'oracle', bool(branch_keys))
    corpus = []
    small = ['grammar/calc.ebnf', 'grammar/include.tatsu', 'grammar/calc_model.tatsu', 'examples/calc/grammars/calc_cut.tatsu',
             'examples/calc/grammars/calc_annotated.tatsu', 'examples/calc/grammars/calc_factored.tatsu', 'draft/lisp/lisp.tatsu']
    large = ['tatsu/g2e/antlr.tatsu', 'grammar/pretty.tatsu', 'tatsu/_tatsu.ebnf']
    for rel in small + ([] if chk.quick else large):
        p = vlib.REPO / rel
        if p.exists():
            corpus.append((rel, p.read_text()))
    nshards = 14 if chk.quick else 28
    CTX['nshards'] = nshards
    all_foci()
    if chk.quick:
        vlib.run_sharded(chk, shard, nshards, extra=(8, 30, corpus))
    else:
        vlib.run_sharded(chk, shard, nshards, extra=(60, 160, corpus))

    # production coverage: every rule of _tatsu.ebnf reachable from `start` must have succeeded in some accepted text
    M = arts['M']
    reachable, called = reachable_rules(M)
    unsat = unsatisfiable_rules(M, reachable)
    chk.extra['unsatisfiable_productions'] = unsat
    include_only = sorted(reachable - called)
    reachable = called - set(unsat)
    covered = {k[len('production.'):] for k in chk.dist if k.startswith('production.')}
    missing = sorted(reachable - covered)
    unreachable = sorted(set(CTX['rulenames']) - reachable - set(unsat) - set(include_only))
    foci = all_foci()
    alts_cov = {k[len('alt.'):] for k in chk.dist if k.startswith('alt.')}
    alts_missing = sorted(f for f in foci if f not in alts_cov)
    chk.extra['coverage_productions'] = {
        'rules_in_grammar': len(CTX['rulenames']), 'reachable_from_start': len(reachable), 'covered': len(covered & reachable),
        'missing': missing, 'unreachable_rules_of_the_grammar': unreachable,
        'reached_only_by_rule_include (no rule call of their own; covered through the generator alternatives)': include_only,
        'generator_alternatives': len(foci), 'alternatives_in_accepted_texts': len(alts_cov), 'alternatives_missing': alts_missing,
    }
    chk.obligation('B2 coverage: every production of _tatsu.ebnf reachable from start succeeded in an accepted text', 'oracle',
                   not missing, 'missing: ' + ' '.join(missing))
    chk.obligation('B2 coverage: every generator alternative occurs in an accepted text', 'oracle', not alts_missing,
                   'missing: ' + ' '.join(alts_missing))
    # branch coverage of the grammar itself (not of the generator): every option of every choice and every optional body of a
    # rule reachable from start must have succeeded in an accepted text, unless it calls a production shown unsatisfiable above
    br_cov = {k[len('branch.'):] for k in chk.dist if k.startswith('branch.')}
    br_all = {k: v for k, v in branch_keys.items() if v[0] in reachable or v[0] in include_only}
    br_excused = {k: f'calls `{v[2]}`: {unsat[v[2]]}' for k, v in br_all.items() if v[2] in unsat}
    br_missing = sorted(k for k in br_all if k not in br_cov and k not in br_excused)
    chk.extra['coverage_branches'] = {
        'branches (choice options + optional bodies) of reachable rules': len(br_all), 'taken_in_accepted_texts': len(br_cov & set(br_all)),
        'missing': {k: br_all[k][1] for k in br_missing}, 'excused': br_excused,
    }
    chk.obligation('B2 coverage: every choice option and optional body of _tatsu.ebnf reachable from start was taken in an accepted text',
                   'oracle', bool(br_all) and not br_missing, 'missing: ' + '; '.join(f'{k} {br_all[k][1]}' for k in br_missing))
    chk.obligation('B2: shipped generated parser == compiled grammar interpreted == bootparser.py == regenerated parser on every text', 'oracle',
                   not any(v['signature'].startswith('B2:') for v in chk.violations) and
                   not any(s.startswith('B2:') for s in chk.known_hits))
    return chk.finish()


if __name__ == '__main__':
    sys.exit(main())
