"""C04 - memoization and tracing never change what a parse returns."""
from __future__ import annotations

import itertools
import sys
from pathlib import Path

sys.path.insert(0, str(Path(__file__).resolve().parent.parent))
import vlib
from vlib import Check, ModelRun
import enginelib as E
import enginegen as G
import enginerun as R

PID = 'C04'


def strip_info(c):
    if isinstance(c, dict):
        if 'dict' in c:
            return {'dict': {k: strip_info(v) for k, v in c['dict'].items() if k not in ('parseinfo', '__parseinfo__')}}
        return {k: strip_info(v) for k, v in c.items()}
    if isinstance(c, list):
        return [strip_info(x) for x in c]
    return c


def matrix(rng, lrec: bool, full: bool):
    base = []
    memo_opts = [None] if lrec else [None, False]
    for memo in memo_opts:
        for plm in (None, 0.01, 1):
            for prune in (None, False):
                for pinfo in (None, True):
                    base.append(E.Settings(memoization=memo, perlinememos=plm, prune_memos_on_cut=prune, parseinfo=pinfo))
    extra = [E.Settings(trace=True, colorize=False), E.Settings(trace=True, colorize=True, perlinememos=0.01),
             E.Settings(colorize=True)]
    if full:
        return base + extra
    return [base[0]] + rng.sample(base[1:], 5) + [rng.choice(extra)]


def shard(col, shard_i, ngrammars, ninputs, full):
    mr = ModelRun('Engine')
    rng = col.rng
    groups = []   # (cases for one (g, text)) to compare pairwise
    cases = []
    for gi in range(ngrammars):
        lrec = (gi % 3 == 2)
        if gi % 6 == 1:
            # twin rules: names that differ only by underscores / case, tried at the same position with different outcomes
            base = rng.choice(['item', 'pair', 'tok'])
            twin = rng.choice(['_' + base, base + '_', '_' + base + '_', base.upper()])
            body1 = ('seq', [('pat', r'[a-z]+'), ('tok', rng.choice(['+', '!']))])
            body2 = ('pat', r'[a-z]+') if rng.random() < 0.5 else ('seq', [('pat', r'[a-z]+'), ('opt', ('tok', ','))])
            first, second = ((twin, body1), (base, body2)) if rng.random() < 0.5 else ((base, body1), (twin, body2))
            g = {'rules': [('start', [], ('seq', [('choice', [('seq', [('call', first[0]), ('call', second[0])]), ('call', second[0]), ('call', first[0])]), 'eof'])),
                           (first[0], [], first[1]), (second[0], [], second[1])], 'directives': {}, 'keywords': []}
            texts = ['x', 'x +', 'x + y', 'x!', 'x ! y ,', 'ab', 'ab,', ''][:ninputs]
            col.count('grammar.twins')
            lrec = False
        elif gi % 6 == 4:
            # a rule retried at the same position by a later alternative, while another alternative fails equally far with a
            # failure of ANOTHER class (token / pattern / end of text): which failure is reported must not depend on the memo;
            # and rules handing on the AST of another rule (lone call / override, recursively) with parse information
            P = ('tok', rng.choice(['(', 'a']))
            A = rng.choice([('pat', r'\w+'), ('tok', 'b'), ('seq', [('tok', 'b'), ('pat', r'\d+')])])
            B = rng.choice([('pat', r'\)+'), ('tok', 'c'), 'eof'])
            T1, T2 = ('tok', 'x'), ('tok', 'z')
            hand = rng.choice(['none', 'override-recursive', 'lone-call'])
            rules = [('start', [], ('choice', [('seq', [('call', 'r'), T1]), ('call', 's'), ('seq', [('call', 'r'), T2]),
                                              ('seq', [('tok', 'a'), 'void', ('call', 'Tk'), ('tok', 'x')]), ('seq', [('tok', 'a'), ('call', 'Tk'), ('tok', 'y')]),
                                              ('seq', [('call', 'lst'), ('group', ('seq', [('tok', '!'), ('tok', '!')])), ('tok', 'x')]),
                                              ('seq', [('call', 'lst'), ('opt', ('seq', [('tok', '!'), ('tok', '!')])), ('tok', 'y')]),
                                              ('seq', [('call', 'h'), ('tok', '!')]),
                                              ('seq', [('tok', '('), ('named', False, 'inner', ('call', 'h')), ('tok', ')'), ('tok', '?')]),
                                              ('seq', [('call', 'h'), ('tok', '?')]), ('call', 'h')])),
                     ('r', [], ('seq', [P, A])), ('s', [], ('seq', [P, B])), ('Tk', [], ('pat', r'[b-z]+')),
                     ('lst', [], ('seq', [('over', True, ('tok', 'm')), ('over', True, ('tok', 'n'))]))]
            if hand == 'override-recursive':
                rules.append(('h', [], ('choice', [('seq', [('tok', '('), ('over', False, ('call', 'h')), ('tok', ')')]), ('named', False, 'v', ('pat', r'\w+'))])))
            elif hand == 'lone-call':
                rules += [('h', [], ('call', 'k')), ('k', [], ('named', False, 'v', ('pat', r'\w+')))]
            else:
                rules.append(('h', [], ('named', False, 'v', ('pat', r'\w+'))))
            g = {'rules': rules, 'directives': {}, 'keywords': []}
            texts = ['m n ! ! y', 'm n ! ! x', 'm n y', 'a q y', 'a q x', 'aq y', 'a  q y', '(]', '( ]', '(b', '(b x', '(b z', 'a', 'a b', 'a b 1 z', '(x)', '(x)?', '((x))?', 'x?', 'x', '(', '()', 'a c', '(b 1 y'][:max(ninputs, 19)]
            col.count('grammar.retry-and-handing-on')
            lrec = False
        elif lrec:
            g, kind = G.lrec_grammar(rng)
            texts = G.lrec_inputs(rng, ninputs + 8, g=g)
            col.count('grammar.lrec.' + kind)
        elif gi % 6 == 3:
            # leaf rules whose values are plain strings, so that rejecting / raising actions fire (C06's family)
            from props.c06 import simple_rule_grammar
            g = simple_rule_grammar(rng)
            texts = [t[:40] for t in G.gen_inputs(rng, g, ninputs)]
            col.count('grammar.string-leaves')
        else:
            g = G.gen_grammar(rng, G.GenCfg(cuts=0.08, assoc=0.02), depth=rng.choice([2, 3, 3]))
            texts = [t[:40] for t in G.gen_inputs(rng, g, ninputs)]
            col.count('grammar.plain')
        # @nomemo on some rules (never stored, re-evaluated on every invocation) and, for a third of the grammars, a semantics
        # object whose actions reject (FailedSemantics), raise, tag or replace: memo settings must not change the outcome either way
        if rng.random() < 0.4:
            g = dict(g)
            g['rules'] = [(n, (d + ['nomemo']) if (i > 0 and rng.random() < 0.4 and 'nomemo' not in d) else d, e) for i, (n, d, e) in enumerate(g['rules'])]
            col.count('grammar.with-nomemo')
        if rng.random() < 0.3:
            # @nostak (the rule is kept off the trace stack): no effect on results, whatever the memo settings
            g = dict(g)
            g['rules'] = [(n, (d + ['nostak']) if (i > 0 and rng.random() < 0.5 and 'nostak' not in d) else d, e) for i, (n, d, e) in enumerate(g['rules'])]
            col.count('grammar.with-nostak')
        semspec = ('none', {})
        if gi % 3 == 1 or gi % 6 == 3:
            from props.c06 import targeted_semspec
            semspec = targeted_semspec(rng, g)
            col.count('grammar.with-semantics')
        for t in texts:
            grp = [R.Case(g, t, None, s, semspec, tag='lrec' if lrec else 'plain') for s in matrix(rng, lrec, full)]
            groups.append((len(cases), len(grp)))
            cases += grp
    # model vs implementation under every configuration
    results = []
    for off in range(0, len(cases), 400):
        results += R.run_cases(mr, cases[off:off + 400])
    for (c, io, mo, extra) in results:
        fp = [E.grammar_text(c.g), c.text, c.settings.kwargs(), repr(c.semspec)]
        if mo is None:
            col.case(fp, nontrivial=False)
            col.count('uncompilable')
            continue
        col.case(fp, nontrivial=bool(c.text) and io[0] in ('ok', 'fail'))
        col.count('impl:' + io[0])
        if mo[0] == 'recursion' and io[0] != 'recursion':
            col.count('model-oof')
            continue
        if io != mo:
            def bad(cc):
                rr = R.run_cases(mr, [cc])[0]
                return rr[2] is not None and rr[2][0] != 'recursion' and rr[1] != rr[2]
            small = R.shrink_case(c, bad, budget=200)
            rr = R.run_cases(mr, [small])[0]
            col.violation(f'E1cfg:{R.kinds_signature(small)}:{sorted(small.settings.kwargs())}:impl={rr[1][0]}:model={rr[2][0] if rr[2] else None}',
                          f'implementation and model disagree under settings {small.settings.kwargs()}',
                          {'correspondence': 'E1 x configuration matrix', 'case': small.describe(), 'impl': rr[1], 'model': rr[2]})
    # implementation vs implementation: every configuration must give the same outcome (parseinfo entries erased)
    for (start, n) in groups:
        outs = []
        for i in range(start, start + n):
            c, io, mo, _ = results[i]
            if mo is None:
                continue
            o = (io[0], strip_info(io[1]))
            outs.append((c, o))
            if c.settings.parseinfo and io[0] == 'ok':
                col.count('parseinfo.on')
        if not outs:
            continue
        outs = [(c, o) for c, o in outs if o[0] != 'timeout']     # running time is not part of the property (no verdict)
        if not outs:
            continue
        # with parse information on in both, the parseinfo entries themselves must not depend on the memo settings either
        full = [(results[i][0], results[i][1]) for i in range(start, start + n)
                if results[i][2] is not None and results[i][0].settings.parseinfo and results[i][1][0] == 'ok']
        for c, o in full[1:]:
            col.count('pairs.compared.with-parseinfo')
            if o != full[0][1]:
                col.violation(f'oracle:config-changes-parseinfo:{c.tag}:{sorted(c.settings.kwargs())}',
                              f'the parseinfo entries differ between settings {full[0][0].settings.kwargs()} and {c.settings.kwargs()}',
                              {'oracle': 'same parseinfo under every memo configuration', 'case': c.describe(),
                               'reference_settings': full[0][0].settings.kwargs(), 'reference': full[0][1], 'outcome': o})
        # the class of the reported error and where it is reported are part of the outcome (implementation only)
        fails = [(results[i][0], results[i][0].failure) for i in range(start, start + n)
                 if results[i][2] is not None and results[i][1][0] == 'fail' and results[i][0].failure is not None]
        for c, fl in fails[1:]:
            col.count('pairs.compared.failure-class')
            if fl != fails[0][1]:
                col.violation(f'oracle:config-changes-failure:{c.tag}:{sorted(c.settings.kwargs())}:{fails[0][1][0]}->{fl[0]}',
                              f'the reported failure differs between settings {fails[0][0].settings.kwargs()} and {c.settings.kwargs()}: {fails[0][1]} vs {fl}',
                              {'oracle': 'same error class and position under every configuration', 'case': c.describe(),
                               'reference_settings': fails[0][0].settings.kwargs(), 'reference': list(fails[0][1]), 'failure': list(fl)})
        ref_c, ref = outs[0]
        for c, o in outs[1:]:
            col.count('pairs.compared')
            if o != ref:
                col.violation(f'oracle:config-changes-outcome:{ref_c.tag}:{sorted(c.settings.kwargs())}:{ref[0]}->{o[0]}',
                              f'the outcome differs between settings {ref_c.settings.kwargs()} and {c.settings.kwargs()}',
                              {'oracle': 'same outcome under every configuration', 'case': c.describe(),
                               'reference_settings': ref_c.settings.kwargs(), 'reference': ref, 'outcome': o})
    if cases:
        col.sample(cases[len(cases) // 2].describe())


PROBES = [
    # (grammar, texts): constructs outside the generator's IR; every configuration must give the same outcome (parseinfo entries erased)
    ("start = 'a' ^`note` /[a-z]+/ $ ;", ['a b', 'ab', 'a  b']),
    ("start = 'a' ^^`warn {a}` Tok $ ;\nTok = /[a-z]+/ ;", ['a b', 'ab']),
    ("start = 'a' $-> 'b' $ ;", ['a\nb', 'a b', 'a \n b']),
    ("start = '^'>{num}+ $ ;\nnum = /\\d/ ;", ['2 ^ 3 ^ 2', '2', '2 ^']),
    ("start = '-'<{num}+ $ ;\nnum = /\\d/ ;", ['5 - 2 - 1', '5 -']),
    ("start = b $ ;\na = 'x' ;\nb < a = 'y' ;", ['x y', 'y']),
    ("a = 'x' 'y' ;\nstart = >a 'z' $ ;", ['x y z', 'x z']),
    ("start(A, k=1) = {item}+ $ ;\n@nomemo\nitem = v:/[a-z]/ | n:/\\d/ ;", ['a 1 b', '']),
]


def shard_probes(col, shard_i):
    import tatsu
    import contextlib
    import io
    mats = [dict(), dict(memoization=False), dict(perlinememos=0.01), dict(prune_memos_on_cut=False), dict(parseinfo=True),
            dict(parseinfo=True, memoization=False), dict(trace=True, colorize=False), dict(parseinfo=True, perlinememos=1)]
    for g, texts in PROBES:
        try:
            m = tatsu.compile(g)
        except Exception as e:  # noqa
            col.count('probe.not-compilable:' + type(e).__name__)
            continue
        for t in texts:
            outs = []
            for kw in mats:
                try:
                    with contextlib.redirect_stderr(io.StringIO()), contextlib.redirect_stdout(io.StringIO()):
                        r = m.parse(t, start='start', **kw)
                    outs.append(('ok', strip_info(E.canon(r))))
                except tatsu.exceptions.FailedParse as e:
                    outs.append(('fail', type(e).__name__))
                except Exception as e:  # noqa
                    outs.append(('exc', type(e).__name__))
            col.case(['probe', g, t], nontrivial=True)
            col.count('probe.compared', len(mats) - 1)
            for kw, o in zip(mats[1:], outs[1:]):
                if o != outs[0]:
                    col.violation(f'oracle:config-changes-outcome:probe:{sorted(kw)}:{outs[0][0]}->{o[0]}',
                                  f'the outcome of a probe grammar differs between default settings and {kw}',
                                  {'oracle': 'same outcome under every configuration (probe)', 'grammar': g, 'text': t, 'settings': kw,
                                   'reference': outs[0], 'outcome': o})


def main():
    chk = Check(PID)
    chk.rule = ('random non-left-recursive grammars (cut-heavy) and layered left-recursive template grammars x inputs, each run under a '
                'matrix of settings (rules optionally @nomemo; a third of the grammars with a semantics object whose actions reject, raise, tag or replace) {memoization} x {perlinememos 0.01/1/default} x {prune_memos_on_cut} x {parseinfo} + trace/colorize; '
                'compared (a) implementation vs model under each setting, (b) implementation vs implementation across settings with '
                'parseinfo entries erased. Non-trivial: non-empty input ending in success or ordinary failure; distinct by (grammar, input, settings).')
    chk.trusted += ['oracles per case from the real Python (re, unicode predicates, resolved ParserConfig incl. the memo capacity formula, lrec flags)',
                    'tracing and colouring are outside the model: only the implementation-vs-implementation oracle covers them']
    chk.coq()
    ok, out = vlib.build_modelrun('Engine')
    chk.obligation('modelrun_Engine builds', 'build', ok, out[-500:])
    if ok:
        if chk.quick:
            vlib.run_sharded(chk, shard, 14, extra=(12, 8, False))
            vlib.run_sharded(chk, shard_probes, 1, procs=1)
        else:
            vlib.run_sharded(chk, shard, 28, extra=(30, 10, True))
            vlib.run_sharded(chk, shard_probes, 1, procs=1)
        chk.obligation('E1 x configuration matrix: model.parse(**settings) vs modelrun', 'correspondence',
                       not any(v['signature'].startswith('E1cfg') for v in chk.violations))
        chk.obligation('same outcome under every configuration (implementation only)', 'oracle',
                       not any(v['signature'].startswith('oracle:') for v in chk.violations))
    return chk.finish()


if __name__ == '__main__':
    sys.exit(main())
