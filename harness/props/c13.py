"""C13 - pretty-printed grammars recompile to the same parser and are a fixpoint; railroads have equal width.

Parts:
  O1  implementation oracle over generated grammar models (text-compiled, JSON-reloaded, built
      programmatically the way g2e does): pretty() compiles, is a fixpoint, parses sampled inputs to equal
      ASTs, is built from the same constructors, keeps directives / keywords / params / base / decorators,
      railroads() completes with equal widths.  Families: random grammars (clean / risky pools), the layout
      family (every container around bodies that the printers wrap over several lines), wide random grammars,
      the header family (`@@keyword ::` lists of every length around the width at which the printer starts a new
      line, very long / oddly quoted keywords; rule headers with every parameter value type on plain rules, based
      rules with own / inherited parameters and chains of based rules).
      ANTLR family: random ANTLR grammars (parser rules with literals, rule / token references, parenthesised
      sub-expressions, ~negation of literals / tokens / sets / sub-expressions, ? * + suffixes, labels, alternatives,
      empty alternatives, actions, predicates, rewrites; lexer rules, fragments, tokens{} sections, options) put
      through tatsu.g2e.translate; the translated model goes through the same oracles, with sentences sampled from
      the translated model itself and every rule also used as the start rule.
  P2  quoting level: Pretty.v (py_repr, pattern printer, the string / regex lexers + eval_escapes) vs
      repr(), Token._pretty, Pattern._pretty and tatsu.compile of a one-rule grammar holding the literal.
  P3  Rails.v vs tatsu/railroads/railmath.py on random rails.
"""
from __future__ import annotations

import ast as pyast
import json
import signal
import sys
import unicodedata
from pathlib import Path

sys.path.insert(0, str(Path(__file__).resolve().parent.parent))
import vlib
from vlib import Check, ModelRun, sx, sx_str, Atom

PID = 'C13'


# =====================================================================================================
# grammar specs: plain Python data, rendered to TatSu text (our own conservative renderer), or built with
# the tatsu.peg constructors.
#
#   G = {'directives': [(name, value)], 'keywords': [str], 'rules': [R]}
#   R = {'name', 'decorators': [str], 'params': [..], 'kwparams': [(k, v)], 'base': str|None, 'exp': E,
#        'flags': {..}}   (flags: programmatic-only attributes: no_memo, no_stak, is_tokn, is_name)
#   E = (kind, ...)  see KINDS
# =====================================================================================================

LEAVES = {'tok', 'pat', 'const', 'alert', 'meta', 'call', 'dot', 'eof', 'eol', 'void', 'fail', 'cut', 'empty',
          'include'}
BOX1 = {'group', 'skipgroup', 'opt', 'clo', 'pclo', 'la', 'nla', 'skipto', 'override', 'overridelist'}
NAMED = {'named', 'namedlist'}
JOINS = {'join': '%', 'pjoin': '%', 'gather': '.', 'pgather': '.', 'leftjoin': '<', 'rightjoin': '>'}

# (pattern, samples that it matches)
PATTERNS_CLEAN = [
    (r'[a-z]+', ['abc', 'q']), (r'\d+', ['42', '7']), (r'\w+', ['w1', 'zz']), (r'a|b', ['a', 'b']),
    (r'(?i)ab', ['ab', 'AB']), (r'\\', ['\\']), (r"'", ["'"]), (r'"', ['"']), (r'[^"]', ['k']),
    (r'x\.y', ['x.y']), (r'[+-]?[0-9]', ['+1', '5']), (r'\(', ['(']), (r'#', ['#']), (r'\s*;', [';', ' ;']),
    (r'a/b', ['a/b']), (r'[/]', ['/']), (r'\/', ['/']), (r'//', ['//']), (r"'/", ["'/"]), (r'\\/', ['\\/']),
    (r'\n', ['\n']), (r'é+', ['éé']), (r'[→]', ['→']), (r'\x41', ['A']), (r'a{2}', ['aa']), (r'\}', ['}']),
    (r'`', ['`']), (r'\bif\b', ['if']), (r'(?:ab)+', ['abab']), (r'\$', ['$']), (r'@', ['@']),
]
PATTERNS_RISKY = [
    (r'"/', ['"/']), (r'/"x"', ['/"x"']), (r'\"/', ['"/']), (r"""'"/""", ["""'"/"""]),   # slash and double quote
    (r' +', [' ', '  ']), (r'x ', ['x ']), (' a', [' a']), ('\ta', ['\ta']),               # trimmed by the printer
    ('a\n  b', ['a\n  b']), ('a/\nb', ['a/\nb']), ('a\nb', ['a\nb']),                      # real newlines
    ('.', ['x']),                                                                         # prints as the Dot symbol
    ('', ['']),                                                                           # prints as //
]

TOKENS_CLEAN = ['a', 'b', 'if', 'then', '+', '-', '(', ')', '::', '=>', "'", '"', '\\', "a'b", 'a"b', '\\\\', "\\'",
                '\\"', 'x\\', '\\n', 'é', '→', '~', '`', '/', '//', '#', '{', '}', '[', ']', '|', '$', '@', '?', '*',
                ':', '=', ';', '&', '!', '.', ',', '<', '>', '%', '^', '\x7f', '\x00', '\t', '​', '\U0001f600',
                'A', 'ab', 'ba', 'aa', '((', '"""', "'''", '\\x41', '\\u0041', '\\101', '\\N{DIGIT ONE}', 'a b']
TOKENS_RISKY = ['\'"', '"\'', 'a\'b"c', '\\\'"', '"x\'y"', "'a' \"b\"", '\n', 'a\nb', '\r']

CONSTS_CLEAN = ['abc', '42', 'a b', 'True', '1.5', 'None', 'x_1', "a'b", 'a"b', 'a\\b', '-3', '0x1F', 'é', 'a.b',
                '{x}', 'a + b', '$', '']
CONSTS_RISKY = ['a`b', 'a\nb', '`', ' x ', 'a```b', '\n']

NAMES = ['n', 'val', 'left', 'op', 'x1', 'name_']

# the "wide" family: literals / names long enough that the printers leave their one-line branches (a Sequence wraps
# past 72 columns, a Choice past 0.6 * 72, every box around a wrapped body switches to its multi-line form)
TOKENS_WIDE = ['begin', 'end_of_block', 'otherwise', 'function', 'procedure', 'return', '<<=', '>>>=', '::=', '...',
               'not in', 'is not', 'implements', 'synchronized', '-->', 'where']
PATTERNS_WIDE = [
    (r'[A-Za-z_][A-Za-z_0-9]*', ['ident_1', 'Zq']), (r'[0-9]+(?:\.[0-9]+)?', ['3.25', '17']),
    (r'0[xX][0-9a-fA-F]+', ['0x1F', '0Xa']), (r'--[a-z]+(?:-[a-z]+)*', ['--dry-run', '--x']),
    (r'[+-]?[0-9]+[eE][0-9]+', ['1e9', '-2E10']), (r'"[^"\n]*"', ['"str"', '""']),
]
NAMES_WIDE = ['left_operand', 'right_operand', 'operator_', 'argument_list', 'identifier', 'default_value', 'flag']
META = ['name', 'int', 'uint', 'float', 'bool']
META_SAMPLE = {'name': ['foo', 'x9'], 'int': ['-12', '3'], 'uint': ['7', '10'], 'float': ['1.5', '-0.25'],
               'bool': ['true', 'false']}


def walk(e):
    """all sub-expressions, pre-order"""
    yield e
    k = e[0]
    if k in ('seq', 'choice'):
        for x in e[1]:
            yield from walk(x)
    elif k in BOX1:
        yield from walk(e[1])
    elif k in NAMED:
        yield from walk(e[2])
    elif k in JOINS:
        yield from walk(e[1])
        yield from walk(e[2])


def nullable(e, rules) -> bool:
    k = e[0]
    if k == 'tok':
        return False
    if k == 'pat':
        return True     # conservatively
    if k in ('const', 'alert', 'eof', 'eol', 'void', 'cut', 'empty', 'opt', 'clo', 'la', 'nla', 'fail'):
        return True
    if k in ('meta', 'dot'):
        return False
    if k in ('call', 'include'):
        r = rules.get(e[1])
        return True if r is None else nullable(r['exp'], rules)
    if k == 'seq':
        return all(nullable(x, rules) for x in e[1])
    if k == 'choice':
        return any(nullable(x, rules) for x in e[1])
    if k in ('group', 'skipgroup', 'pclo', 'skipto', 'override', 'overridelist'):
        return nullable(e[1], rules)
    if k in NAMED:
        return nullable(e[2], rules)
    if k in ('join', 'gather'):
        return True
    if k in ('pjoin', 'pgather', 'leftjoin', 'rightjoin'):
        return nullable(e[2], rules)
    return True


class Gen:
    def __init__(self, rng, risky: bool, prog: bool, wide: bool = False):
        self.rng = rng
        self.risky = risky      # may draw from the pools that hit the recorded defects
        self.prog = prog        # may use shapes that only a programmatically built model can have
        self.wide = wide        # long literals / names, long sequences and choices: the printers' multi-line branches
        self.rules: dict = {}
        self.incl_ok = True

    def pick(self, clean, risky, p=0.35):
        if self.risky and self.rng.random() < p:
            return self.rng.choice(risky)
        return self.rng.choice(clean)

    def leaf(self, later):
        r = self.rng
        x = r.random()
        incl = later if self.incl_ok else []
        if self.wide and r.random() < 0.5:
            if x < 0.55:
                return ('tok', r.choice(TOKENS_WIDE))
            if x < 0.85 or not later:
                return ('pat', r.choice(PATTERNS_WIDE)[0])
            return ('call', r.choice(later))
        if x < 0.30:
            return ('tok', self.pick(TOKENS_CLEAN, TOKENS_RISKY))
        if x < 0.45:
            p = self.pick(PATTERNS_CLEAN, PATTERNS_RISKY)
            if p[0] in ('',) and not self.prog:
                p = PATTERNS_CLEAN[0]
            return ('pat', p[0])
        if x < 0.52:
            c = self.pick(CONSTS_CLEAN, CONSTS_RISKY, 0.25)
            return ('const', c if c or not self.wide else 'abc')      # `` has no source form; keep wide grammars expressible
        if x < 0.56:
            c = self.pick(CONSTS_CLEAN, CONSTS_RISKY, 0.15)
            return ('alert', r.randint(1, 3), c if c or not self.wide else 'abc')
        if x < 0.63:
            return ('meta', r.choice(META))
        if x < 0.80 and later:
            return ('call', r.choice(later))
        if x < 0.83:
            return ('dot',)
        if x < 0.86:
            return ('void',)
        if x < 0.89:
            return ('cut',)
        if x < 0.91:
            return ('empty',)
        if x < 0.93 and self.risky:
            return ('eol',)
        if x < 0.95 and self.prog:
            return ('fail',)
        if x < 0.97 and incl:
            return ('include', r.choice(incl))
        return ('tok', r.choice(TOKENS_CLEAN))

    def nonnull(self, e):
        """closure / join bodies must consume input"""
        if nullable(e, self.rules):
            return ('group', ('seq', [('tok', self.rng.choice(['a', ',', ';', 'x', '+'])), self.atomize(e)]))
        return e

    def atomize(self, e):
        """wrap to make e usable where the grammar wants an `atom` / `term`"""
        if e[0] in ('seq', 'choice') or e[0] in NAMED or e[0] in ('override', 'overridelist', 'include'):
            return ('group', e)
        return e

    def atom_only(self, e):
        """separator of a join / gather must be an `atom`"""
        if e[0] in ('tok', 'pat', 'call', 'dot', 'const', 'alert', 'meta', 'eof', 'group', 'skipgroup'):
            return e
        return ('group', e)

    def term(self, depth, later):
        r = self.rng
        if depth <= 0:
            return self.leaf(later)
        x = r.random()
        if x < 0.38:
            return self.leaf(later)
        if x < 0.46:
            return ('group', self.expre(depth - 1, later))
        if x < 0.49:
            return ('skipgroup', self.expre(depth - 1, later))
        if x < 0.57:
            return ('opt', self.expre(depth - 1, later))
        if x < 0.64:
            return ('clo', self.nonnull(self.expre(depth - 1, later)))
        if x < 0.70:
            return ('pclo', self.nonnull(self.expre(depth - 1, later)))
        if x < 0.80:
            kind = r.choice(['join', 'pjoin', 'gather', 'pgather', 'join', 'gather', 'leftjoin', 'rightjoin'])
            sep = self.atom_only(self.nonnull(self.leaf(later)))
            if sep[0] in ('meta',):       # `@int%{..}` is not an atom position the grammar reaches; keep tokens
                sep = ('tok', ',')
            return (kind, sep, self.nonnull(self.expre(depth - 1, later)))
        if x < 0.84:
            return ('la', self.atomize(self.term(depth - 1, later)))
        if x < 0.88:
            return ('nla', self.atomize(self.term(depth - 1, later)))
        if x < 0.92:
            return ('skipto', self.atomize(self.term(depth - 1, later)))
        return self.leaf(later)

    def element(self, depth, later):
        r = self.rng
        x = r.random()
        if x < 0.16:
            return (r.choice(['named', 'named', 'namedlist']), r.choice(NAMES_WIDE if self.wide else NAMES),
                    self.atomize(self.term(depth, later)))
        if x < 0.22:
            return (r.choice(['override', 'override', 'overridelist']), self.atomize(self.term(depth, later)))
        return self.term(depth, later)

    def sequence(self, depth, later):
        n = self.rng.choice(([1, 2, 3, 4, 5, 6, 8] if depth <= 1 else [1, 2, 2, 3]) if self.wide else [1, 1, 2, 2, 3])
        items = [self.element(depth, later) for _ in range(n)]
        if len(items) == 1:
            return items[0]
        return ('seq', items)

    def expre(self, depth, later):
        if self.rng.random() < (0.35 if self.wide else 0.25):
            n = self.rng.choice(([2, 3, 4, 5] if depth <= 1 else [2, 2, 3]) if self.wide else [2, 2, 3])
            return ('choice', [self.sequence(depth, later) for _ in range(n)])
        return self.sequence(depth, later)

    def param(self):
        r = self.rng
        return r.choice(['Foo', 'Bar', 1, 42, 'q r', 'A::B', 1.5, 'x-y', "it's", 'He said "x"', True, None, 'Ünï']
                        if self.risky or self.prog else ['Foo', 'Bar', 1, 42, 'q r', 1.5, 'x-y', "it's"])

    def grammar(self):
        r = self.rng
        nrules = r.choice([1, 2, 2, 3, 3, 4, 5])
        names = ['start'] + [r.choice(['expr', 'term', 'item', 'Tok', 'atom_', 'w', 'NAME', 'thing', '_p']) + str(i)
                             for i in range(1, nrules)]
        rules = []
        self.rules = {}
        # build from the last rule up so that nullability of callees is known
        for i in range(nrules - 1, -1, -1):
            later = names[i + 1:]
            self.incl_ok = i > 0      # an include must name a rule that is defined earlier in the text
            exp = self.expre(r.choice([1, 1, 2, 2] if self.wide else [0, 1, 1, 2, 2]), later)
            if i == 0 and r.random() < 0.7:
                exp = ('seq', [self.atomize(exp), ('eof',)]) if exp[0] != 'seq' else ('seq', exp[1] + [('eof',)])
            rule = {'name': names[i], 'decorators': [], 'params': [], 'kwparams': [], 'base': None, 'exp': exp,
                    'flags': {}}
            if i > 0 and r.random() < 0.25:
                rule['params'] = [self.param() for _ in range(r.choice([1, 1, 2]))]
                if rule['params'] and not isinstance(rule['params'][0], str):
                    rule['params'][0] = 'Node'
            if i > 0 and r.random() < 0.12:
                rule['kwparams'] = [(r.choice(['k', 'kind', 'w']), self.param())]
                if rule['kwparams'][0][1] in (None, True):
                    rule['kwparams'] = [('k', 'v')]
            if i > 0 and r.random() < 0.15:
                d = r.choice(['name', 'isname', 'nomemo', 'nostak'])
                rule['decorators'].append(d)
            if i > 0 and later and r.random() < 0.15:
                # `d < b`: base must be defined BEFORE the based rule in the text; handled by ordering below
                rule['base'] = r.choice(later)
            if self.prog and i > 0 and r.random() < 0.1:
                rule['flags'][r.choice(['no_memo', 'no_stak', 'is_tokn', 'is_name'])] = True
            rules.append(rule)
            self.rules[names[i]] = rule
        rules.reverse()
        # text order: start first, then the others in REVERSE so that bases / includes are "known names"
        rules = [rules[0]] + rules[1:][::-1]
        g = {'directives': [], 'keywords': [], 'rules': rules}
        if r.random() < 0.5:
            g['directives'] = self.directives()
        if r.random() < 0.3:
            kws = ['if', 'then', 'else', 'foo', "it's", 'q"r', 'a b', 'é', 'x9']
            if self.risky:
                kws += ['\'"', 'end\\']
            g['keywords'] = sorted(set(r.choice(kws) for _ in range(r.choice([1, 2, 3, 12]))))
        return g

    def directives(self):
        r = self.rng
        out = []
        cand = [
            ('grammar', ['Foo', 'Calc9']),
            ('nameguard', [True, False]), ('ignorecase', [False, False, True] if self.risky else [False]),
            ('left_recursion', [True, False]),
            ('parseinfo', [True, False]), ('memoization', [True, False]),
            ('namechars', ['-', '-_', "'", '"', '$.'] + (['\'"'] if self.risky else [])),
            ('whitespace', [r'[ \t]+', r'\s+', ' ', r'[\t ]+', r'[ /]+', r'["]+'] +
             (['', r'["/]+', None] if self.risky else [])),
            ('comments', [r'\(\*.*?\*\)', r'/\*.*?\*/', r'\{[^}]*\}'] + ([r'/"[^"]*"/'] if self.risky else [])),
            ('eol_comments', [r'#.*?$', r'//.*?$', r'--[^\n]*'] + ([r'"/.*?$'] if self.risky else [])),
        ]
        for name, vals in cand:
            if r.random() < 0.25:
                out.append((name, r.choice(vals)))
        return out


# ---------------------------------------------------------------------------------------------------
# rendering a spec as TatSu source (independent of the code under test; always escapes conservatively)

def src_string(s: str) -> str:
    """a single-quoted TatSu string whose eval_escapes value is s (never contains a raw quote or newline)"""
    out = []
    for c in s:
        if c.isascii() and (c.isalnum() or c in ' !#$%&()*+,-./:;<=>?@[]^_`{|}~'):
            out.append(c)
        elif c == '\\':
            out.append('\\\\')
        elif ord(c) < 0x100:
            out.append('\\x%02x' % ord(c))
        elif ord(c) < 0x10000:
            out.append('\\u%04x' % ord(c))
        else:
            out.append('\\U%08x' % ord(c))
    return "'" + ''.join(out) + "'"


class NotExpressible(Exception):
    pass


def src_pattern(p: str) -> str:
    if p == '.':
        return "?'.'"
    if '/' not in p and p:
        return '/' + p + '/'
    if '"' not in p and '\n' not in p:
        return '?"' + p + '"'
    if "'" not in p and '\n' not in p:
        return "?'" + p + "'"
    raise NotExpressible('pattern ' + repr(p))


def src_const(c: str) -> str:
    if '\n' in c or '`' in c:
        if '```' in c:
            raise NotExpressible('constant')
        return '```' + c + '```'
    if c == '' or c != c.strip():
        raise NotExpressible('constant')
    return '`' + c + '`'


def src_exp(e) -> str:
    k = e[0]
    if k == 'tok':
        if not e[1]:
            raise NotExpressible('empty token')
        return src_string(e[1])
    if k == 'pat':
        return src_pattern(e[1])
    if k == 'const':
        return src_const(e[1])
    if k == 'alert':
        return '^' * e[1] + src_const(e[2])
    if k == 'meta':
        return '@' + e[1]
    if k == 'call':
        return e[1]
    if k == 'include':
        return '>' + e[1]
    if k == 'dot':
        return '/./'
    if k == 'eof':
        return '$'
    if k == 'eol':
        return '$->'
    if k == 'void':
        return '()'
    if k == 'fail':
        raise NotExpressible('fail')
    if k == 'cut':
        return '~'
    if k == 'empty':
        return '{}'
    if k == 'seq':
        return ' '.join(src_exp(x) for x in e[1])
    if k == 'choice':
        return ' | '.join(src_exp(x) for x in e[1])
    if k == 'group':
        return '(' + src_exp(e[1]) + ')'
    if k == 'skipgroup':
        return '(?:' + src_exp(e[1]) + ')'
    if k == 'opt':
        return '[' + src_exp(e[1]) + ']'
    if k == 'clo':
        return '{' + src_exp(e[1]) + '}'
    if k == 'pclo':
        return '{' + src_exp(e[1]) + '}+'
    if k == 'la':
        return '&' + src_exp(e[1])
    if k == 'nla':
        return '!' + src_exp(e[1])
    if k == 'skipto':
        return '->' + src_exp(e[1])
    if k == 'override':
        return '=' + src_exp(e[1])
    if k == 'overridelist':
        return '+=' + src_exp(e[1])
    if k == 'named':
        return e[1] + '=' + src_exp(e[2])
    if k == 'namedlist':
        return e[1] + '+=' + src_exp(e[2])
    if k in JOINS:
        plus = '+' if k in ('pjoin', 'pgather', 'leftjoin', 'rightjoin') else ''
        return src_exp(e[1]) + JOINS[k] + '{' + src_exp(e[2]) + '}' + plus
    raise ValueError(k)


def src_param(p, first=False) -> str:
    if isinstance(p, str):
        if p.isidentifier() and p.isascii():
            return p
        # a path is only read in the first position (`params: +=first_param {',' +=literal}`; first_param: path | literal)
        if first and all(x.isidentifier() and x.isascii() for x in p.split('::')) and '::' in p:
            return p
        return src_string(p)
    return repr(p)


def src_grammar(g) -> str:
    out = []
    for name, value in g['directives']:
        if name in ('comments', 'eol_comments'):
            out.append(f'@@{name} :: {src_pattern(value)}')
        elif name == 'whitespace':
            out.append(f'@@{name} :: ' + ('None' if value is None else src_pattern(value)))
        elif name == 'namechars':
            out.append(f'@@{name} :: {src_string(value)}')
        else:
            out.append(f'@@{name} :: {value}')
    for i in range(0, len(g['keywords']), 4):
        out.append('@@keyword :: ' + ' '.join(src_string(k) for k in g['keywords'][i:i + 4]))
    if out:
        out.append('')
    for r in g['rules']:
        if r['flags']:
            raise NotExpressible('flags')
        for d in r['decorators']:
            out.append('@' + d)
        head = r['name']
        ps = [src_param(p, i == 0) for i, p in enumerate(r['params'])] + [f'{k}={src_param(v)}' for k, v in r['kwparams']]
        if ps:
            head += '[' + ', '.join(ps) + ']'
        if r['base']:
            head += ' < ' + r['base']
        out.append(head + ': ' + src_exp(r['exp']))
        out.append('')
    return '\n'.join(out) + '\n'


# ---------------------------------------------------------------------------------------------------
# building the model with the tatsu.peg constructors (as tatsu/g2e/semantics.py does)

def build_exp(e, g):
    k = e[0]
    if k == 'tok':
        return g.Token(token=e[1])
    if k == 'pat':
        return g.Pattern(pattern=e[1])
    if k == 'const':
        return g.Constant(literal=e[1])
    if k == 'alert':
        return g.Alert(literal=e[2], level=e[1])
    if k == 'meta':
        return {'name': g.NameMeta, 'int': g.IntMeta, 'uint': g.UIntMeta, 'float': g.FloatMeta,
                'bool': g.BoolMeta}[e[1]]()
    if k == 'call':
        return g.Call(name=e[1])
    if k == 'include':
        return g.RuleInclude(name=e[1])
    if k == 'dot':
        return g.Dot()
    if k == 'eof':
        return g.EOF()
    if k == 'eol':
        return g.EOL()
    if k == 'void':
        return g.Void()
    if k == 'fail':
        return g.Fail()
    if k == 'cut':
        return g.Cut()
    if k == 'empty':
        return g.EmptyClosure()
    if k == 'seq':
        return g.Sequence(sequence=[build_exp(x, g) for x in e[1]])
    if k == 'choice':
        return g.Choice(options=[g.Option(exp=build_exp(x, g)) for x in e[1]])
    one = {'group': g.Group, 'skipgroup': g.SkipGroup, 'opt': g.Optional, 'clo': g.Closure,
           'pclo': g.PositiveClosure, 'la': g.Lookahead, 'nla': g.NegativeLookahead, 'skipto': g.SkipTo,
           'override': g.Override, 'overridelist': g.OverrideList}
    if k in one:
        return one[k](exp=build_exp(e[1], g))
    if k == 'named':
        return g.Named(name=e[1], exp=build_exp(e[2], g))
    if k == 'namedlist':
        return g.NamedList(name=e[1], exp=build_exp(e[2], g))
    two = {'join': g.Join, 'pjoin': g.PositiveJoin, 'gather': g.Gather, 'pgather': g.PositiveGather,
           'leftjoin': g.LeftJoin, 'rightjoin': g.RightJoin}
    if k in two:
        return two[k](exp=build_exp(e[2], g), sep=build_exp(e[1], g))
    raise ValueError(k)


def build_grammar(spec):
    from tatsu import peg as g
    rules = {}
    out = []
    for r in spec['rules']:
        kw = dict(name=r['name'], exp=build_exp(r['exp'], g), params=tuple(r['params']),
                  kwparams=dict(r['kwparams']), decorators=list(r['decorators']))
        kw.update(r['flags'])
        if r['base']:
            rule = g.BasedRule(baserule=rules[r['base']], base=r['base'], **kw)
        else:
            rule = g.Rule(**kw)
        rules[r['name']] = rule
        out.append(rule)
    directives = {}
    for name, value in spec['directives']:
        directives[name] = '' if (name == 'whitespace' and value is None) else value
    return g.Grammar('Prog', out, directives=directives, keywords=tuple(spec['keywords']))


# ---------------------------------------------------------------------------------------------------
# sample sentences

PAT_SAMPLES = dict(PATTERNS_CLEAN + PATTERNS_RISKY + PATTERNS_WIDE)
EXTRA_PAT_SAMPLES: dict = {}      # samples of patterns that are not from the pools (filled by model_spec: ANTLR family)
SENT = {'tease': False}           # tease: now and then put the operand of a negative lookahead where it must not be


NOSP = '\x01'      # marks a piece of a sentence that must not be preceded by blanks


def sentence(e, rules, rng, depth=0, rich=False) -> str:
    """a sentence of e.  rich: every optional part is taken and every repetition runs at least twice, so that the
    text holds separators / repeated items (what tells a join from a gather, a closure from a group, ...).
    Patterns and the dot do not skip whitespace (only tokens, metas and rule calls do): their samples are glued to
    what precedes them (NOSP, removed by sample_inputs)."""
    k = e[0]
    sp = rng.choice([' ', ' ', ' ', '', '  '])

    def sub(x, d=depth):
        return sentence(x, rules, rng, d, rich)

    def cat(parts):
        out = ''
        for i, p in enumerate(parts):
            if p == '':
                continue
            out += p if (not out or p.startswith(NOSP)) else sp + p
        return out
    if k == 'tok':
        return e[1]
    if k == 'pat':
        return NOSP + rng.choice(PAT_SAMPLES.get(e[1]) or EXTRA_PAT_SAMPLES.get(e[1], ['']))
    if k == 'meta':
        return rng.choice(META_SAMPLE[e[1]])
    if k in ('call', 'include'):
        r = rules.get(e[1])
        if not r or depth >= 8:
            return ''
        t = sentence(r['exp'], rules, rng, depth + 1, rich and depth < 1)
        b = rules.get(r.get('base')) if k == 'call' else None
        if b is not None:
            # a based rule parses the expression of its base rule (the base's OWN expression, not that of the
            # base's base: BasedRule.rhs = Sequence[baserule.exp, exp]) and then its own
            t = cat([sentence(b['exp'], rules, rng, depth + 1, False), t])
        return t.lstrip(NOSP) if k == 'call' else t      # a rule call skips blanks first
    if k == 'dot':
        return NOSP + rng.choice('x9+')
    if k == 'eol':
        return '\n'
    if k in ('const', 'alert', 'eof', 'void', 'cut', 'empty', 'nla', 'fail'):
        return ''
    if k == 'la':
        return ''
    if k == 'seq':
        parts = []
        skip = False
        for i, x in enumerate(e[1]):
            if skip:
                skip = False
                continue
            if x[0] == 'la' and i + 1 < len(e[1]):
                continue
            if SENT['tease'] and x[0] == 'nla' and i + 1 < len(e[1]) and rng.random() < 0.25:
                parts.append(sub(x[1]))      # what the lookahead forbids, in place of the element it guards
                skip = True
                continue
            parts.append(sub(x))
        return cat(parts)
    if k == 'choice':
        return sub(rng.choice(e[1]))
    if k in ('group', 'skipgroup', 'override', 'overridelist'):
        return sub(e[1])
    if k in NAMED:
        return sub(e[2])
    if k == 'opt':
        return sub(e[1]) if rich or rng.random() < 0.6 else ''
    if k in ('clo', 'pclo'):
        n = rng.choice([2, 3]) if rich else rng.choice([0, 1, 2, 3]) if k == 'clo' else rng.choice([1, 2, 3])
        return cat([sub(e[1]) for _ in range(n)])
    if k == 'skipto':
        return cat([rng.choice(['', 'zz', '1 2', '?']), sub(e[1])])
    if k in JOINS:
        n = rng.choice([2, 3]) if rich else rng.choice([0, 1, 2, 3]) if k in ('join', 'gather') else rng.choice([1, 2, 3])
        parts = []
        for i in range(n):
            if i:
                parts.append(sub(e[1]))
            parts.append(sub(e[2]))
        return cat(parts)
    return ''


def sample_inputs(spec, rng, n=4, rich=0):
    rules = {r['name']: r for r in spec['rules']}
    start = spec['rules'][0]
    out = ['']
    for _ in range(n):
        s = sentence(start['exp'], rules, rng)
        out.append(s)
    # mutated
    for s in list(out[1:3]):
        if s:
            i = rng.randrange(len(s))
            out.append(s[:i] + s[i + 1:])
            out.append(s[:i] + rng.choice(['x', ' ', '9', '\n']) + s[i:])
    for _ in range(rich):
        s = sentence(start['exp'], rules, rng, rich=True)
        if len(s) <= 600:
            out.append(s)
    seen = []
    for s in out:
        s = s.replace(NOSP, '')
        if s not in seen:
            seen.append(s)
    return seen


# ---------------------------------------------------------------------------------------------------
# the oracle on one model

class Timeout(BaseException):
    """not an Exception: an `except Exception` inside the code under test must not swallow it"""


def _alarm(signum, frame):
    raise Timeout()


def guarded(fn, secs=5):
    """run fn() under a budget of CPU seconds of this process (ITIMER_PROF: independent of the load of the machine,
    so a budget overrun is reproducible).  The timer keeps firing every half second until it is cancelled: a Timeout
    raised inside a destructor / weakref callback is discarded by the interpreter."""
    old = signal.signal(signal.SIGPROF, _alarm)
    signal.setitimer(signal.ITIMER_PROF, secs, 0.5)
    try:
        return fn()
    finally:
        signal.setitimer(signal.ITIMER_PROF, 0)
        signal.signal(signal.SIGPROF, old)


def canon(x):
    """AST -> comparable JSON-like value (no ids / parseinfo)"""
    from tatsu.util import asjson
    try:
        return json.dumps(asjson(x), sort_keys=True, default=repr)
    except Exception:
        return repr(x)


def parse_outcome(model, text, start=None):
    from tatsu.exceptions import ParseException
    try:
        if start is not None:
            return ('ok', canon(guarded(lambda: model.parse(text, start=start), 2)))
        return ('ok', canon(guarded(lambda: model.parse(text), 2)))
    except Timeout:
        return ('timeout',)
    except RecursionError:
        return ('err', 'RecursionError')
    except ParseException as e:
        return ('fail',)     # the failure class / message is not part of the property
    except Exception as e:
        return ('err', type(e).__name__)


def rule_attrs(rule):
    return {
        'params': [repr(p) for p in (rule.params or ())],
        'kwparams': sorted((k, repr(v)) for k, v in (rule.kwparams or {}).items()),
        'base': rule.base or None,
        'is_name': bool(rule.is_name),
        'is_tokn': bool(rule.is_tokn),
        'no_memo': bool(rule.no_memo),
        'no_stak': bool(rule.no_stak),
        'basedrule': type(rule).__name__ == 'BasedRule',
    }


def ulen(s: str) -> int:
    return sum(1 + int(unicodedata.east_asian_width(c) in ('W', 'F')) for c in s)


def shape(node):
    """constructor tree of a model node: (class name [+ the name it binds / calls], children).  Two spellings of
    the same parser that the printers may legitimately exchange are identified: Fail prints as `!()` and the
    pattern `.` prints as the Dot symbol `/./`."""
    t = type(node).__name__
    if t == 'Synth':      # g2e's placeholder for a token referenced before its rule: parses and prints as its content
        return shape(node.exp)
    if t == 'Fail':
        return ('NegativeLookahead', (('Void', ()),))
    if t == 'Pattern' and getattr(node, 'pattern', None) == '.':
        return ('Dot', ())
    if t in ('Named', 'NamedList', 'Call', 'RuleInclude', 'Rule', 'BasedRule'):
        t += ':' + str(getattr(node, 'name', ''))
    kids = tuple(shape(c) for c in node.children())
    if t == 'Sequence':
        # a Sequence placed directly in a Sequence (only a constructor-built model can have one) prints flat, and a
        # Sequence of one element prints as the element: same text, same parser
        flat = []
        for k in kids:
            flat += list(k[1]) if k[0] == 'Sequence' else [k]
        if len(flat) == 1:
            return flat[0]
        kids = tuple(flat)
    if t == 'Choice':      # likewise a Choice placed directly in an option of a Choice prints as more options
        flat = []
        for k in kids:
            inner = k[1][0] if k[0] == 'Option' and len(k[1]) == 1 else None
            flat += list(inner[1]) if inner and inner[0] == 'Choice' else [k]
        kids = tuple(flat)
    return (t, kids)


def shape_diff(a, b):
    """first place (pre-order) where two shapes differ: 'X->Y' or None"""
    if a[0] != b[0]:
        return f'{a[0].split(":")[0]}->{b[0].split(":")[0]}' if a[0].split(':')[0] != b[0].split(':')[0] \
            else f'{a[0].split(":")[0]}:name'
    if len(a[1]) != len(b[1]):
        return f'{a[0].split(":")[0]}:arity'
    for x, y in zip(a[1], b[1]):
        d = shape_diff(x, y)
        if d:
            return d
    return None


def check_model(m, inputs, compile_fn, starts=()):
    """first failure of the property on model m: (kind, detail) or None.  starts: (rule name, text) pairs that are
    parsed with that rule as the start rule on both models (a rule that the start rule only reaches through a
    failing or rarely taken path is compared on its own sentences)."""
    try:
        p1 = guarded(lambda: m.pretty())
    except Timeout:
        return ('skip', 'timeout:pretty')
    except Exception as e:
        return ('pretty-raises', type(e).__name__)
    if not isinstance(p1, str):
        return ('pretty-raises', 'not-a-str')
    # pretty() is a function of the model: other renderings of the same object in between (the lean form, str, repr)
    # change neither it nor each other
    try:
        lean1 = guarded(lambda: m.pretty_lean())
        guarded(lambda: (str(m), repr(m.rules[0]) if m.rules else None))
        p1b = guarded(lambda: m.pretty())
        lean2 = guarded(lambda: m.pretty_lean())
    except Timeout:
        return ('skip', 'timeout:pretty-again')
    except Exception as e:
        return ('pretty-raises', 'again:' + type(e).__name__)
    if p1b != p1:
        return ('pretty-depends-on-history', 'full-after-lean')
    if lean2 != lean1:
        return ('pretty-depends-on-history', 'lean-after-full')
    try:
        m2 = guarded(lambda: compile_fn(p1))
    except Timeout:
        return ('skip', 'timeout:recompile')      # budget overruns are never a verdict (hangs are C08's subject)
    except Exception as e:
        return ('recompile-fails', type(e).__name__)
    try:
        p2 = guarded(lambda: m2.pretty())
    except Timeout:
        return ('skip', 'timeout:pretty2')
    except Exception as e:
        return ('pretty2-raises', type(e).__name__)
    if p2 != p1:
        return ('not-fixpoint', '')
    # directives, keywords, rule headers
    d1 = {k: v for k, v in m.directives.items()}
    d2 = {k: v for k, v in m2.directives.items()}
    if d1 != d2:
        diff = sorted(k for k in set(d1) | set(d2) if d1.get(k, '<absent>') != d2.get(k, '<absent>'))
        return ('directives-differ', ','.join(diff))
    if tuple(m.keywords) != tuple(m2.keywords):
        return ('keywords-differ', '')
    n1 = [r.name for r in m.rules]
    n2 = [r.name for r in m2.rules]
    if n1 != n2:
        return ('rules-differ', '')
    for r1, r2 in zip(m.rules, m2.rules):
        a1, a2 = rule_attrs(r1), rule_attrs(r2)
        if a1 != a2:
            diff = sorted(k for k in a1 if a1[k] != a2[k])
            return ('rule-attrs-differ', ','.join(diff))
    for text in inputs:
        o1 = parse_outcome(m, text)
        o2 = parse_outcome(m2, text)
        if o1 == o2 == ('timeout',):
            break      # a hang of the engine itself (e.g. a whitespace pattern that matches empty) is not C13's
        if ('timeout',) in (o1, o2):
            continue   # one side over budget: the input is skipped, never a verdict
        if o1 != o2:
            return ('parse-differs', f'{o1[0]}->{o2[0]}')
    for name, text in starts:
        o1 = parse_outcome(m, text, name)
        o2 = parse_outcome(m2, text, name)
        if ('timeout',) in (o1, o2):
            continue
        if o1 != o2:
            return ('parse-differs', f'{o1[0]}->{o2[0]}')
    # "the same parser": the recompiled model is built from the same constructors in the same places (a sampled
    # input may miss a difference, e.g. a gather that came back as a join only shows on a text with a separator)
    for r1, r2 in zip(m.rules, m2.rules):
        try:
            d = shape_diff(shape(r1), shape(r2))
        except Exception as e:
            return ('structure-differs', type(e).__name__)
        if d:
            return ('structure-differs', d)
    return None


def check_rails(m):
    """railroads() completes; the block of every rule (what assert_one_length guards) has one display width.
    (walk_grammar concatenates the blocks of the rules; blocks of different rules differ in width by design and
    text() strips trailing blanks, so the width is compared per rule, not across rules.)"""
    from tatsu.railroads.walker import RailroadNodeWalker
    try:
        guarded(lambda: m.railroads())
        blocks = guarded(lambda: [RailroadNodeWalker().walk(r) for r in m.rules])
    except Timeout:
        return ('skip', 'timeout:rails')
    except AssertionError:
        return ('rails-assert', '')
    except Exception as e:
        return ('rails-raises', type(e).__name__)
    for t in blocks:
        if len({ulen(line) for line in t}) > 1:
            return ('rails-width', '')
        if any('\n' in line for line in t):
            return ('rails-width', 'newline-in-track')
    return None


def obtain(spec, origin):
    """the model under test for a spec: 'text' | 'json' | 'prog' | 'progjson'"""
    import tatsu
    from tatsu.peg import jsonimport
    if origin in ('text', 'json'):
        m = tatsu.compile(src_grammar(spec))
    else:
        m = build_grammar(spec)
    if origin in ('json', 'progjson'):
        m = jsonimport.load_grammar(json.loads(json.dumps(m.asjson())))
    return m


LAST = {'wrapped': False}      # coverage accounting: did the last model checked by failure() print a wrapped rule?


def is_wrapped(m) -> bool:
    """does the printer lay a rule of this model out over several lines?"""
    try:
        return any(len(guarded(lambda: r.pretty()).strip().splitlines()) > 1 + len(r.decorators or [])
                   + bool(r.no_memo) + bool(r.is_name) for r in m.rules)
    except (Timeout, Exception):
        return False


def failure(spec, origin, inputs):
    """(kind, detail) | None | ('skip', why)"""
    LAST['wrapped'] = False
    import tatsu
    try:
        m = guarded(lambda: obtain(spec, origin))
    except NotExpressible as e:
        return ('skip', 'not-expressible')
    except Timeout:
        return ('skip', 'timeout')
    except Exception as e:
        return ('skip', 'invalid:' + type(e).__name__)
    LAST['wrapped'] = is_wrapped(m)
    f = check_model(m, inputs, tatsu.compile)
    if f:
        return f
    return check_rails(m)


# ---------------------------------------------------------------------------------------------------
# shrinking

def sub_candidates(e):
    """smaller expressions that could replace e"""
    k = e[0]
    out = []
    if k in ('seq', 'choice'):
        items = e[1]
        out += list(items)
        if len(items) > 2:
            out += [(k, items[:i] + items[i + 1:]) for i in range(len(items))]
        elif len(items) == 2:
            out += [items[0], items[1]]
        for i, x in enumerate(items):
            for y in sub_candidates(x):
                out.append((k, items[:i] + [y] + items[i + 1:]))
    elif k in BOX1:
        out.append(e[1])
        out += [(k, y) for y in sub_candidates(e[1])]
    elif k in NAMED:
        out.append(e[2])
        out += [(k, e[1], y) for y in sub_candidates(e[2])]
    elif k in JOINS:
        out += [e[2], e[1]]
        if k != 'join':
            out.append(('join', e[1], e[2]))
        out += [(k, y, e[2]) for y in sub_candidates(e[1])]
        out += [(k, e[1], y) for y in sub_candidates(e[2])]
    elif k == 'tok':
        s = e[1]
        if s != 'a':
            out.append(('tok', 'a'))
        out += [('tok', s[:i] + s[i + 1:]) for i in range(len(s)) if len(s) > 1]
        out += [('tok', s[:i] + 'a' + s[i + 1:]) for i in range(len(s)) if s[i] != 'a' and len(s) > 1]
    elif k == 'pat':
        s = e[1]
        out.append(('tok', 'a'))
        if s != 'a':
            out.append(('pat', 'a'))
        out += [('pat', s[:i] + s[i + 1:]) for i in range(len(s))]
        out += [('pat', s[:i] + 'a' + s[i + 1:]) for i in range(len(s)) if s[i] != 'a']
    elif k == 'const':
        s = e[1]
        out.append(('tok', 'a'))
        if s != 'c':
            out.append(('const', 'c'))
        out += [('const', s[:i] + s[i + 1:]) for i in range(len(s))]
    elif k == 'alert':
        out.append(('const', e[2]))
        if e[1] > 1:
            out.append(('alert', 1, e[2]))
        out += [('alert', e[1], s[1]) for s in sub_candidates(('const', e[2])) if s[0] == 'const']
    elif k in LEAVES:
        out.append(('tok', 'a'))
    return out


def valid_re(p):
    import re
    try:
        re.compile(p)
        return True
    except Exception:
        return False


def spec_ok(spec):
    names = {r['name'] for r in spec['rules']}
    for r in spec['rules']:
        if r['base'] and r['base'] not in names:
            return False
        for e in walk(r['exp']):
            if e[0] in ('call', 'include') and e[1] not in names:
                return False
            if e[0] == 'pat' and not valid_re(e[1]):
                return False
            if e[0] == 'tok' and not e[1]:
                return False
    return True


def spec_candidates(spec):
    rules = spec['rules']
    if spec['directives']:
        yield dict(spec, directives=[])
        for i in range(len(spec['directives'])):
            if len(spec['directives']) > 1:
                yield dict(spec, directives=spec['directives'][:i] + spec['directives'][i + 1:])
    if spec['keywords']:
        yield dict(spec, keywords=[])
        for i in range(len(spec['keywords'])):
            if len(spec['keywords']) > 1:
                yield dict(spec, keywords=spec['keywords'][:i] + spec['keywords'][i + 1:])
        for i, k in enumerate(spec['keywords']):
            for j in range(len(k)):
                if len(k) > 1:
                    yield dict(spec, keywords=spec['keywords'][:i] + [k[:j] + k[j + 1:]] + spec['keywords'][i + 1:])
    for i in range(len(rules) - 1, 0, -1):
        yield dict(spec, rules=rules[:i] + rules[i + 1:])
    for i, r in enumerate(rules):
        def with_rule(nr):
            return dict(spec, rules=rules[:i] + [nr] + rules[i + 1:])
        if r['decorators']:
            yield with_rule(dict(r, decorators=[]))
        if r['flags']:
            yield with_rule(dict(r, flags={}))
        if r['params']:
            yield with_rule(dict(r, params=[]))
            if len(r['params']) > 1:
                for j in range(len(r['params'])):
                    yield with_rule(dict(r, params=r['params'][:j] + r['params'][j + 1:]))
            for j, p in enumerate(r['params']):
                if p != 'P':
                    yield with_rule(dict(r, params=r['params'][:j] + ['P'] + r['params'][j + 1:]))
        if r['kwparams']:
            yield with_rule(dict(r, kwparams=[]))
            for j, (k, v) in enumerate(r['kwparams']):
                if v != 'v':
                    yield with_rule(dict(r, kwparams=r['kwparams'][:j] + [(k, 'v')] + r['kwparams'][j + 1:]))
        if r['base']:
            yield with_rule(dict(r, base=None))
        if r['exp'] != ('tok', 'a'):
            yield with_rule(dict(r, exp=('tok', 'a')))
        for y in sub_candidates(r['exp']):
            yield with_rule(dict(r, exp=y))
    for i, (n, v) in enumerate(spec['directives']):
        if isinstance(v, str):
            for j in range(len(v)):
                yield dict(spec, directives=spec['directives'][:i] + [(n, v[:j] + v[j + 1:])] + spec['directives'][i + 1:])


def shrink(spec, origin, inputs, kind, budget=400, detail=None):
    """greedy structural shrink keeping the same failure kind"""
    def bad(s, ins):
        if not spec_ok(s):
            return False
        f = failure(s, origin, ins)
        if f is not None and f[0] == kind == 'structure-differs' and detail is not None:
            return f[1] == detail      # do not drift to another structural difference while shrinking
        return f is not None and f[0] == kind
    steps = 0
    changed = True
    while changed and steps < budget:
        changed = False
        for cand in spec_candidates(spec):
            steps += 1
            if steps >= budget:
                break
            if bad(cand, inputs):
                spec = cand
                changed = True
                break
    # inputs: keep only one that still shows the failure (for parse-differs)
    if kind == 'parse-differs':
        for s in inputs:
            if bad(spec, [s]):
                small = vlib.shrink_string(s, lambda t: bad(spec, [t]))
                inputs = [small]
                break
    # a plain token that the kept inputs spell out cannot be reduced by the structural steps alone ('x' -> 'a' fails
    # the input 'x'): rename it in the grammar and in the inputs together
    for r in spec['rules']:
        for e in list(walk(r['exp'])):
            if e[0] == 'tok' and e[1] not in ('a', 'b', ',') and str_class(e[1]) == 'plain' and len(e[1]) == 1 \
                    and not any(x[0] == 'tok' and x[1] == 'a' for rr in spec['rules'] for x in walk(rr['exp'])):
                def ren(x, old=e[1]):
                    if x[0] == 'tok':
                        return ('tok', 'a') if x[1] == old else x
                    return tuple(ren(y) if isinstance(y, tuple) else [ren(z) for z in y] if isinstance(y, list) else y
                                 for y in x)
                cand = dict(spec, rules=[dict(rr, exp=ren(rr['exp'])) for rr in spec['rules']])
                cins = [s.replace(e[1], 'a') for s in inputs]
                if bad(cand, cins):
                    spec, inputs = cand, cins
    return spec, inputs


# ---------------------------------------------------------------------------------------------------
# signature of a shrunk failing case

def str_class(s: str) -> str:
    f = []
    if "'" in s:
        f.append('sq')
    if '"' in s:
        f.append('dq')
    if '\\' in s:
        f.append('bs')
    if '/' in s:
        f.append('slash')
    if '`' in s:
        f.append('bq')
    if '\n' in s or '\r' in s:
        f.append('nl')
    if s != s.strip() and s.strip():
        f.append('edge-space')
    if s and not s.strip():
        f.append('blank')
    if s == '':
        f.append('empty')
    if s == '.':
        f.append('dot')
    return '+'.join(f) or 'plain'


def lit_class(s) -> str:
    """class of a constant / alert literal"""
    if not isinstance(s, str):
        return type(s).__name__
    c = str_class(s)
    try:
        v = pyast.literal_eval(s.strip())
        if not isinstance(v, str):
            c = 'numlike' if c == 'plain' else c + '+numlike'
    except Exception:
        pass
    return c


def features(spec) -> list[str]:
    out = set()
    rules = {r['name']: r for r in spec['rules']}
    for name, v in spec['directives']:
        out.add(f'@@{name}:' + (str_class(v) if isinstance(v, str) else repr(v)))
    for k in spec['keywords']:
        if k != 'kw':
            out.add('keyword:' + str_class(k))
    if len(spec['keywords']) > 3:
        out.add('keywords:many')
    for i, r in enumerate(spec['rules']):
        for d in r['decorators']:
            out.add('@' + d)
        for f in r['flags']:
            out.add('flag:' + f)
        if r['base']:
            b = rules.get(r['base'])
            if r['params'] or r['kwparams'] or (b and (b['params'] or b['kwparams'])):
                out.add('based+params')
            else:
                out.add('based')
        for p in r['params']:
            if p != 'P':
                out.add('param:' + (str_class(p) if isinstance(p, str) else type(p).__name__))
        for k, v in r['kwparams']:
            if v != 'v':
                out.add('kwparam:' + (str_class(v) if isinstance(v, str) else type(v).__name__))
            elif not r['base']:
                out.add('kwparam')
        for e in walk(r['exp']):
            k = e[0]
            if k == 'tok':
                if e[1] not in ('a', 'b', ','):
                    out.add('tok:' + str_class(e[1]))
            elif k == 'pat':
                if e[1] != 'a':
                    out.add('pat:' + str_class(e[1]))
            elif k == 'const':
                out.add('const' + ('' if e[1] == 'c' else ':' + lit_class(e[1])))
            elif k == 'alert':
                out.add('alert' + ('' if e[2] == 'c' else ':' + lit_class(e[2])))
            elif k == 'meta':
                out.add('meta:' + e[1])
            elif k in ('seq', 'call', 'eof'):
                pass
            else:
                out.add(k)
    return sorted(out)


NONSTR = ('param:int', 'param:float', 'param:bool', 'param:NoneType', 'kwparam:int', 'kwparam:float', 'kwparam:bool',
          'kwparam:NoneType')


def signature(kind, detail, origin, spec) -> str:
    """defect class of a SHRUNK failing grammar: failure kind + the features left in it.  The exception type of
    a failed recompile and the direction of a parse difference depend on the sample and are left out."""
    feats = features(spec)
    if kind == 'rails-raises':
        feats = {('param:nonstr' if f in NONSTR else f) for f in feats}
        if 'param:nonstr' in feats:      # str parameters next to the non-str one are irrelevant to the TypeError
            feats = {f for f in feats if not f.startswith(('param:', 'kwparam:')) or f == 'param:nonstr'}
        feats = sorted(feats)
    if kind in ('recompile-fails', 'parse-differs', 'not-fixpoint', 'pretty-raises', 'pretty2-raises'):
        detail = ''
    if kind == 'structure-differs':
        # the detail names the two constructors; of the grammar only its layout matters (a failure that needs a
        # wrapped body cannot be shrunk below the wrapping width: the literals left in it are incidental)
        return f'{kind}[{detail}]:' + ('wrapped' if wrapped(spec, origin) else 'one-line')
    if 'empty' in feats and kind in ('recompile-fails', 'not-fixpoint', 'rules-differ') and \
            not any(f.split(':')[0] in RISKY_FEATS or f in RISKY_FEATS for f in feats):
        # `{}` at the end of a rule swallows the next rule header (D8k): what is left of the swallowed rule after
        # shrinking (a name, an include target) is incidental
        feats = ['empty']
    return f'{kind}[{detail}]:' + ','.join(feats)


# ---------------------------------------------------------------------------------------------------
# atomic probes: every feature of a failing grammar is tried alone in a minimal grammar; a failing probe is
# itself a counterexample with a stable signature.  Only when no single feature explains the failure is the
# whole grammar shrunk greedily.

A = ('tok', 'a')


def shallow(e):
    k = e[0]
    if k in ('seq',):
        return None
    if k == 'choice':
        return ('choice', [A, ('tok', 'b')])
    if k in BOX1:
        return (k, A)
    if k in NAMED:
        return (k, 'n', A)
    if k in JOINS:
        return (k, ('tok', ','), A)
    if k == 'call':
        return None
    return e


def mini(exp=A, **rule_kw):
    r1 = {'name': 'r1', 'decorators': [], 'params': [], 'kwparams': [], 'base': None, 'exp': exp, 'flags': {}}
    r1.update(rule_kw)
    start = {'name': 'start', 'decorators': [], 'params': [], 'kwparams': [], 'base': None,
             'exp': ('seq', [('call', 'r1'), ('eof',)]), 'flags': {}}
    return {'directives': [], 'keywords': [], 'rules': [start, r1]}


def with_base(spec, base_params=(), base_kw=()):
    b = {'name': 'b0', 'decorators': [], 'params': list(base_params), 'kwparams': list(base_kw), 'base': None,
         'exp': ('tok', 'b'), 'flags': {}}
    rules = spec['rules']
    return dict(spec, rules=[rules[0], b] + [dict(r, base='b0') if r['name'] == 'r1' else r for r in rules[1:]])


def atoms(spec):
    """(key, minimal spec) for every single feature of spec"""
    seen = set()
    out = []

    def add(key, ms):
        k = json.dumps(key, sort_keys=True, default=repr)
        if k not in seen:
            seen.add(k)
            out.append((k, ms))
    for n, v in spec['directives']:
        add(['dir', n, v], dict(mini(), directives=[(n, v)]))
    for k in spec['keywords']:
        add(['kw', k], dict(mini(), keywords=[k]))
    if len(spec['keywords']) > 3:
        add(['kws', len(spec['keywords'])], dict(mini(), keywords=list(spec['keywords'])))
    rules = {r['name']: r for r in spec['rules']}
    for r in spec['rules']:
        for d in r['decorators']:
            add(['deco', d], mini(decorators=[d]))
        for f in r['flags']:
            add(['flag', f], mini(flags={f: True}))
        for p_ in r['params']:
            add(['param', p_], mini(params=[p_]))
        if len(r['params']) > 1:
            add(['params', r['params']], mini(params=list(r['params'])))
        for k, v in r['kwparams']:
            add(['kwparam', v], mini(kwparams=[('k', v)]))
        if r['params'] and r['kwparams']:
            add(['params+kw'], mini(params=['P'], kwparams=[('k', 'v')]))
        if r['base']:
            b = rules.get(r['base'])
            bp = ['P'] if b and b['params'] else []
            bk = [('k', 'v')] if b and b['kwparams'] else []
            add(['based', bool(r['params']), bool(r['kwparams']), bool(bp), bool(bk)],
                with_base(mini(params=['P'] if r['params'] else [], kwparams=[('k', 'v')] if r['kwparams'] else []),
                          bp, bk))
        for e in walk(r['exp']):
            sh = shallow(e)
            if sh is None or sh == A or sh == ('eof',):
                continue
            if sh[0] == 'include':
                ms = mini(('include', 'b0'))
                rs = ms['rules']
                b = dict(rs[1], name='b0', exp=('tok', 'b'))
                ms = dict(ms, rules=[rs[0], b, rs[1]])
                add(['node', 'include'], ms)
            else:
                add(['node', sh], mini(sh))
                if sh == ('empty',):
                    # a rule that ENDS in {} followed by another rule (the lexeme eats the blank line)
                    ms = mini(sh)
                    rs = ms['rules']
                    add(['node', 'empty-then-rule'], dict(ms, rules=[rs[0], rs[1], dict(rs[1], name='r2', exp=A)]))
    return out


# ('eol', 'based', 'based+params' left this set when D8c / D8d were fixed in /repo: a based rule or `$->` next to a
# swallowed rule header is as incidental as any other leftover of D8k)
def guard_empty(e):
    """e with every `{}` that would END the text of e closed by a bracket: `({})`"""
    k = e[0]
    if k == 'empty':
        return ('group', e)
    if k == 'seq' and e[1]:
        return ('seq', e[1][:-1] + [guard_empty(e[1][-1])])
    if k == 'choice':
        return ('choice', [guard_empty(x) for x in e[1]])
    if k in NAMED:
        return (k, e[1], guard_empty(e[2]))
    if k in ('override', 'overridelist', 'la', 'nla', 'skipto'):
        return (k, guard_empty(e[1]))
    return e


RISKY_FEATS = {'param', 'kwparam', 'flag', '@nomemo', '@nostak', '@name', '@isname',
               'keyword', 'fail', 'tok:sq+dq', 'pat:dq+slash', 'pat:edge-space', 'pat:nl', 'pat:empty', 'pat:dot',
               'const:nl', 'const:bq', 'const:edge-space', 'const:empty', '@@namechars', '@@whitespace', '@@comments',
               '@@eol_comments', '@@ignorecase'}


class Prober:
    def __init__(self, chk):
        self.chk = chk
        self.cache = {}
        self.reported = set()

    def probe(self, key, ms, origin):
        """failure of the minimal grammar ms (shrunk further when it fails); cached"""
        ck = (origin, key)
        if ck not in self.cache:
            ins = sample_inputs(ms, self.chk.rng, 3)
            f = failure(ms, origin, ins)
            self.chk.count('probe.' + ('ok' if f is None else f[0]))
            if f is not None and f[0] != 'skip' and not self.chk.quick:
                ms, ins = shrink(ms, origin, ins, f[0], 40)
                f = failure(ms, origin, ins) or f
            self.cache[ck] = (f, ins, ms)
        return self.cache[ck]

    def report(self, chk, f, origin, spec, ins):
        sig = signature(f[0], f[1], origin, spec)
        rep = {'oracle': 'pretty round trip', 'origin': origin, 'failure': list(f), 'spec': spec, 'inputs': ins}
        try:
            rep['pretty'] = obtain(spec, origin).pretty()
        except Exception as e:
            rep['pretty'] = f'<{type(e).__name__}>'
        try:
            rep['source'] = src_grammar(spec)
        except NotExpressible:
            rep['source'] = None
        chk.violation(sig, f'{f[0]} {f[1]} for a model obtained via {origin}: ' + ' / '.join(features(spec)), rep)

    def canonical(self, ms, origin, kind):
        """a failing one-literal grammar -> the same grammar with the literal reduced to a canonical member of its
        class (each candidate is an atom probe of its own, cached)"""
        lits = [(r, e) for r in ms['rules'] for e in walk(r['exp']) if e[0] in ('tok', 'pat', 'const', 'alert')
                and e[-1] not in ('a', 'b', ',', 'c')]
        if len(lits) != 1:
            return None
        e = lits[0][1]
        s = e[-1]
        if not isinstance(s, str):
            return None
        parts = [(c, t) for c, t in (("'", 'sq'), ('"', 'dq'), ('\\', 'bs'), ('/', 'slash'), ('`', 'bq'), ('\n', 'nl'))
                 if c in s]
        cands = []
        if s != s.strip() and s.strip():
            cands += [' x', 'x ']
        cands += [c for c, _ in parts]
        cands += [a + b for i, (a, _) in enumerate(parts) for (b, _) in parts[i + 1:]]
        cands += [b + a for i, (a, _) in enumerate(parts) for (b, _) in parts[i + 1:]]
        for c in cands:
            if c == s or (e[0] == 'pat' and not valid_re(c)):
                continue
            ne = e[:-1] + (c,)
            key, ms2 = atoms(mini(ne))[0]
            pf, ins, ms2 = self.probe(key, ms2, origin)
            if pf is not None and pf[0] == kind:
                return pf, ins, ms2
        return None

    def explain(self, spec, origin, inputs, f):
        """report the failure f of spec with a minimal witness"""
        chk = self.chk
        at = atoms(spec)
        # cached failing atoms first
        def rank(kv):
            c = self.cache.get((origin, kv[0]))
            if c is not None:
                return 0 if (c[0] is not None and c[0][0] != 'skip') else 9
            fs = features(kv[1])
            return 1 if any(x in RISKY_FEATS or x.split(':')[0] in RISKY_FEATS for x in fs) else 2 if fs else 3
        at.sort(key=rank)
        hit = False
        for key, ms in at:
            if chk.quick and rank((key, ms)) == 9:
                continue      # known to pass alone
            pf, ins, ms = self.probe(key, ms, origin)
            if pf is None or pf[0] == 'skip':
                continue
            c = self.canonical(ms, origin, pf[0])
            if c:
                pf, ins, ms = c
            self.report(chk, pf, origin, ms, ins)
            if pf[0] == f[0]:
                hit = True
                if chk.quick:
                    break
        if hit:
            chk.count('explained.by-atom')
            return
        # D8k by counterfactual: a rule whose text ENDS in `{}` swallows the next rule header.  When the same grammar
        # with those `{}` closed by a bracket (`({})`) round-trips, the recorded defect is the whole explanation; its
        # minimal witness (the empty-then-rule probe) is what gets reported, not a half-shrunk grammar.
        if f[0] in ('recompile-fails', 'not-fixpoint', 'rules-differ'):
            spec2 = dict(spec, rules=[dict(r, exp=guard_empty(r['exp'])) for r in spec['rules']])
            if spec2 != spec and failure(spec2, origin, inputs) is None:
                for key, ms in at:
                    if 'empty-then-rule' in key:
                        pf, ins, ms = self.probe(key, ms, origin)
                        if pf is not None and pf[0] != 'skip':
                            self.report(chk, pf, origin, ms, ins)
                            chk.count('explained.by-counterfactual')
                            return
        chk.count('explained.by-shrink')
        small, sins = shrink(spec, origin, inputs, f[0], 120 if chk.quick else 800, detail=f[1])
        f2 = failure(small, origin, sins) or f
        self.report(chk, f2, origin, small, sins)


def sweep_atoms(chk: Check, prober: Prober):
    """thorough tier: every pool entry and every node kind alone in a minimal grammar, all four origins"""
    specs = []
    for t in TOKENS_CLEAN + TOKENS_RISKY:
        specs.append(mini(('tok', t)))
    for p_, _ in PATTERNS_CLEAN + PATTERNS_RISKY:
        specs.append(mini(('pat', p_)))
    for c in CONSTS_CLEAN + CONSTS_RISKY:
        specs.append(mini(('const', c)))
        specs.append(mini(('alert', 2, c)))
    for k in ['dot', 'eof', 'eol', 'void', 'fail', 'cut', 'empty']:
        specs.append(mini((k,)))
    for k in META:
        specs.append(mini(('meta', k)))
    for k in BOX1:
        specs.append(mini((k, A)))
    for k in NAMED:
        specs.append(mini((k, 'n', A)))
    for k in JOINS:
        specs.append(mini((k, ('tok', ','), A)))
    specs.append(mini(('choice', [A, ('tok', 'b')])))
    for i, spec in enumerate(specs):
        for key, ms in atoms(spec):
            for og in (('text', 'json', 'prog', 'progjson') if i % 4 == 0 else ('text', 'prog')):
                pf, ins, ms2 = prober.probe(key, ms, og)
                chk.case(f'atom:{og}:{key}', nontrivial=pf is None or pf[0] != 'skip')
                if pf is not None and pf[0] != 'skip':
                    prober.report(chk, pf, og, ms2, ins)


# ---------------------------------------------------------------------------------------------------
# layout family: every printer with a one-line and a multi-line branch is driven into the multi-line one

def wide_leaf(rng, named=True):
    x = rng.random()
    if x < 0.45:
        e = ('tok', rng.choice(TOKENS_WIDE + ['a', '+', '=', '(', ')']))
    else:
        e = ('pat', rng.choice(PATTERNS_WIDE + PATTERNS_CLEAN[:3])[0])
    if named and rng.random() < 0.4:
        e = (rng.choice(['named', 'named', 'namedlist']), rng.choice(NAMES_WIDE), e)
    return e


def est(e) -> int:
    """rough one-line width of an expression in TatSu text (only used to steer the generator past the printers'
    wrapping thresholds; the oracle never depends on it)"""
    try:
        return len(src_exp(e))
    except NotExpressible:
        return 0


def core(e):
    return e[2] if e[0] in NAMED else e


def spaced(rng, items):
    """a pattern does not skip blanks and a name-like token must not run into a letter (nameguard): put a
    punctuation token between a name-like token and a pattern that follows it"""
    out = []
    for x in items:
        if out and core(x)[0] == 'pat' and core(out[-1])[0] == 'tok' and core(out[-1])[1][-1:].isalnum():
            out.append(('tok', rng.choice(['=', '(', '::=', '+', '-->'])))
        out.append(x)
    return out


def wide_seq(rng, lo, hi):
    """a sequence of non-nullable leaves whose one-line form is between lo and hi columns wide"""
    items = [('tok', rng.choice(['a', '+', 'begin']))]
    while est(('seq', items)) < lo:
        x = wide_leaf(rng)
        if est(('seq', spaced(rng, items + [x]))) > hi:
            x = ('tok', rng.choice(['a', 'b', '+']))
        items = spaced(rng, items + [x])
    return ('seq', items)


def wide_choice(rng, lo, hi):
    opts = []
    while not opts or est(('choice', opts)) < lo:
        n = rng.choice([1, 1, 2, 3])
        o = spaced(rng, [wide_leaf(rng) for _ in range(n)])
        o = o[0] if len(o) == 1 else ('seq', o)
        if opts and est(('choice', opts + [o])) > hi:
            o = ('tok', rng.choice(['a', 'b', '+']))
        opts.append(o)
    if len(opts) < 2:
        opts.append(('tok', 'b'))
    return ('choice', opts)


def layout_bodies(rng, quick=False):
    """(label, expression) - expressions that the printers lay out over several lines, for each of the reasons they
    have (Sequence longer than the line, Choice longer than its budget, an element that is itself wrapped), and
    one-line controls just below the thresholds"""
    out = [
        ('seq>72', wide_seq(rng, 74, 130)),
        ('seq~72', wide_seq(rng, 66, 73)),
        ('choice>43', wide_choice(rng, 46, 70)),
        ('choice>72', wide_choice(rng, 74, 120)),
        ('choice~43', wide_choice(rng, 38, 44)),
        ('short-choice-of-wrapped', ('choice', [('tok', 'a'), ('group', wide_seq(rng, 74, 100))])),
        ('short-seq-of-wrapped', ('seq', [('tok', 'a'), rng.choice([
            ('opt', wide_choice(rng, 46, 70)), ('clo', wide_seq(rng, 74, 100)), ('group', wide_choice(rng, 46, 70)),
            ('gather', ('tok', ','), wide_seq(rng, 74, 100)), ('named', 'val', ('group', wide_choice(rng, 46, 70)))])])),
    ]
    if quick:      # one wrapped body for each reason + one control (which ones varies with the seed)
        by = dict(out)
        keep = ['seq>72', rng.choice(['choice>43', 'choice>72']),
                rng.choice(['short-choice-of-wrapped', 'short-seq-of-wrapped']), rng.choice(['seq~72', 'choice~43'])]
        out = [(k, by[k]) for k in keep]
    return out


def layout_specs(rng, quick=False):
    """(key, spec): every container kind around every kind of wrapped body, in a two-rule grammar"""
    g = Gen(rng, risky=False, prog=False)
    seps = [('tok', ','), ('tok', ';'), ('pat', r'\s*;'), ('tok', 'otherwise')]
    for nbody, (label, body) in enumerate(layout_bodies(rng, quick)):
        boxed = g.atomize(body)
        conts = [('rule', body), ('group', ('group', body)), ('skipgroup', ('seq', [('skipgroup', body), ('tok', 'a')])),
                 ('opt', ('seq', [('opt', body), ('tok', ';')])),
                 ('clo', ('clo', body)), ('pclo', ('pclo', body)),
                 ('la', ('seq', [('la', boxed), boxed])), ('nla', ('seq', [('nla', boxed), ('pat', r'\w+')])),
                 ('skipto', ('skipto', boxed)), ('override', ('override', boxed)),
                 ('overridelist', ('seq', [('overridelist', boxed), ('overridelist', ('tok', 'a'))])),
                 ('named', ('named', rng.choice(NAMES_WIDE), boxed)),
                 ('namedlist', ('namedlist', rng.choice(NAMES_WIDE), boxed)),
                 ('choice-option', ('choice', [('tok', 'b'), body] if body[0] != 'choice' else [('tok', 'b')] + body[1])),
                 ('seq-element', ('seq', [('tok', 'b'), boxed, ('tok', 'b')]))]
        for k in JOINS:
            conts.append((k, (k, rng.choice(seps), body)))
        # the separator wraps instead of (or as well as) the body
        k = rng.choice(sorted(JOINS))
        conts.append((k + '/sep', (k, boxed if boxed[0] == 'group' else ('group', boxed), ('tok', 'a'))))
        if quick and nbody >= 2:      # quick: every container around two wrapped bodies, a sample around the others
            conts = rng.sample(conts, 8)
        for cname, exp in conts:
            spec = mini(exp)
            if rng.random() < 0.3:
                spec = dict(spec, rules=[spec['rules'][0], dict(spec['rules'][1], params=['Node'], kwparams=[('k', 'v')])])
            yield f'{cname}({label})', spec


def wrapped(spec, origin) -> bool:
    try:
        return is_wrapped(obtain(spec, origin))
    except Exception:
        return False


def run_layout(chk: Check, prober: Prober):
    rng = chk.rng
    origins = ('text', 'prog', 'json', 'progjson')
    nbad = 0
    reps = 1
    i = 0
    for _ in range(reps):
        for key, spec in layout_specs(rng, chk.quick):
            i += 1
            inputs = sample_inputs(spec, rng, 3, rich=2)
            for og in ([origins[i % 2]] if chk.quick else origins):
                f = failure(spec, og, inputs)
                chk.count(f'layout.{og}.' + ('ok' if f is None else f[0] if f[0] != 'skip' else 'skip:' + f[1]))
                chk.count('layout.wrapped' if LAST['wrapped'] else 'layout.one-line')
                chk.case(f'layout:{og}:' + json.dumps(spec, sort_keys=True, default=str),
                         nontrivial=(f is None or f[0] != 'skip'))
                if f is None or f[0] == 'skip':
                    continue
                nbad += 1
                prober.explain(spec, og, inputs, f)
    # random grammars from the wide pools
    n = 14 if chk.quick else 60
    for it in range(n):
        prog = it % 3 == 2
        for _ in range(12):      # keep the compile / parse times small: at most 90 nodes
            spec = Gen(rng, risky=False, prog=prog, wide=True).grammar()
            if sum(1 for r in spec['rules'] for _ in walk(r['exp'])) <= 90:
                break
        else:
            chk.count('layout.generator-too-big')
            continue
        if not spec_ok(spec):
            chk.count('layout.generator-invalid')
            continue
        inputs = sample_inputs(spec, rng, 3 if chk.quick else 5, rich=2)
        ogs = ['prog', 'progjson'] if prog else ['text', 'json']
        for og in ([ogs[(it // 3) % 2]] if chk.quick else ogs):
            f = failure(spec, og, inputs)
            chk.count(f'layout.{og}.' + ('ok' if f is None else f[0] if f[0] != 'skip' else 'skip:' + f[1]))
            chk.count('layout.wrapped' if LAST['wrapped'] else 'layout.one-line')
            chk.case(f'layout:{og}:' + json.dumps(spec, sort_keys=True, default=str),
                     nontrivial=(f is None or f[0] != 'skip'))
            if f is None or f[0] == 'skip':
                continue
            nbad += 1
            prober.explain(spec, og, inputs, f)
    chk.sample({'layout grammars': i + n, 'failing (incl. known)': nbad})


# ---------------------------------------------------------------------------------------------------
# header family: what Grammar._pretty / Rule._pretty / the railroad walker print ABOVE and IN FRONT of the rule
# bodies - the `@@keyword ::` lines (which the printer batches into lines of bounded width) and the rule headers
# (`name[params, k=v] < base`), over keyword lists of every length around the batching width and over every value
# type a parameter can have, on plain rules, based rules with their own parameters, based rules that inherit them
# and chains of based rules.

KW_SPECIAL = ["it's", 'q"r', 'a b', 'end\\', 'é', 'ключ', '日本', 'x\x7f', 'UPPER', 'x9', '_u', 'a-b', 'a\tb', "''", '""',
              '\\\\', '→', 'if', 'ſ', 'İ']
KW_ALPHA = 'abcdefghijklmnopqrstuvwxyz'


def kw_words(rng, n, lo, hi, prefix=''):
    """n distinct lower-case words with lengths between lo and hi"""
    out: list = []
    tries = 0
    while len(out) < n and tries < 50 * n + 100:
        tries += 1
        w = prefix + ''.join(rng.choice(KW_ALPHA) for _ in range(rng.randint(lo, hi)))
        if w not in out:
            out.append(w)
    return out


def kw_lists(rng, quick=False):
    """(label, keywords): keyword lists that make the printer start new `@@keyword ::` lines at every possible place"""
    out = []
    # words of one length, every list size up to a few printed lines: whatever the batching rule is, some size puts
    # the line break on the first / on the last keyword (in sorted order), some size fills a line exactly
    L = rng.choice([1, 2, 3, 4, 5, 6, 7, 9, 12])
    per_line = 72 // (L + 3) + 1
    pool = kw_words(rng, (3 if quick else 6) * per_line + 2, L, L)
    for n in range(1, len(pool) + 1):
        out.append((f'equal{L}', pool[:n]))
    # ragged lists
    for _ in range(6 if quick else 40):
        lo = rng.choice([1, 1, 2, 4])
        out.append(('ragged', kw_words(rng, rng.randint(5, 45), lo, lo + rng.choice([0, 1, 3, 8, 12]))))
    # keywords that are as long as a line, or longer: first / in the middle / last in sorted order, alone or two in a row
    for _ in range(1 if quick else 4):
        for prefix in ('a', 'm', 'z'):
            for nlong in (1, 2):
                short = kw_words(rng, rng.randint(0, 12), 2, 7, rng.choice(['', '', 'b', 'n']))
                out.append((f'long{nlong}@{prefix}', short + kw_words(rng, nlong, 40, 80, prefix * 2)))
        out.append(('all-long', kw_words(rng, rng.randint(2, 4), 50, 70)))
        out.append(('one-long', kw_words(rng, 1, 60, 75)))
    # keywords whose repr() is not the text between two single quotes (other quote, escapes, wide characters): the
    # printer sorts and measures the repr
    for _ in range(4 if quick else 20):
        ws = rng.sample(KW_SPECIAL, rng.randint(2, 8)) + kw_words(rng, rng.choice([0, 3, 8, 14, 20]), 1, 9)
        rng.shuffle(ws)
        out.append(('special', ws))
    return out


def kw_spec(rng, kws):
    """a grammar that reserves kws: start = an `@name` rule that takes the whole line, so that a text is rejected
    exactly when it is a keyword"""
    spec = mini(('pat', r'[^\n]+'), decorators=['name'])
    spec['keywords'] = list(kws)
    if rng.random() < 0.3:
        spec['directives'] = Gen(rng, risky=False, prog=False).directives()
        # a whitespace / comment directive changes what the @name rule sees: keep the ones that leave words alone
        spec['directives'] = [(n, v) for n, v in spec['directives'] if n not in ('whitespace', 'comments', 'eol_comments',
                                                                                'namechars')]
    return spec


# every type a rule parameter can have in TatSu source (name, string, path, int, float, bool, None), incl. falsy ones
PARAM_VALUES = ['Node', 'q r', 'A::B', "it's", 'Ünï', 7, 0, -3, 1.5, True, False, None]
HEADER_KINDS = ('plain', 'based-own', 'based-inherit', 'based-chain', 'based-chain-own')


def header_spec(rng, kind, params, kwparams, wide=False):
    """start -> r1, with r1 a plain rule / a rule based on b0 (own parameters, or the ones inherited from b0) / a
    rule based on b1 which is based on b0"""
    body = wide_seq(rng, 74, 100) if wide else A
    spec = mini(body)
    own = dict(params=list(params), kwparams=list(kwparams))
    if kind == 'plain':
        return dict(spec, rules=[spec['rules'][0], dict(spec['rules'][1], **own)])
    inherit = kind in ('based-inherit', 'based-chain')
    other = dict(params=[rng.choice(['Base', 'B', 2])] if rng.random() < 0.6 else [],
                 kwparams=[('w', rng.choice(['x', 3]))] if rng.random() < 0.3 else [])
    none = dict(params=[], kwparams=[])
    b0 = {'name': 'b0', 'decorators': [], 'base': None, 'exp': ('tok', 'b'), 'flags': {}, **(own if inherit else other)}
    r1 = dict(spec['rules'][1], base='b0', **(none if inherit else own))
    rules = [spec['rules'][0], b0]
    if kind.startswith('based-chain'):
        b1 = {'name': 'b1', 'decorators': [], 'base': 'b0', 'exp': ('tok', 'c'), 'flags': {},
              **(none if inherit else other)}
        r1['base'] = 'b1'
        rules.append(b1)
    if rng.random() < 0.2:
        r1['decorators'] = [rng.choice(['name', 'nomemo'])]
    return dict(spec, rules=rules + [r1])


def header_cases(rng, quick=False):
    """(label, spec): rule kinds x parameter tuples (each value type alone, after / before a name, as a keyword
    parameter; own or inherited)"""
    def vclass(v):
        return type(v).__name__ if not isinstance(v, str) else 'str:' + str_class(v)
    for kind in HEADER_KINDS:
        for v in PARAM_VALUES:
            shapes = [([v], []), (['Node', v], []), ([v, 'Node'], []), ([], [('k', v)]), (['Node'], [('k', v)]),
                      (['Node', v], [('k', 'v'), ('w', v)])]
            if quick:
                shapes = rng.sample(shapes, 2)
            for ps, kws in shapes:
                yield f'{kind}:{vclass(v)}:{len(ps)}+{len(kws)}', header_spec(rng, kind, ps, kws, wide=rng.random() < 0.1)
        # several non-name values at once
        for _ in range(1 if quick else 6):
            ps = [rng.choice(PARAM_VALUES) for _ in range(rng.randint(2, 5))]
            kws = [(k, rng.choice(PARAM_VALUES)) for k in rng.sample(['k', 'kind', 'w', 'n_1'], rng.randint(0, 3))]
            yield f'{kind}:mixed:{len(ps)}+{len(kws)}', header_spec(rng, kind, ps, kws, wide=rng.random() < 0.2)


def run_headers(chk: Check, prober: Prober):
    rng = chk.rng
    origins = ('text', 'prog', 'json', 'progjson')
    nbad = ncase = nexplained = 0
    seen_sigs = set()

    def one(family, label, spec, inputs, i):
        nonlocal nbad, ncase, nexplained
        ncase += 1
        for og in ([origins[i % 4]] if chk.quick else origins[i % 2::2]):
            f = failure(spec, og, inputs)
            chk.count(f'{family}.{og}.' + ('ok' if f is None else f[0] if f[0] != 'skip' else 'skip:' + f[1]))
            chk.count(f'{family}.case.' + label.split(':')[0])
            chk.case(f'{family}:{og}:' + json.dumps(spec, sort_keys=True, default=str),
                     nontrivial=(f is None or f[0] != 'skip'))
            if f is None or f[0] == 'skip':
                continue
            nbad += 1
            # the grammars of this family are minimal by construction: the first failures of a kind are explained /
            # shrunk like any other, the rest is reported as it is
            sig = signature(f[0], f[1], og, spec)
            if sig in seen_sigs:
                continue
            seen_sigs.add(sig)
            nexplained += 1
            if nexplained <= (4 if chk.quick else 40):
                prober.explain(spec, og, inputs, f)
            else:
                prober.report(chk, f, og, spec, inputs)

    # keyword lists
    for i, (label, kws) in enumerate(kw_lists(rng, chk.quick)):
        spec = kw_spec(rng, kws)
        some = list(kws) if len(kws) <= 12 else rng.sample(list(kws), 8) + sorted(kws, key=repr)[-2:] + sorted(kws, key=repr)[:2]
        inputs = ['plain', 'not a keyword', ''] + some
        chk.count('headers.keywords', len(kws))
        one('keywords', label, spec, inputs, i)
    # rule headers
    for i, (label, spec) in enumerate(header_cases(rng, chk.quick)):
        inputs = sample_inputs(spec, rng, 2, rich=1) + ['a', 'b a', 'b c a', 'c a']
        one('headers', label, spec, inputs, i)
    chk.sample({'header grammars': ncase, 'failing (incl. known)': nbad})


# ---------------------------------------------------------------------------------------------------
# ANTLR family: models obtained by tatsu.g2e.translate (what `tatsu g2e` prints is pretty() of such a model)
#
#   AG = {'kind': ''|'parser'|'lexer'-less prefix, 'prelude': [str], 'tokens': [(NAME, value|None)], 'tokstyle': 3|4,
#         'rules': [AR]}
#   AR = {'name', 'lexer': bool, 'fragment': bool, 'exp': AE, 'tail': str}      (tail: lexer command `-> skip`)
#   AE = ('lit', text) | ('ref', rule) | ('tref', TOKEN) | ('eof',) | ('any',) | ('set', '[a-z]', rep) |
#        ('nset', '[abc]', rep) | ('range', 'a', 'z') | ('sub', AE) | ('neg', AE) | ('opt'|'clo'|'pclo', AE) |
#        ('label'|'labellist', name, AE) | ('action', text) | ('pred', text) | ('synpred', AE) | ('seq', [AE]) |
#        ('alt', [AE]) | ('rewrite', AE, text)
#   lit texts are the RAW text between the ANTLR quotes (g2e keeps escapes as written)

A_LITS = ['let', 'end', 'done', 'begin', 'if', 'then', 'else', 'xx', 'yy', 'zz', ':=', '==', '->', '=>', '<=', '(', ')',
          '+', '-', ',', ';', '{', '}', '[', ']', '|', '~', '?', '*', '.', '..', 'a', 'b', 'c', 'x', '0', '1', 'not in',
          '\\\\', "\\'", '\\n', '\\u0041', '/', '//', '#', '@', '$', '`', 'é', 'A', 'End', 'while_', '!=', '&&', '::']
A_LITS_DQ = ['str', 'q r', "it's", '\\"', '<<', 'x']
A_SETS = ['[a-z]', '[a-zA-Z_]', '[0-9]', '[ \\t]', '[abc]', '[a-z0-9_]', '[\\r\\n]', '[+\\-]', '[\\u0041-\\u005A]', '[xyz]',
          '[.,;]', '[a-f0-9]']
A_REPS = ['', '', '+', '*', '?', '+?']
A_PRULES = ['prog', 'stat', 'expr', 'term', 'atom', 'item', 'declList', 'primaryExpr', 'block_', 'argList', 'x1',
            'typeName', 'e', 'compilationUnit']
A_TOKENS = ['ID', 'INT', 'SEMI', 'PLUS', 'WS', 'Comma', 'StringLit', 'LPAREN', 'NEWLINE', 'KwEnd', 'T_1', 'Arrow']
A_LABELS = ['n', 'op', 'lhs', 'rhs', 'ids', 'val', 'e1']
A_ACTIONS = ['{ count++; }', '{x = 1;}', '{ $n.text }', '{ f(a, b) }']
A_PREDS = ['{ok}?', '{ la(1) == 3 }?', '{ isType() }?=>']
A_ATOMIC = {'lit', 'ref', 'tref', 'eof', 'any', 'set', 'nset', 'range', 'sub', 'neg'}


def a_kids(e):
    k = e[0]
    if k in ('seq', 'alt'):
        return list(e[1])
    if k in ('sub', 'neg', 'opt', 'clo', 'pclo', 'synpred', 'rewrite'):
        return [e[1]]
    if k in ('label', 'labellist'):
        return [e[2]]
    return []


def a_walk(e):
    yield e
    for x in a_kids(e):
        yield from a_walk(x)


def a_nullable(e) -> bool:
    k = e[0]
    if k in ('lit', 'ref', 'tref', 'any', 'range', 'neg'):
        return False
    if k in ('set', 'nset'):
        return e[2] in ('*', '?', '+?')
    if k in ('opt', 'clo', 'action', 'pred', 'synpred', 'eof'):
        return True
    if k in ('sub', 'pclo', 'rewrite'):
        return a_nullable(e[1])
    if k in ('label', 'labellist'):
        return a_nullable(e[2])
    if k == 'seq':
        return all(a_nullable(x) for x in e[1])
    if k == 'alt':
        return any(a_nullable(x) for x in e[1])
    return True


class AGen:
    """random ANTLR grammars in the subset that tatsu/g2e/antlr.tatsu reads"""

    def __init__(self, rng, risky=False):
        self.rng = rng
        self.risky = risky          # may write the constructs that hit the recorded defects of the translator
        self.later: list = []       # parser rules that may be referenced (defined later: no left recursion)
        self.tokens: list = []      # token names in play (defined before, after, in tokens{}, or never)

    def lit(self):
        r = self.rng
        if r.random() < 0.1:
            return ('lit', r.choice(A_LITS_DQ), '"')
        return ('lit', r.choice(A_LITS), "'")

    def leaf(self, in_neg=False):
        r = self.rng
        x = r.random()
        if x < 0.50:
            return self.lit()
        if x < 0.64 and self.later and not in_neg:
            return ('ref', r.choice(self.later))
        if x < 0.64 and self.later:
            return ('ref', r.choice(self.later))
        if x < 0.80 and self.tokens:
            return ('tref', r.choice(self.tokens))
        if x < 0.84:
            return ('any',)
        if x < 0.90:
            return ('set', r.choice(A_SETS), r.choice(A_REPS))
        if x < 0.93:
            return ('nset', r.choice(A_SETS), r.choice(A_REPS))
        if x < 0.96:
            lo, hi = r.choice([('a', 'z'), ('0', '9'), ('A', 'F'), ('\\u0061', '\\u007a')])
            return ('range', lo, hi)
        return self.lit()

    def atom(self, depth):
        r = self.rng
        x = r.random()
        if depth <= 0 or x < 0.55:
            return self.leaf()
        if x < 0.78:
            return ('sub', self.alts(depth - 1))
        if x < 0.96:
            # ~atom: a literal, a token, a set, another negation, or a parenthesised sub-expression (alternatives of
            # multi-character literals / rule references / sequences stay a sub-expression; alternatives of single
            # characters become a character class)
            y = r.random()
            if y < 0.25:
                return ('neg', self.lit())
            if y < 0.35 and self.tokens:
                return ('neg', ('tref', r.choice(self.tokens)))
            if y < 0.42:
                return ('neg', ('set', r.choice(A_SETS), ''))
            if y < 0.46:
                inner = ('neg', self.lit())
                return ('neg', inner if self.risky else ('sub', inner))
            return ('neg', ('sub', self.alts(depth - 1, small=True)))
        return self.leaf()

    def element(self, depth):
        r = self.rng
        x = r.random()
        if x < 0.04:
            return ('action', r.choice(A_ACTIONS))
        if x < 0.07:
            return ('pred', r.choice(A_PREDS))
        if x < 0.09:
            return ('synpred', self.alts(0, small=True))
        a = self.atom(depth)
        if x < 0.20:
            if a[0] == 'neg' and not self.risky:
                a = ('sub', a)
            return (r.choice(['label', 'label', 'labellist']), r.choice(A_LABELS), a)
        if x < 0.30:
            return ('opt', a)
        if x < 0.33:
            return ('opt', (r.choice(['clo', 'pclo']), self.nonnull(a)))
        if x < 0.42:
            return ('clo', self.nonnull(a))
        if x < 0.50:
            return ('pclo', self.nonnull(a))
        return a

    def nonnull(self, a):
        if a_nullable(a):
            return ('sub', ('seq', [self.lit(), a]))
        return a

    def seq(self, depth, small=False):
        r = self.rng
        n = r.choice([1, 1, 2] if small else [1, 2, 2, 3])
        if r.random() < 0.03:
            return ('seq', [])      # an empty alternative
        items = [self.element(depth) for _ in range(n)]
        return items[0] if len(items) == 1 else ('seq', items)

    def alts(self, depth, small=False):
        r = self.rng
        n = r.choice([1, 2, 2, 3] if small else [1, 1, 2, 2, 3])
        if n == 1:
            return self.seq(depth, small)
        return ('alt', [self.seq(depth, small) for _ in range(n)])

    def lexer_body(self):
        r = self.rng
        x = r.random()
        if x < 0.45:
            return self.lit()       # a literal token rule: references are replaced by the literal
        if x < 0.60:
            return ('seq', [('set', r.choice(A_SETS), ''), ('set', r.choice(A_SETS), r.choice(['*', '+']))])
        if x < 0.70:
            return ('pclo', ('sub', ('alt', [('range', 'a', 'z'), ('range', 'A', 'Z'), ('lit', '_', "'")])))
        if x < 0.80:
            return ('seq', [('lit', '//', "'"), ('clo', ('nset', '[\\r\\n]', ''))])
        if x < 0.90:
            return ('alt', [self.lit(), self.lit()])
        return ('seq', [('lit', '"', "'"), ('clo', ('sub', ('alt', [('lit', '\\\\"', "'"), ('neg', ('lit', '"', "'"))]))),
                        ('lit', '"', "'")])

    def grammar(self):
        r = self.rng
        np_ = r.choice([1, 2, 2, 3, 3, 4])
        pnames = r.sample(A_PRULES, np_)
        tnames = r.sample(A_TOKENS, r.choice([0, 1, 2, 3, 4]))
        # where each token comes from: a lexer rule before the parser rules, after them, the tokens{} section, nowhere
        where = {t: r.choice(['before', 'after', 'after', 'section', 'section+rule', 'undefined']) for t in tnames}
        self.tokens = list(tnames)
        lex = {t: {'name': t, 'lexer': True, 'fragment': r.random() < 0.15, 'exp': self.lexer_body(),
                   'tail': r.choice(['', '', '', ' -> skip', ' -> channel(HIDDEN)'])}
               for t in tnames if where[t] in ('before', 'after', 'section+rule')}
        prules = []
        for i in range(np_ - 1, -1, -1):
            self.later = pnames[i + 1:]
            exp = self.alts(r.choice([1, 1, 2]))
            if i == 0 and r.random() < 0.6:
                exp = ('seq', list(exp[1]) + [('eof',)]) if exp[0] == 'seq' else \
                    ('seq', [('sub', exp) if exp[0] == 'alt' else exp, ('eof',)])
            if r.random() < 0.1:      # an ANTLR 3 rewrite: only after a top-level alternative of a rule
                opts = list(exp[1]) if exp[0] == 'alt' else [exp]
                j = r.randrange(len(opts))
                opts[j] = ('rewrite', opts[j], r.choice(['ID', '$lhs $rhs', 'foo']))
                exp = ('alt', opts) if len(opts) > 1 else opts[0]
            if not self.risky and len(a_src(a_norm(exp))) > 36:
                # the translation of `~x` is a bare sequence: inside a sequence that the printer wraps it is laid out
                # differently from its flat re-reading (recorded defect); long rules write `( ~x )`
                exp = a_group_negs(exp)
            prules.append({'name': pnames[i], 'lexer': False, 'fragment': False, 'exp': exp, 'tail': ''})
        prules.reverse()
        rules = [lex[t] for t in tnames if where[t] == 'before' and r.random() < 0.5]
        first = [x['name'] for x in rules]
        rules = rules + prules + [lex[t] for t in tnames if t in lex and t not in first]
        if rules[0]['lexer'] and r.random() < 0.7:      # mostly keep a parser rule first (the start rule)
            rules = prules + [x for x in rules if x['lexer']]
        prelude = []
        if r.random() < 0.25:
            prelude.append('options { language = Java; tokenVocab = Lex; }')
        if r.random() < 0.12:
            prelude.append('@header { package foo; }')
        if r.random() < 0.12:
            prelude.append('@members { int count = 0; { nested(); } }')
        section = [(t, (r.choice(A_LITS[:30]) if self.risky and r.random() < 0.6 else None)) for t in tnames
                   if where[t].startswith('section')]
        return {'kind': r.choice(['', '', '', 'parser ']), 'prelude': prelude, 'tokens': section,
                'tokstyle': r.choice([3, 4]), 'rules': rules, 'comments': r.random() < 0.3}


def a_norm(e, ctx=''):
    """e with a ('sub', ..) wherever the ANTLR text needs parentheses (shrinking may leave a sequence under a suffix)"""
    k = e[0]
    if k in ('seq', 'alt'):
        return (k, [a_norm(x, k) for x in e[1]])
    if k in ('opt', 'clo', 'pclo', 'neg'):
        c = a_norm(e[1], 'atom')
        if c[0] not in A_ATOMIC and not (k == 'opt' and c[0] in ('clo', 'pclo')):
            c = ('sub', c)
        return (k, c)
    if k in ('label', 'labellist'):
        c = a_norm(e[2], 'atom')
        return (k, e[1], c if c[0] in A_ATOMIC else ('sub', c))
    if k in ('sub', 'synpred'):
        return (k, a_norm(e[1]))
    if k == 'rewrite':
        return (k, a_norm(e[1]), e[2])
    return e


def a_src(e) -> str:
    k = e[0]
    if k == 'lit':
        return e[2] + e[1] + e[2]
    if k in ('ref', 'tref'):
        return e[1]
    if k == 'eof':
        return 'EOF'
    if k == 'any':
        return '.'
    if k == 'set':
        return e[1] + e[2]
    if k == 'nset':
        return '~' + e[1] + e[2]
    if k == 'range':
        return f"'{e[1]}'..'{e[2]}'"
    if k == 'sub':
        return '( ' + a_src(e[1]) + ' )'
    if k == 'synpred':
        return '( ' + a_src(e[1]) + ' )=>'
    if k == 'neg':
        return '~' + a_src(e[1])
    if k in ('opt', 'clo', 'pclo'):
        return a_src(e[1]) + {'opt': '?', 'clo': '*', 'pclo': '+'}[k]
    if k == 'label':
        return e[1] + '=' + a_src(e[2])
    if k == 'labellist':
        return e[1] + '+=' + a_src(e[2])
    if k in ('action', 'pred'):
        return e[1]
    if k == 'rewrite':
        return a_src(e[1]) + ' -> ' + e[2]
    if k == 'seq':
        out = []
        for x in e[1]:
            t = a_src(x if x[0] != 'alt' else ('sub', x))
            # `name [..` is a rule reference with an argument: keep a set apart from a preceding reference
            if out and t.startswith('[') and (out[-1][-1:].isalnum() or out[-1][-1:] == '_'):
                t = '( ' + t + ' )'
            out.append(t)
        return ' '.join(out)
    if k == 'alt':
        return ' | '.join(a_src(x if x[0] != 'alt' else ('sub', x)) for x in e[1])
    raise ValueError(k)


def antlr_text(ag) -> str:
    out = [f"{ag['kind']}grammar Gen;"]
    if ag.get('comments'):
        out.append('// generated\n/* block\n   comment */')
    out += ag['prelude']
    if ag['tokens']:
        if ag['tokstyle'] == 3:
            out.append('tokens { ' + ' '.join(f"{n} = '{v}';" if v is not None else f'{n};' for n, v in ag['tokens']) + ' }')
        else:
            out.append('tokens { ' + ', '.join(f"{n} = '{v}'" if v is not None else n for n, v in ag['tokens']) + ' }')
    for r in ag['rules']:
        body = a_src(a_norm(r['exp']))
        head = ('fragment ' if r['fragment'] else '') + r['name']
        if ag.get('comments') and not r['lexer']:
            out.append('// rule ' + r['name'])
        out.append(f"{head} : {body}{r['tail']} ;")
    return '\n'.join(out) + '\n'


def ag_ok(ag) -> bool:
    if not ag['rules']:
        return False
    names = [r['name'] for r in ag['rules'] if not r['lexer']]
    for r in ag['rules']:
        for e in a_walk(r['exp']):
            if e[0] == 'ref' and e[1] not in names:
                return False
            if e[0] == 'lit' and e[1] == '':
                return False
    return True


SAMPLE_CANDS = ['a', 'b', 'x', 'q', 'z', 'k', 'c', 'f', '7', '0', '42', 'ab', 'xy', 'zz', 'A', 'Q', 'E', '_', '+', '-', ';',
                ',', '.', '"', ' ', '\t', '\n', 'a1', 'x_1', 'é', 'end', 'xq', '9z', '#']


def pattern_samples(p):
    import re
    if p in PAT_SAMPLES:
        return PAT_SAMPLES[p]
    if p not in EXTRA_PAT_SAMPLES:
        try:
            rx = re.compile(p)
            EXTRA_PAT_SAMPLES[p] = [c for c in SAMPLE_CANDS if rx.fullmatch(c)][:6] or ['']
        except Exception:
            EXTRA_PAT_SAMPLES[p] = ['']
    return EXTRA_PAT_SAMPLES[p]


MODEL_KINDS = {'Group': 'group', 'SkipGroup': 'skipgroup', 'Optional': 'opt', 'Closure': 'clo', 'PositiveClosure': 'pclo',
               'Lookahead': 'la', 'NegativeLookahead': 'nla', 'SkipTo': 'skipto', 'Override': 'override',
               'OverrideList': 'overridelist'}
MODEL_JOINS = {'Join': 'join', 'PositiveJoin': 'pjoin', 'Gather': 'gather', 'PositiveGather': 'pgather',
               'LeftJoin': 'leftjoin', 'RightJoin': 'rightjoin'}
MODEL_LEAVES = {'Dot': 'dot', 'EOF': 'eof', 'EOL': 'eol', 'Void': 'void', 'Fail': 'fail', 'Cut': 'cut',
                'EmptyClosure': 'empty'}


def model_exp(n):
    """a model node as an expression spec (only used to sample sentences of a model we did not build from a spec)"""
    t = type(n).__name__
    if t in ('Synth', 'Option'):
        return model_exp(n.exp)
    if t == 'Token':
        return ('tok', str(n.token))
    if t == 'Pattern':
        pattern_samples(n.pattern)
        return ('pat', n.pattern)
    if t == 'Call':
        return ('call', n.name)
    if t == 'RuleInclude':
        return ('include', n.name)
    if t in MODEL_LEAVES:
        return (MODEL_LEAVES[t],)
    if t == 'Sequence':
        return ('seq', [model_exp(x) for x in n.sequence])
    if t == 'Choice':
        return ('choice', [model_exp(x) for x in n.options])
    if t in MODEL_KINDS:
        return (MODEL_KINDS[t], model_exp(n.exp))
    if t in ('Named', 'NamedList'):
        return (t.lower(), n.name, model_exp(n.exp))
    if t in MODEL_JOINS:
        return (MODEL_JOINS[t], model_exp(n.sep), model_exp(n.exp))
    return ('void',)


def model_spec(m):
    return {'directives': [], 'keywords': [],
            'rules': [{'name': r.name, 'decorators': [], 'params': [], 'kwparams': [], 'base': None,
                       'exp': model_exp(r.exp), 'flags': {}} for r in m.rules]}


def antlr_inputs(m, rng, quick):
    """(inputs for the start rule, (rule, text) pairs for the other rules): sentences sampled from the translated
    model itself; of the candidates, those the model accepts are preferred (blanks, name guards and lookaheads make
    many sampled sentences fail on any model, and two failures compare nothing)"""
    spec = model_spec(m)
    rules = {r['name']: r for r in spec['rules']}
    SENT['tease'] = True
    try:
        def sample(rule, n, rich):
            out = []
            for i in range(n):
                s = sentence(rule['exp'], rules, rng, rich=(i < rich)).replace(NOSP, '')
                if s not in out and len(s) <= 300:
                    out.append(s)
            return out
        start = spec['rules'][0]
        cands = [''] + sample(start, 10 if quick else 16, 2)
        for s in list(cands[1:4]):
            if s:
                i = rng.randrange(len(s))
                cands.append(s[:i] + s[i + 1:])
                cands.append(s[:i] + rng.choice(['x', ' ', '9', 'end']) + s[i:])
        acc, rej = [], []
        for s in dict.fromkeys(cands):
            (acc if parse_outcome(m, s)[0] == 'ok' else rej).append(s)
        inputs = acc[:5] + rej[:4 if quick else 8]
        starts = []
        for r in spec['rules'][1:]:
            if r['exp'] in (('fail',), ('void',)):
                continue
            c = sample(r, 5, 1)
            a = [s for s in c if parse_outcome(m, s, r['name'])[0] == 'ok']
            b = [s for s in c if s not in a]
            starts += [(r['name'], s) for s in a[:2] + b[:1]]
    finally:
        SENT['tease'] = False
    return inputs, starts, len(acc)


def antlr_failure(ag, rng, quick, stats=None, model_fix=None):
    """(kind, detail) | None | ('skip', why) for the model that g2e.translate makes of the ANTLR grammar ag
    (model_fix: a counterfactual rewrite of the translated model, see NEUTRAL)"""
    import tatsu
    from tatsu import g2e
    LAST['wrapped'] = False
    try:
        text = antlr_text(ag)
        m = guarded(lambda: g2e.translate(text=text, name='Gen'), 10)
        if model_fix:
            m = model_fix(m)
    except Timeout:
        return ('skip', 'timeout')
    except Exception as e:
        return ('skip', 'invalid:' + type(e).__name__)
    try:
        inputs, starts, nacc = antlr_inputs(m, rng, quick)
    except Timeout:
        return ('skip', 'timeout:inputs')
    if stats is not None:
        stats['accepted'] = nacc
        stats['inputs'] = len(inputs) + len(starts)
        stats['nodes'] = sorted({type(n).__name__ for r in m.rules for n in model_nodes(r)})
    LAST['wrapped'] = is_wrapped(m)
    f = check_model(m, inputs, tatsu.compile, starts)
    if f:
        return f
    return check_rails(m)


def model_nodes(n):
    yield n
    try:
        kids = list(n.children())
    except Exception:
        kids = []
    for c in kids:
        yield from model_nodes(c)


def a_candidates(e):
    k = e[0]
    out = []
    if k in ('seq', 'alt'):
        items = list(e[1])
        out += items
        if len(items) > 1:
            out += [(k, items[:i] + items[i + 1:]) for i in range(len(items))]
        for i, x in enumerate(items):
            out += [(k, items[:i] + [y] + items[i + 1:]) for y in a_candidates(x)]
    elif k in ('sub', 'neg', 'opt', 'clo', 'pclo', 'synpred'):
        out.append(e[1])
        out += [(k, y) for y in a_candidates(e[1])]
    elif k == 'rewrite':
        out.append(e[1])
        out += [(k, y, e[2]) for y in a_candidates(e[1])]
    elif k in ('label', 'labellist'):
        out.append(e[2])
        if k == 'labellist':
            out.append(('label', e[1], e[2]))
        out += [(k, e[1], y) for y in a_candidates(e[2])]
    elif k == 'lit':
        for c in ('a', 'aa'):
            if (e[1], e[2]) != (c, "'") and len(c) <= len(e[1]):
                out.append(('lit', c, "'"))
    elif k in ('set', 'nset'):
        out.append(('lit', 'a', "'"))
        if e[2]:
            out.append((k, e[1], ''))
        if e[1] != '[ab]':
            out.append((k, '[ab]', e[2]))
    else:
        out.append(('lit', 'a', "'"))
    return out


def ag_candidates(ag):
    rules = ag['rules']
    if ag['prelude']:
        yield dict(ag, prelude=[])
    if ag.get('comments'):
        yield dict(ag, comments=False)
    if ag['kind']:
        yield dict(ag, kind='')
    if ag['tokens']:
        yield dict(ag, tokens=[])
        for i in range(len(ag['tokens'])):
            yield dict(ag, tokens=ag['tokens'][:i] + ag['tokens'][i + 1:])
    for i in range(len(rules) - 1, -1, -1):
        if len(rules) > 1:
            yield dict(ag, rules=rules[:i] + rules[i + 1:])
    for i, r in enumerate(rules):
        def with_rule(nr):
            return dict(ag, rules=rules[:i] + [nr] + rules[i + 1:])
        if r['tail']:
            yield with_rule(dict(r, tail=''))
        if r['fragment']:
            yield with_rule(dict(r, fragment=False))
        if r['exp'] != ('lit', 'a', "'"):
            yield with_rule(dict(r, exp=('lit', 'a', "'")))
        for y in a_candidates(r['exp']):
            yield with_rule(dict(r, exp=y))


def a_size(ag) -> int:
    return sum(1 for r in ag['rules'] for _ in a_walk(r['exp'])) + len(ag['tokens']) + len(ag['prelude'])


def antlr_shrink(ag, rng_seed, quick, kind, detail, budget, model_fix=None):
    import random

    def bad(c):
        if not ag_ok(c):
            return False
        f = antlr_failure(c, random.Random(rng_seed), quick, model_fix=model_fix)
        if f is None or f[0] != kind:
            return False
        return f[1] == detail if kind == 'structure-differs' else True
    steps = 0
    changed = True
    while changed and steps < budget:
        changed = False
        for cand in ag_candidates(ag):
            steps += 1
            if steps >= budget:
                break
            if bad(cand):
                ag = cand
                changed = True
                break
    return ag


def a_group_negs(e, top=True):
    """e with every negation `~x` written `( ~x )` (unless it already is the whole content of a sub-expression)"""
    k = e[0]
    if k == 'neg':
        inner = ('neg', a_group_negs(e[1], False))
        return inner if top == 'sub' else ('sub', inner)
    if k in ('seq', 'alt'):
        return (k, [a_group_negs(x, False) for x in e[1]])
    if k == 'sub':
        return (k, a_group_negs(e[1], 'sub'))
    if k in ('opt', 'clo', 'pclo', 'synpred'):
        return (k, a_group_negs(e[1], False))
    if k == 'rewrite':
        return (k, a_group_negs(e[1], False), e[2])
    if k in ('label', 'labellist'):
        return (k, e[1], a_group_negs(e[2], False))
    return e


# counterfactuals for the recorded defects that a translated model meets: the same ANTLR grammar with the construct that
# triggers a recorded defect written in the form that avoids it (or, for a defect of the printers, the translated
# model with the node that triggers it exchanged).  A failure that is there with exactly one trigger left and gone
# without it is that defect (reported under its own signature, no shrinking needed); a failure that stays when all
# triggers are neutralised is shrunk on the neutralised grammar.
def neutral_tokens(ag):
    return dict(ag, tokens=[(n, None) for n, _ in ag['tokens']])


def neutral_negs(ag):
    return dict(ag, rules=[dict(r, exp=a_group_negs(r['exp'])) for r in ag['rules']])


def dots_for_dot_patterns(m):
    """the translated model with every Pattern('.') (g2e's "any character" after a negation) exchanged for Dot, the
    node its pretty form `/./` is read back as (Dot also matches a newline, the regex does not)"""
    from tatsu import peg as g

    def fix(n):
        if type(n).__name__ == 'Pattern' and n.pattern == '.':
            return g.Dot()
        for attr in ('exp', 'sep'):
            c = getattr(n, attr, None)
            if c is not None and hasattr(c, 'children'):
                setattr(n, attr, fix(c))
        for attr in ('sequence', 'options', 'rules'):
            c = getattr(n, attr, None)
            if isinstance(c, (list, tuple)):
                new = [fix(x) for x in c]
                if any(x is not y for x, y in zip(new, c)):
                    setattr(n, attr, type(c)(new))
        return n
    fix(m)
    return m


# (label, does the grammar hold the trigger, ANTLR-level rewrite, model-level rewrite)
NEUTRAL = [
    ('tokens-value', lambda ag: any(v is not None for _, v in ag['tokens']), neutral_tokens, None),
    ('bare-negation', lambda ag: neutral_negs(ag) != ag, neutral_negs, None),
    ('dot-pattern-newline', lambda ag: any(e[0] == 'neg' for r in ag['rules'] for e in a_walk(r['exp'])), None,
     dots_for_dot_patterns),
]


def neutralised(ag, labels):
    """(grammar, model fix) with the triggers named in labels neutralised"""
    fixes = []
    for label, _, ag_fn, m_fn in NEUTRAL:
        if label in labels:
            if ag_fn:
                ag = ag_fn(ag)
            if m_fn:
                fixes.append(m_fn)

    def model_fix(m):
        for fn in fixes:
            m = fn(m)
        return m
    return ag, (model_fix if fixes else None)


def a_head(e):
    e = a_norm(e)
    k = e[0]
    if k == 'sub':
        return 'sub>' + a_head(e[1]).split('>')[0]
    if k == 'lit':
        c = str_class(e[1])
        return 'lit' if c == 'plain' else 'lit:' + c
    return k


def antlr_features(ag) -> list[str]:
    out = set()
    if ag['tokens']:
        out.add('tokens{}')
    if ag['prelude']:
        out.add('prelude')
    names = [r['name'] for r in ag['rules']]
    if len(set(names)) < len(names):
        out.add('duplicate-rule')
    for r in ag['rules']:
        if r['lexer']:
            out.add('lexer-rule')
        if r['fragment']:
            out.add('fragment')
        if r['tail']:
            out.add('lexer-command')
        for e in a_walk(a_norm(r['exp'])):
            k = e[0]
            if k in ('seq', 'ref'):
                continue
            if k == 'lit':
                h = a_head(e)
                if h != 'lit':
                    out.add(h)
            elif k in ('neg', 'opt', 'clo', 'pclo', 'synpred'):
                out.add(k + '>' + a_head(e[1]))
            elif k in ('label', 'labellist'):
                out.add(k + '>' + a_head(e[2]))
            elif k == 'sub':
                out.add(a_head(e))
            elif k in ('set', 'nset'):
                out.add(k + (':rep' if e[2] else ''))
            else:
                out.add(k)
    return sorted(out)


def run_antlr(chk: Check):
    import random
    rng = chk.rng
    n = 40 if chk.quick else 200
    nbad = nskip = nshrunk = 0
    kinds_seen = set()
    for it in range(n):
        for _ in range(12):
            ag = AGen(rng, risky=(it % 5 == 4)).grammar()
            if ag_ok(ag) and a_size(ag) <= 45:
                break
        else:
            chk.count('antlr.generator-invalid')
            continue
        seed = rng.randrange(1 << 30)
        stats: dict = {}
        f = antlr_failure(ag, random.Random(seed), chk.quick, stats)
        chk.count('antlr.' + ('ok' if f is None else f[0] if f[0] != 'skip' else 'skip:' + f[1]))
        chk.count('antlr.wrapped' if LAST['wrapped'] else 'antlr.one-line')
        chk.case('antlr:' + json.dumps(ag, sort_keys=True, default=str), nontrivial=(f is None or f[0] != 'skip'))
        for r in ag['rules']:
            for e in a_walk(a_norm(r['exp'])):
                chk.count('antlr.node.' + (e[0] if e[0] != 'neg' else 'neg>' + a_head(e[1])))
        for t in stats.get('nodes', []):
            kinds_seen.add(t)
        chk.count('antlr.inputs', stats.get('inputs', 0))
        chk.count('antlr.inputs.start-accepted', stats.get('accepted', 0))
        if f is None:
            continue
        if f[0] == 'skip':
            nskip += 1
            continue
        nbad += 1
        f0 = f
        # a recorded defect?  With every trigger of one neutralised the failure must be gone, and with exactly one
        # trigger left it must be back: then what is seen with that trigger alone is that defect
        labels = [l for l, applies, _, _ in NEUTRAL if applies(ag)]
        base, mfix = neutralised(ag, labels)
        if labels:
            f = antlr_failure(base, random.Random(seed), chk.quick, model_fix=mfix)
            if f is not None and f[0] == 'skip':
                chk.count('antlr.explained.skip')
                continue
            if f is None:
                hit = False
                for l in labels:
                    ag1, mfix1 = neutralised(ag, [x for x in labels if x != l])
                    f1 = antlr_failure(ag1, random.Random(seed), chk.quick, model_fix=mfix1)
                    if f1 is None or f1[0] == 'skip':
                        continue
                    hit = True
                    chk.count('antlr.explained.' + l)
                    chk.violation(f'{f1[0]}[]:antlr:{l}',
                                  f'{f1[0]} {f1[1]} for a model translated from ANTLR by tatsu.g2e; not when the trigger '
                                  f'of the recorded defect is avoided: {l}',
                                  {'oracle': 'antlr round trip', 'origin': 'antlr', 'failure': list(f1),
                                   'antlr': antlr_text(ag1), 'spec': ag1, 'input_seed': seed, 'only trigger left': l})
                if not hit:      # only the combination fails: not one of the recorded classes
                    chk.violation(f'{f0[0]}[]:antlr:' + '+'.join(labels),
                                  f'{f0[0]} {f0[1]} for a model translated from ANTLR by tatsu.g2e, only with all of: '
                                  + ', '.join(labels),
                                  {'oracle': 'antlr round trip', 'origin': 'antlr', 'failure': list(f0),
                                   'antlr': antlr_text(ag), 'spec': ag, 'input_seed': seed})
                continue
        nshrunk += 1
        if chk.quick and nshrunk > 8:      # enough witnesses for one quick run: the rest is reported unshrunk
            chk.count('antlr.unshrunk')
            chk.violation(f'{f[0]}[]:antlr:unshrunk', f'{f[0]} {f[1]} for a model translated from ANTLR by tatsu.g2e',
                          {'oracle': 'antlr round trip', 'origin': 'antlr', 'failure': list(f), 'antlr': antlr_text(base),
                           'spec': base, 'input_seed': seed})
            continue
        chk.count('antlr.explained.by-shrink')
        small = antlr_shrink(base, seed, chk.quick, f[0], f[1], 100 if chk.quick else 600, mfix)
        f2 = antlr_failure(small, random.Random(seed), chk.quick, model_fix=mfix) or f
        if f2[0] == 'skip':
            small, f2 = base, f
        detail = f2[1] if f2[0] in ('structure-differs', 'rule-attrs-differ', 'directives-differ', 'rails-raises') else ''
        sig = f'{f2[0]}[{detail}]:antlr:' + ','.join(antlr_features(small))
        rep = {'oracle': 'antlr round trip', 'origin': 'antlr', 'failure': list(f2), 'antlr': antlr_text(small),
               'spec': small, 'input_seed': seed}
        try:
            from tatsu import g2e
            rep['pretty'] = g2e.translate(text=antlr_text(small), name='Gen').pretty()
        except Exception as e:
            rep['pretty'] = f'<{type(e).__name__}>'
        chk.violation(sig, f'{f2[0]} {f2[1]} for a model translated from ANTLR by tatsu.g2e: '
                      + ' / '.join(antlr_features(small)), rep)
    chk.obligation('O1b:models translated from ANTLR (tatsu.g2e.translate): pretty() recompiles, is a fixpoint, parses '
                   'equally from every rule, has the same structure; railroads equal width', 'oracle',
                   not any(v['replay'].get('oracle') == 'antlr round trip' for v in chk.violations)
                   and nskip * 4 <= n, f'{n} grammars, {nskip} not translated')
    chk.sample({'antlr grammars': n, 'failing (incl. known)': nbad, 'not translated': nskip,
                'model node kinds': sorted(kinds_seen)})


def run_oracle(chk: Check):
    rng = chk.rng
    n = 90 if chk.quick else 300
    nbad = 0
    prober = Prober(chk)
    if not chk.quick:
        sweep_atoms(chk, prober)
    for it in range(n):
        risky = it % 4 == 3
        prog = it % 3 == 2
        gen = Gen(rng, risky=risky, prog=prog)
        spec = gen.grammar()
        if not spec_ok(spec):
            chk.count('oracle.generator-invalid')
            continue
        inputs = sample_inputs(spec, rng, 3 if chk.quick else 5, rich=1)
        origins = ['prog', 'progjson'] if prog else ['text', 'json']
        origin = origins[(it // 3) % 2] if chk.quick else None
        for og in ([origin] if origin else origins):
            f = failure(spec, og, inputs)
            chk.count(f'oracle.{og}.' + ('ok' if f is None else f[0] if f[0] != 'skip' else 'skip:' + f[1]))
            chk.case(f'oracle:{og}:' + json.dumps(spec, sort_keys=True, default=str), nontrivial=(f is None or f[0] != 'skip'))
            for r in spec['rules']:
                for e in walk(r['exp']):
                    chk.count('node.' + e[0])
            if f is None or f[0] == 'skip':
                continue
            nbad += 1
            prober.explain(spec, og, inputs, f)
    run_layout(chk, prober)
    run_headers(chk, prober)
    run_antlr(chk)
    chk.obligation('O1:pretty() recompiles, is a fixpoint, parses equally, keeps headers; railroads equal width',
                   'oracle', not any(v['replay'].get('oracle') == 'pretty round trip' for v in chk.violations))
    chk.sample({'grammars': n, 'failing (incl. known)': nbad})


# =====================================================================================================
# P2: quoting level - Pretty.v vs repr / Token._pretty / Pattern._pretty / tatsu.compile
# =====================================================================================================
TRIPLE = ("'" * 3, '"' * 3)


def eres(x):
    if x == 'err':
        return ('err',)
    if x == 'unk':
        return ('unk',)
    return ('ok', sx_str(x[1]))


def real_atom(lit_text: str, cls: str, attr: str):
    """what tatsu.compile makes of `start: <lit_text>`: ('ok', text) | ('fail',) | ('other', class)"""
    import tatsu
    try:
        m = tatsu.compile('start: ' + lit_text + '\n')
    except Exception as e:
        if 'regexp() generated invalid' in str(e):
            return ('regexpp',)      # the lexeme was read; util.regexpp then fails on the pattern text (not C13)
        return ('fail',)
    e = m.rules[0].exp
    if type(e).__name__ != cls or len(m.rules) != 1:
        return ('other', type(e).__name__)
    return ('ok', getattr(e, attr))


def run_quoting(chk: Check, mr: ModelRun):
    from tatsu.peg import Token, Pattern
    from tatsu.util import trim
    rng = chk.rng
    alpha = ['a', "'", '"', '\\', '\n', 'n', 'x', '4', '1', ' ', '\t', 'é', '\x7f', '\x00', '\xa0', '\u200b',
             '\U0001f600', 'u', 'U', '0', '{', '}', 'N', '/']
    texts = [''.join(t) for t in ([()] + [(a,) for a in alpha] + [(a, b) for a in alpha for b in alpha])]
    k = 3 if chk.quick else 4
    texts += [s for s in vlib.all_strings('\'"\\a\n', k) if len(s) > 2]
    for _ in range(300 if chk.quick else 3000):
        texts.append(''.join(rng.choice(alpha) for _ in range(rng.randint(3, 9))))
    texts = list(dict.fromkeys(texts))
    # (a) py_repr vs repr() and Token._pretty
    reqs = [f'(py_repr {sx([ord(c) for c in sorted(set(t)) if not c.isprintable()])} {sx(t)})' for t in texts]
    bad = 0
    for t, rep in zip(texts, mr.ask(reqs)):
        model = sx_str(rep)
        chk.case('repr:' + t, nontrivial=t != '')
        chk.count('quoting.py_repr')
        impl = repr(t)
        tp = Token(token=t)._pretty() if t else impl
        if model != impl or tp != impl:
            bad += 1
            chk.violation('corr:py_repr', f'py_repr model / Token._pretty / repr differ on {t!r}',
                          {'correspondence': 'P2 py_repr', 'input': t, 'repr': impl, 'model': model, 'token_pretty': tp})
    chk.obligation('P2a:py_repr (Pretty.v) = repr() = Token._pretty', 'correspondence', bad == 0)
    # (b) unquote vs tatsu.compile of a one-rule grammar holding the literal
    lits = [repr(t) for t in texts if t and len(t) <= 3][: (220 if chk.quick else 1500)]
    lits += ["'a\\'b'", '"a\\"b"', "'\\x41'", "'\\x4'", "'\\x4g'", "'\\u0041'", "'\\u004'", "'\\U0001f600'",
             "'\\U00110000'", "'\\101'", "'\\1'", "'\\18'", "'\\777'", "'\\q'", "'\\\\'", "'\\'", "'a\\", "'\\a\\b\\f\\v'",
             "'a\nb'", "''", '""', "'\\N'", "'\\N{}'", "'\\x\n1'", "'ab' ", "'\\u00e9\\xe9'", "'\\ud800'",
             "'\\U0000004'", "'\\8'", "'\\x4\\x41'", "'\\\\x41'"]
    bad = 0
    reqs = [f'(unquote {sx(l + chr(10))})' for l in lits]
    for l, rep in zip(lits, mr.ask(reqs)):
        chk.case('unquote:' + l)
        chk.count('quoting.unquote')
        if l.startswith(TRIPLE):
            chk.count('quoting.unquote.outside-model')
            continue
        if rep == 'none':
            model = ('fail',)
        else:
            r, rest = eres(rep[1][0]), sx_str(rep[1][1])
            if r[0] == 'unk':
                chk.count('quoting.unquote.outside-model')
                continue
            if rest.strip() != '':
                chk.count('quoting.unquote.more-than-one-lexeme')
                continue      # only the first lexeme is modelled; what follows is another element or garbage
            if r[0] == 'err' or r[1] == '':
                model = ('fail',)       # the codec raises / GrammarSemantics.token rejects the empty token
            else:
                model = r
        impl = real_atom(l, 'Token', 'token')
        if impl != model:
            bad += 1
            chk.violation('corr:unquote', f'string lexeme + eval_escapes model differs from tatsu.compile on {l!r}',
                          {'correspondence': 'P2 unquote', 'literal': l, 'impl': list(impl), 'model': list(model)})
    chk.obligation('P2b:lex_string + eval_escapes (Pretty.v) = tatsu.compile of a one-token grammar', 'correspondence',
                   bad == 0)
    # (c) the refutation witness of the theorem, replayed on the real code
    w = '\'"'
    got = real_atom(repr(w), 'Token', 'token')
    chk.obligation('P2c:witness of C13_token_quoting_roundtrip_refuted replays on tatsu.compile', 'witness',
                   got != ('ok', w), f'{got!r}')
    if got != ('ok', w):
        chk.violation('theorem:token-both-quotes',
                      'repr() of a token with both kinds of quote is not read back (Coq witness replayed)',
                      {'theorem': 'C13_token_quoting_roundtrip_refuted', 'token': w, 'pretty': repr(w),
                       'compile': list(got)})
    # (d) patterns
    pats = [p_ for p_, _ in PATTERNS_CLEAN + PATTERNS_RISKY if p_]
    palpha = ['a', '/', '"', '\\\\', '\\/', "'", '\\"', '\n', ' ', '.', '+']
    for _ in range(100 if chk.quick else 1200):
        p_ = ''.join(rng.choice(palpha) for _ in range(rng.randint(1, 5)))
        if valid_re(p_):
            pats.append(p_)
    pats = list(dict.fromkeys(pats))
    bad = 0
    printed = []
    for p_, rep in zip(pats, mr.ask([f'(pattern_pretty {sx(trim(p_))})' for p_ in pats])):
        model = sx_str(rep)
        impl = Pattern(pattern=p_)._pretty()
        chk.case('pattern_pretty:' + p_)
        chk.count('quoting.pattern_pretty')
        if model != impl:
            bad += 1
            chk.violation('corr:pattern_pretty', f'pattern printer model differs on {p_!r}',
                          {'correspondence': 'P2 pattern_pretty', 'input': p_, 'impl': impl, 'model': model})
        printed.append(impl)
    chk.obligation('P2d:pattern_pretty (Pretty.v, after trim) = Pattern._pretty', 'correspondence', bad == 0)
    bad = 0
    printed = [t for t in dict.fromkeys(printed) if t not in ('/./', '//') and not t.startswith('/*')]
    for t, rep in zip(printed, mr.ask([f'(lex_regex {sx(t + chr(10))})' for t in printed])):
        chk.case('lex_regex:' + t)
        chk.count('quoting.lex_regex')
        if rep == 'none':
            model = ('fail',)
        else:
            body, rest = sx_str(rep[1][0]), sx_str(rep[1][1])
            if rest.strip() != '':
                chk.count('quoting.lex_regex.more-than-one-lexeme')
                continue
            model = ('ok', body) if valid_re(body) else ('fail',)
        impl = real_atom(t, 'Pattern', 'pattern')
        if impl == ('regexpp',):
            chk.count('quoting.lex_regex.regexpp-defect')
            continue
        if impl != model:
            bad += 1
            chk.violation('corr:lex_regex', f'regex lexeme model differs from tatsu.compile on {t!r}',
                          {'correspondence': 'P2 lex_regex', 'literal': t, 'impl': list(impl), 'model': list(model)})
    chk.obligation('P2e:lex_regex (Pretty.v) = tatsu.compile of a one-pattern grammar', 'correspondence', bad == 0)
    w = '"/'
    got = real_atom(Pattern(pattern=w)._pretty(), 'Pattern', 'pattern')
    chk.obligation('P2f:witness of C13_pattern_quoting_roundtrip_refuted replays on tatsu.compile', 'witness',
                   got != ('ok', w), f'{got!r}')
    if got != ('ok', w):
        chk.violation('theorem:pattern-slash-and-dquote',
                      'the pretty form of a pattern with a slash and a double quote is not read back (Coq witness replayed)',
                      {'theorem': 'C13_pattern_quoting_roundtrip_refuted', 'pattern': w,
                       'pretty': Pattern(pattern=w)._pretty(), 'compile': list(got)})


# =====================================================================================================
# P3: Rails.v vs railmath.py
# =====================================================================================================
def run_rails(chk: Check, mr: ModelRun):
    from tatsu.railroads import railmath as rm
    rng = chk.rng
    chars = ['a', 'b', '─', ' ', '│', rm.ETX, '漢', 'é', '→', "'"]

    def line():
        return ''.join(rng.choice(chars) for _ in range(rng.randint(0, 6)))

    def eqrails(maxh=4, allow_empty=True):
        """rails whose lines have one display width"""
        h = rng.randint(0 if allow_empty else 1, maxh)
        if h == 0:
            return []
        w = rng.randint(0, 7)
        out = []
        for _ in range(h):
            s = ''
            while ulen(s) < w:
                c = rng.choice(chars)
                if ulen(s + c) <= w:
                    s += c
            out.append(s)
        if rng.random() < 0.1:
            out[rng.randrange(h)] = rm.ETX
        return out

    def wide(*rails_lists):
        return sorted({ord(c) for rl in rails_lists for l in rl for c in l if ulen(c) == 2})

    def call(fn, *a):
        try:
            return ('ok', fn(*a))
        except AssertionError:
            return ('assert',)
        except IndexError:
            return ('index',)

    n = 300 if chk.quick else 5000
    reqs, expect = [], []
    for i in range(n):
        k = i % 5
        if k == 0:
            r = [line() for _ in range(rng.randint(0, 4))]
            reqs.append(f'(loop {sx(wide(r))} {sx(r)})')
            expect.append(('loop', [r], call(rm.loop, r), True))
        elif k == 1:
            r = [line() for _ in range(rng.randint(0, 4))]
            reqs.append(f'(stopnloop {sx(wide(r))} {sx(r)})')
            expect.append(('stopnloop', [r], call(rm.stopnloop, r), True))
        elif k == 2:
            l, r = eqrails(), eqrails()
            pre = len({ulen(x) for x in l}) <= 1 and len({ulen(x) for x in r}) <= 1
            reqs.append(f'(weldtwo {sx(wide(l, r))} {sx(l)} {sx(r)})')
            expect.append(('weldtwo', [l, r], call(rm.weldtwo, l, r), pre))
        elif k == 3:
            ts = [eqrails() for _ in range(rng.randint(0, 4))]
            pre = all(len({ulen(x) for x in t}) <= 1 for t in ts)
            reqs.append(f'(weld {sx(wide(*ts))} {sx(ts)})')
            expect.append(('weld', ts, call(rm.weld, *ts), pre))
        else:
            ts = [eqrails(3, allow_empty=rng.random() < 0.15) for _ in range(rng.randint(0, 4))]
            pre = all(t and len({ulen(x) for x in t}) <= 1 for t in ts)
            reqs.append(f'(lay_out {sx(wide(*ts))} {sx(ts)})')
            expect.append(('lay_out', ts, call(rm.lay_out, ts), pre))
    bad = 0
    for (fn, args, impl, pre), rep in zip(expect, mr.ask(reqs)):
        chk.case(f'rails:{fn}:{args!r}', nontrivial=any(args))
        chk.count('rails.' + fn)
        if fn == 'lay_out':
            model = ('index',) if rep == 'none' else ('ok', [sx_str(x) for x in (rep[1] if rep[1] != 'nil' else [])])
        else:
            model = ('ok', [sx_str(x) for x in (rep if rep != 'nil' else [])])
        if impl[0] == 'assert' or (impl[0] == 'ok' and len({ulen(x) for x in impl[1]}) > 1):
            if pre:
                chk.violation('oracle:rails-unequal', f'{fn} gives lines of different widths on equal-width arguments',
                              {'oracle': 'equal width', 'fn': fn, 'args': args, 'out': list(impl)})
            if impl[0] == 'assert':
                continue      # the model has no assertion; unequal arguments are outside the theorem
        if impl != model:
            bad += 1
            chk.violation('corr:rails-' + fn, f'railmath.{fn} differs from Rails.v',
                          {'correspondence': 'P3 ' + fn, 'args': args, 'impl': list(impl), 'model': list(model)})
    chk.obligation('P3:railmath.py loop/stopnloop/weldtwo/weld/lay_out vs Rails.v (incl. wide characters and ETX)',
                   'correspondence', bad == 0)


def source_shape(chk: Check):
    """the literals the Coq models were written against (fail closed)"""
    ebnf = (vlib.REPO / 'tatsu/_tatsu.ebnf').read_text()
    want = [r"""SINGLEQUOTED: /'((?:[^'\n]|\\'|\\\\)*?)'/ ~""", r'''DOUBLEQUOTED: /"((?:[^"\n]|\\"|\\\\)*?)"/ ~''',
            r'''REGEX: &'/' ?"(?ms)/((?:[^/\\]|\\/|\\.)*)/" ~''', "regex: deprecated_regex | !'?/' ( REGEX | '?' =STRING)",
            '''string: &('"'|"'") (multiline_string | singlequoted | doublequoted)''']
    missing = [w for w in want if w not in ebnf]
    chk.obligation('T1:_tatsu.ebnf string / regex lexemes as modelled', 'translator', not missing, '; '.join(missing))
    st = (vlib.REPO / 'tatsu/util/strtools.py').read_text()
    want = [r'( \\U........', r'| \\u....', r'| \\x..', r'| \\[0-7]{1,3}', r'| \\N\{[^}]+}', r'''| \\[\\'"abfnrtv]''']
    missing = [w for w in want if w not in st]
    chk.obligation('T2:eval_escapes alternatives as modelled', 'translator', not missing, '; '.join(missing))
    rmsrc = (vlib.REPO / 'tatsu/railroads/railmath.py').read_text()
    want = ['f"  ├─{railpad_(joint, maxl)}─┤ "', 'f"  │ {blankpad(rail, maxl)} │ "', 'f"  └─{railpad_(\'\', maxl)}<┘  "',
            'f"──┬→{railpad_(\'\', maxl)}─┬──"', 'f"  ├→{railpad_(first, maxl)}─┤  "',
            'f"──┬─{railpad_(first, maxl)}─┬──"', "ETX = '＄'", 'corner = "─┘ "', 'f"──┬─{blankpad(joint, maxl)} ┬─"']
    missing = [w for w in want if w not in rmsrc]
    chk.obligation('T3:railmath.py layout literals as modelled', 'translator', not missing, '; '.join(missing))


def main():
    chk = Check(PID)
    chk.rule = ('O1: generated grammar models (1-5 rules; full expression language incl. $->, @meta, alerts, constants, '
                'patterns with slashes/quotes, tokens with quotes/backslashes, joins/gathers, named/override, params, '
                'kwparams, base rules, decorators, directives, keywords), every 4th from the risky pools, every 3rd built '
                'with the tatsu.peg constructors; obtained via text / JSON reload / constructors / constructors+JSON; '
                '3-5 sampled sentences + mutations + a rich sentence each; failing grammars explained by single-feature probes (each a '
                'minimal grammar) or shrunk. Layout family: every container kind (group, skip group, optional, closures, '
                'lookaheads, skip-to, override, named, the six joins / gathers incl. a wrapped separator, choice option, '
                'sequence element, rule body) around bodies that the printers wrap (sequence past 72 columns, choice past '
                'its budget, a short body holding a wrapped element) and one-line controls at the thresholds, plus random '
                'grammars from pools of long literals / names; sentences where every repetition runs at least twice and '
                'patterns are glued to the preceding text (patterns do not skip blanks). Header family: an @name grammar '
                'reserving keyword lists - equal-length words at every list size up to 3 (quick) / 6 printed lines, ragged '
                'lists of 5-45 words, keywords of 40-80 characters first / in the middle / last in sorted order (one or two '
                'in a row, all long), keywords whose repr uses the other quote / escapes / wide characters - parsed on the '
                'keywords themselves; rule headers: each parameter value type (name, string, path, quote, non-ASCII, int, 0, '
                'negative, float, True, False, None) alone / after / before a name / as keyword parameter, and mixed tuples, '
                'on a plain rule, a based rule with own parameters, one inheriting them, chains b1 < b0 (inherited / own), '
                'some with @name / @nomemo or a wrapped body, origins rotating. Sentences of a based rule start with a '
                'sentence of its base rule. Besides equal ASTs on the sampled '
                'inputs the recompiled model must be built from the same constructors in the same places (Fail = !(), '
                'pattern . = Dot, nested sequences / choices flattened, g2e Synth placeholders transparent). ANTLR family: '
                'random ANTLR grammars (1-4 parser rules over literals incl. escapes and double-quoted ones, rule and '
                'token references (token defined before / after / in tokens{} / nowhere), parenthesised sub-expressions, '
                '~ of a literal / token / set / negation / sub-expression with alternatives or sequences, ? * + +? '
                'suffixes, = and += labels, alternatives incl. empty ones, actions, predicates, syntactic predicates, '
                'rewrites, sets and ranges; lexer rules incl. fragments and lexer commands, options / @header / '
                '@members, comments; camelCase names) translated by tatsu.g2e.translate, then the same O1 oracles with '
                'sentences sampled from the translated model (accepted ones preferred, the operand of a negation now '
                'and then put where it is forbidden) and 2-3 sentences of every other rule parsed with that rule as '
                'start; every 5th grammar may use the forms that hit the recorded translator defects (a failure that '
                'disappears when those forms are rewritten is reported under that defect, anything else is shrunk). '
                'Budgets are CPU seconds; an overrun skips the '
                'case and is never a verdict. thorough: also every pool entry and node kind alone. P2: all texts of length '
                '<= 2 over a 24-character alphabet, all of length <= 3 (quick) / 4 (thorough) over quote, dquote, backslash, '
                'a, newline, random longer ones; hand-written escape literals. P3: random rails incl. wide characters and '
                'ETX. Non-trivial: model obtained (not skipped) / text non-empty; distinct by content hash.')
    chk.trusted += ['Python re, repr, codecs unicode-escape, unicodedata (oracles: printable, east_asian_width)',
                    'modelled: repr of str, Pattern._pretty after trim, SINGLEQUOTED/DOUBLEQUOTED/REGEX/?STRING lexemes, '
                    'eval_escapes, railmath.py; NOT modelled (oracle only): the node printers, layout / ENDRULE, trim(), '
                    'multiline strings, backslash-N{name}, comment skipping before a lexeme, walker.py']
    chk.assumptions += ['programmatically built models respect the precedence of the grammar (a Choice or Sequence nested '
                        'in a Sequence / Named / lookahead is wrapped in a Group, as tatsu/g2e does); includes and bases '
                        'name rules defined earlier',
                        'ANTLR family: only the subset of ANTLR that tatsu/g2e/antlr.tatsu reads; what the translation '
                        'means is not judged (only that its pretty text is the same parser as the translated model)']
    source_shape(chk)
    if not chk.no_coq:
        chk.coq()
    ok, out = vlib.build_modelrun('Pretty')
    chk.obligation('modelrun_Pretty builds', 'build', ok, out[-500:])
    if ok:
        mr = ModelRun('Pretty')
        run_quoting(chk, mr)
        run_rails(chk, mr)
    run_oracle(chk)
    chk.exhaustive = False
    return chk.finish()


if __name__ == '__main__':
    sys.exit(main())
