"""C19 - the packet queue is lossless and delivers each packet once, in order."""
from __future__ import annotations

import ast
import json
import os
import shutil
import sys
import tempfile
from pathlib import Path

sys.path.insert(0, str(Path(__file__).resolve().parent.parent))
import vlib
from vlib import Check, ModelRun, sx, sx_str, Atom

PID = 'C19'


# ------------------------------------------------------------------ source shape (tie of constants)
def source_shape(chk: Check):
    """The regex literals / replace pairs the model was written against (fail closed)."""
    src = (vlib.REPO / 'tatsu/packetz/compact.py').read_text()
    tree = ast.parse(src)
    consts = {}
    for fn in [n for n in tree.body if isinstance(n, ast.FunctionDef)]:
        strs = [n.value for n in ast.walk(fn) if isinstance(n, ast.Constant) and isinstance(n.value, str)]
        consts[fn.name] = strs
    want_enc = {'~', '~~', r'([^~])\1{3,}'}
    want_dec = {r'~~|~([^~])(\d+)~', '~'}
    enc = set(c for c in consts.get('rle_encode', []) if len(c) < 40)
    dec = set(c for c in consts.get('rle_decode', []) if len(c) < 40)
    ok_e = want_enc <= enc and not [c for c in enc - want_enc if '~' in c and c != '~']
    ok_d = want_dec <= dec and not [c for c in dec - want_dec if '~' in c]
    chk.obligation('T3:compact.py rle_encode literals', 'translator', ok_e, f'found {sorted(enc)}')
    chk.obligation('T3:compact.py rle_decode literals', 'translator', ok_d, f'found {sorted(dec)}')
    psrc = (vlib.REPO / 'tatsu/packetz/packet.py').read_text()
    ptree = ast.parse(psrc)
    pc = {}
    for fn in [n for n in ptree.body if isinstance(n, ast.FunctionDef)]:
        pc[fn.name] = [n.value for n in ast.walk(fn) if isinstance(n, ast.Constant) and isinstance(n.value, str)]
    ok_c = pc.get('class_escape') == ['"__class__":', '"@":'] and pc.get('class_unescape') == ['"@":', '"__class__":']
    chk.obligation('T4:packet.py class_escape pairs', 'translator', ok_c, str((pc.get('class_escape'), pc.get('class_unescape'))))


# ------------------------------------------------------------------ Q1 rle correspondence + oracle
def rle_cases(chk: Check):
    alpha = '~a14'
    n = 6 if chk.quick else 8
    cases = list(vlib.all_strings(alpha, n))
    extra_alpha = '~a14 \\e"@:{f\x1bb\n'
    rng = chk.rng
    for _ in range(1500 if chk.quick else 20000):
        k = rng.randint(0, 40)
        s = []
        while len(s) < k:
            c = rng.choice(extra_alpha)
            s.extend(c * rng.choice([1, 1, 1, 2, 3, 4, 5, 9, 10, 11, 12, 100, 101] if rng.random() < 0.3 else [1, 2]))
        cases.append(''.join(s[:60]))
    return cases


def run_rle(chk: Check, mr: ModelRun):
    from tatsu.packetz import compact
    cases = rle_cases(chk)
    enc_req = [f'(rle_encode {sx(s)})' for s in cases]
    enc_model = [sx_str(r) for r in mr.ask(enc_req)]
    dec_inputs = []
    n_bad = 0
    for s, em in zip(cases, enc_model):
        ei = compact.rle_encode(s)
        chk.case('rle:' + s, nontrivial=('~' in s or ei != s))
        chk.count('rle_encode.cases')
        if ei != s:
            chk.count('rle_encode.compressed')
        if ei != em:
            n_bad += 1
            chk.violation('corr:rle_encode', f'rle_encode differs from the model on {s!r}',
                          {'correspondence': 'Q1 rle_encode', 'input': s, 'impl': ei, 'model': em})
        back = compact.rle_decode(ei)
        if back != s:
            small = vlib.shrink_string(s, lambda t: compact.rle_decode(compact.rle_encode(t)) != t)
            chk.violation('oracle:rle-roundtrip', f'rle_decode(rle_encode(s)) != s for s={small!r}',
                          {'oracle': 'rle round trip', 'input': small, 'encoded': compact.rle_encode(small),
                           'decoded': compact.rle_decode(compact.rle_encode(small))})
        dec_inputs.append(ei)
    # decode on arbitrary (not necessarily encoded) ASCII-digit strings
    # (decoding arbitrary text can ask for astronomically long runs, e.g. '~a1111111111~': keep counts below 10^4)
    import re as _re
    dec_inputs += [s for s in cases if all(not c.isdigit() or c in '0123456789' for c in s)
                   and not _re.search(r'~[^~]\d{5,}~', s)]
    dec_model = [sx_str(r) for r in mr.ask([f'(rle_decode {sx(s)})' for s in dec_inputs])]
    for s, dm in zip(dec_inputs, dec_model):
        di = compact.rle_decode(s)
        chk.count('rle_decode.cases')
        chk.evaluations += 1
        if di != dm:
            chk.violation('corr:rle_decode', f'rle_decode differs from the model on {s!r}',
                          {'correspondence': 'Q1 rle_decode', 'input': s, 'impl': di, 'model': dm})
    chk.obligation('Q1:rle_encode/rle_decode vs model', 'correspondence',
                   not any(v['signature'].startswith('corr:rle') for v in chk.violations))
    chk.sample({'rle_encode': cases[37], 'model': enc_model[37]})


# ------------------------------------------------------------------ Q2 pack/unpack oracle
SPECIAL = ['~', '~~', 'aaaa', 'aaaaa', '~a1~', '~14~', '\\e', '\\e[1m', '\x1b[0m', '\\x1b', 'f{a', 'f{', '"@":',
           '"__class__":', '@', '__class__', '\n', '\r', '\u2028', ' ' * 7, 'é' * 5, '\\', '"', '{', '}', ':', '0' * 4,
           '1111', '~~~~~', 'x~4~', '\\u001b', '\t', '']


def gen_payload(rng, depth=0, risky=False):
    r = rng.random()
    if depth > 2 or r < 0.45:
        k = rng.random()
        if k < 0.15:
            return rng.choice([None, True, False, 0, 1, -7, 3.5, 10 ** 12])
        parts = []
        for _ in range(rng.randint(0, 4)):
            if rng.random() < 0.5:
                parts.append(rng.choice(SPECIAL))
            else:
                parts.append(rng.choice('ab1~ ') * rng.choice([1, 2, 4, 6, 11]))
        s = ''.join(parts)
        if not risky:
            while s.startswith(('f{', '\\e[')):
                s = 'x' + s
        return s
    if r < 0.75:
        return [gen_payload(rng, depth + 1, risky) for _ in range(rng.randint(0, 3))]
    d = {}
    for _ in range(rng.randint(0, 3)):
        key = rng.choice(['k', 'a~', 'aaaaa', 'to', 'data', 'id', 'x y', '\\e', 'f{k', 'a~~b', '~x5~', '~~', 'a~b', '~a12~z', '__typename', '__meta',
                          '__', '_x', '__init__', 'x__', '~'])
        if risky and rng.random() < 0.3:
            key = rng.choice(['@', '__class__'])
        d[key] = gen_payload(rng, depth + 1, risky)
    return d


def features(p) -> set:
    out = set()
    if isinstance(p, str):
        if p.startswith('f{'):
            out.add('str-startswith-f{')
        if p.startswith('\\e['):
            out.add('str-startswith-\\e[')
    elif isinstance(p, list):
        for x in p:
            out |= features(x)
    elif isinstance(p, dict):
        for k, v in p.items():
            if k == '@':
                out.add('dict-key-@')
            if k == '__class__':
                out.add('dict-key-__class__')
            out |= features(v)
    return out


def shrink_payload(p, bad):
    """greedy structural shrink while bad(p)"""
    changed = True
    while changed:
        changed = False
        cands = []
        if isinstance(p, list):
            cands += [p[:i] + p[i + 1:] for i in range(len(p))] + list(p)
        elif isinstance(p, dict):
            cands += [{k: v for k, v in p.items() if k != kk} for kk in p] + list(p.values())
            for kk in p:
                for sub in _subs(p[kk]):
                    q = dict(p)
                    q[kk] = sub
                    cands.append(q)
        elif isinstance(p, str):
            cands += [p[:i] + p[i + 1:] for i in range(len(p))]
        if isinstance(p, list):
            for i, x in enumerate(p):
                for sub in _subs(x):
                    cands.append(p[:i] + [sub] + p[i + 1:])
        for c in cands:
            try:
                if bad(c):
                    p = c
                    changed = True
                    break
            except Exception:
                pass
    return p


def _subs(x):
    if isinstance(x, list):
        return [x[:i] + x[i + 1:] for i in range(len(x))] + list(x)
    if isinstance(x, dict):
        return [{k: v for k, v in x.items() if k != kk} for kk in x] + list(x.values())
    if isinstance(x, str):
        return [x[:i] + x[i + 1:] for i in range(len(x))]
    return []


def run_pack(chk: Check):
    from tatsu.packetz.packet import Packet, pack, unpack

    def roundtrip_fails(data, to='r'):
        p = Packet(to=to, data=data)
        s = pack(p)
        if any(c in s for c in '\n\r'):
            return 'newline-in-record'
        try:
            q = unpack(s + '\n')
        except Exception as e:
            return f'unpack-raises-{type(e).__name__}'
        if getattr(q, 'to', None) != to:
            return 'recipient-differs'
        if getattr(q, 'data', None) != data or type(getattr(q, 'data', None)) is not type(data):
            return 'data-differs'
        if getattr(q, 'id', None) != p.id:
            return 'id-differs'
        return None

    rng = chk.rng
    n = 1500 if chk.quick else 30000
    for i in range(n):
        risky = (i % 5 == 4)
        data = gen_payload(rng, 0, risky)
        to = rng.choice(['r', 'worker~1', 'aaaaa', '', None, '0', ' ', '~a3~', 'ñ~~~~~', 'a' * 12, '"', '\\']) if i % 3 == 0 else 'r'
        if risky and i % 15 == 14:
            to = rng.choice(['f{x', '\\e[1m'])
            data = rng.choice(['x', 'plain', 7])      # one cause per case
        chk.case('pack:' + json.dumps([to, data], sort_keys=True, default=str), nontrivial=bool(data))
        chk.count('pack.risky' if risky else 'pack.plain')
        chk.count('pack.to.' + ('none' if to is None else 'empty' if to == '' else 'text'))
        why = roundtrip_fails(data, to)
        if why:
            small = shrink_payload(data, lambda d: roundtrip_fails(d, to) is not None)
            why = roundtrip_fails(small, to)
            feats = features(small) | {'recipient-' + f for f in features(to)}
            if why == 'recipient-differs' and not feats and roundtrip_fails(small, 'r') is None:
                feats = {'recipient:' + ('none' if to is None else 'empty' if to == '' else 'text')}
            sig = 'pack:' + ('+'.join(sorted(feats)) if feats else 'other:' + why)
            chk.violation(sig, f'unpack(pack(p)) != p: {why} for to={to!r} data={small!r}',
                          {'oracle': 'pack/unpack round trip', 'to': to, 'data': small, 'why': why,
                           'packed': pack(Packet(to=to, data=small))})
    chk.sample({'pack': pack(Packet(to='r', data={'k': ['aaaaa~', 1]}))})


# ------------------------------------------------------------------ Q3 queue
def run_queue(chk: Check, mr: ModelRun):
    from tatsu.packetz.queue import PacketzQueue
    from tatsu.packetz.packet import Packet, pack
    rng = chk.rng
    tmp = Path(tempfile.mkdtemp(prefix='verif-c19-', dir='/var/tmp'))
    cwd = os.getcwd()
    os.chdir(tmp)   # PacketzQueue creates ./.packetz relative to the cwd
    try:
        nseq = 150 if chk.quick else 3000
        reqs, expect = [], []
        for it in range(nseq):
            # history: lines written by the sender (bytes), reader sees prefixes
            writer_path = tmp / f'w{it}.jsonl'
            reader_path = tmp / f'r{it}.jsonl'
            wq = PacketzQueue(path=writer_path)
            rq = PacketzQueue(path=reader_path)
            ops = []
            ids = {}
            sent_ids = []
            delivered = []
            nops = rng.randint(1, 8)
            for _ in range(nops):
                r = rng.random()
                if r < 0.5:
                    pkt = wq.send(to='r', data=gen_payload(rng))
                    if pkt.id in ids:      # id collision (monotonic_ns mod 10^8): outside the theorem's hypothesis
                        chk.count('queue.id_collisions')
                    ids.setdefault(pkt.id, len(ids) + 1)
                    sent_ids.append(ids[pkt.id])
                    ops.append([Atom('send'), [Atom('good'), ids[pkt.id]]])
                elif r < 0.62:
                    kind = rng.choice(['garbage', 'badhash', 'badjson'])
                    with writer_path.open('at', encoding='utf-8') as f:
                        if kind == 'garbage':
                            f.write('not a packet at all\n')
                        elif kind == 'badhash':
                            good = pack(Packet(to='r', data='x'))
                            f.write(good.replace('"hash":"', '"hash":"0', 1) + '\n')
                        else:
                            f.write('{"hash":"0000","data":{"@":"Packet",}\n')
                    ops.append([Atom('send'), Atom('corrupt')])
                else:
                    content = writer_path.read_bytes()
                    cut = rng.choice([len(content), len(content), rng.randint(0, len(content))])
                    view = content[:cut]
                    # do not cut inside a multi-byte character: move back to a boundary
                    while True:
                        try:
                            view.decode('utf-8')
                            break
                        except UnicodeDecodeError:
                            view = view[:-1]
                    reader_path.write_bytes(view)
                    k = view.count(b'\n')
                    got = [ids.get(p.id, -1) for p in rq.receive()]
                    delivered += got
                    ops.append([Atom('recv'), k])
            # final complete read
            reader_path.write_bytes(writer_path.read_bytes())
            delivered += [ids.get(p.id, -1) for p in rq.receive()]
            ops.append([Atom('recv'), writer_path.read_bytes().count(b'\n')])
            reqs.append(f'(queue {sx(ops)})')
            expect.append((ops, delivered, sent_ids))
            chk.case('queue:' + sx(ops), nontrivial=len(ops) > 2)
            chk.count('queue.histories')
            if len(set(sent_ids)) == len(sent_ids) and delivered != sent_ids:
                chk.violation('oracle:queue-order', 'packets not delivered exactly once in send order',
                              {'oracle': 'exactly once, in order', 'ops': sx(ops), 'delivered': delivered, 'sent': sent_ids})
            for p in (writer_path, reader_path):
                p.unlink(missing_ok=True)
        replies = mr.ask(reqs)
        bad = 0
        for (ops, delivered, sent), rep in zip(expect, replies):
            mdel = [int(x) for x in rep[1]] if rep[1] != 'nil' else []
            if len(set(sent)) != len(sent):
                continue
            if mdel != delivered:
                bad += 1
                chk.violation('corr:queue', 'PacketzQueue differs from the model',
                              {'correspondence': 'Q3 queue', 'ops': sx(ops), 'impl': delivered, 'model': mdel})
        chk.obligation('Q3:PacketzQueue vs Queue.v on op histories', 'correspondence', bad == 0)
        chk.sample({'queue_ops': sx(expect[0][0]), 'delivered': expect[0][1]})

        # ---- several live receive() generators on ONE reader object, advanced in any order, sends in between
        ngen = 200 if chk.quick else 4000
        greqs, gexp = [], []
        for it in range(ngen):
            path = tmp / f'g{it}.jsonl'
            q = PacketzQueue(path=path)
            ops, ids, sent, delivered, gens, live = [], {}, [], [], [], []
            def do(op):
                if op == 'send':
                    pkt = q.send(to='r', data=gen_payload(rng))
                    if pkt.id in ids:
                        chk.count('queue.id_collisions')
                    ids.setdefault(pkt.id, len(ids) + 1)
                    sent.append(ids[pkt.id])
                    ops.append([Atom('send'), [Atom('good'), ids[pkt.id]]])
                elif op == 'corrupt':
                    with path.open('at', encoding='utf-8') as f:
                        f.write('not a packet at all\n')
                    ops.append([Atom('send'), Atom('corrupt')])
                elif op == 'open':
                    gens.append(iter(q.receive()))
                    live.append(True)
                    ops.append(Atom('open'))
                else:
                    j = op[1]
                    ops.append([Atom('next'), j])
                    try:
                        pkt = next(gens[j])
                        delivered.append(ids.get(pkt.id, -1))
                        return True
                    except StopIteration:
                        live[j] = False
                        return False
                return None

            if it % 3 == 0:
                # one generator is suspended part-way, another drains the queue to its end, the first is resumed
                chk.count('queue.generators.suspend-drain-resume')
                for _ in range(rng.randint(2, 6)):
                    do(rng.choice(['send', 'send', 'send', 'corrupt']))
                do('open')
                for _ in range(rng.randint(0, 2)):
                    do(('next', 0))
                do('open')
                while do(('next', 1)):
                    pass
                for _ in range(rng.randint(0, 2)):
                    do('send')
                while do(('next', 0)):
                    pass
            else:
                for _ in range(rng.randint(2, 12)):
                    r = rng.random()
                    if r < 0.35:
                        do('send')
                    elif r < 0.42:
                        do('corrupt')
                    elif r < 0.6 or not gens:
                        do('open')
                    else:
                        do(('next', rng.randrange(len(gens))))
            # drain with a fresh generator: nothing may be left or repeated
            ops.append(Atom('open'))
            gens.append(iter(q.receive()))
            live.append(True)
            while True:
                ops.append([Atom('next'), len(gens) - 1])
                try:
                    pkt = next(gens[-1])
                    delivered.append(ids.get(pkt.id, -1))
                except StopIteration:
                    live[-1] = False
                    break
            greqs.append(f'(genqueue {sx(ops)})')
            gexp.append((ops, delivered, sent, list(live)))
            chk.case('genqueue:' + sx(ops), nontrivial=len(ops) > 4)
            chk.count('queue.generator-histories')
            if len(set(sent)) == len(sent) and delivered != sent:
                chk.violation('oracle:queue-generators-order', 'overlapping receive() generators: packets not delivered exactly once in send order',
                              {'oracle': 'exactly once, in order (generators)', 'ops': sx(ops), 'delivered': delivered, 'sent': sent})
            for g in gens:
                g.close()
            path.unlink(missing_ok=True)
        gbad = 0
        for (ops, delivered, sent, live), rep in zip(gexp, mr.ask(greqs)):
            if len(set(sent)) != len(sent):
                continue
            mdel = [int(x) for x in rep[1]] if rep[1] != 'nil' else []
            mlive = [x == '1' for x in rep[2]] if rep[2] != 'nil' else []
            if mdel != delivered or mlive != live:
                gbad += 1
                chk.violation('corr:queue-generators', 'PacketzQueue with overlapping generators differs from the model',
                              {'correspondence': 'Q3 generators', 'ops': sx(ops), 'impl': delivered, 'model': mdel, 'impl_live': live, 'model_live': mlive})
        chk.obligation('Q3:overlapping receive() generators vs QueueGen.v', 'correspondence', gbad == 0)

        # truncation at every byte offset of the last record
        ntr = 12 if chk.quick else 200
        tbad = 0
        for it in range(ntr):
            writer_path = tmp / f'tw{it}.jsonl'
            wq = PacketzQueue(path=writer_path)
            npk = rng.randint(1, 3)
            pk = [wq.send(to='r', data=gen_payload(rng)) for _ in range(npk)]
            content = writer_path.read_bytes()
            last_start = content[:-1].rfind(b'\n') + 1
            for cut in range(last_start, len(content) + 1):
                view = content[:cut]
                try:
                    view.decode('utf-8')
                except UnicodeDecodeError:
                    continue
                reader_path = tmp / f'tr{it}.jsonl'
                reader_path.write_bytes(view)
                rq = PacketzQueue(path=reader_path)
                first = [p.id for p in rq.receive()]
                again = [p.id for p in rq.receive()]
                reader_path.write_bytes(content)
                rest = [p.id for p in rq.receive()]
                chk.evaluations += 1
                chk.count('queue.truncations')
                want_first = [p.id for p in pk[:-1]] + ([pk[-1].id] if cut == len(content) else [])
                if first != want_first or again or first + rest != [p.id for p in pk]:
                    tbad += 1
                    chk.violation('oracle:queue-truncation', 'truncated read lost, repeated or invented a packet',
                                  {'oracle': 'truncation safe', 'cut': cut, 'len': len(content),
                                   'content': content.decode('utf-8'), 'first': first, 'again': again, 'rest': rest})
                reader_path.unlink(missing_ok=True)
            writer_path.unlink(missing_ok=True)
        chk.obligation('Q3:truncation at every byte offset of the last record', 'oracle', tbad == 0)
    finally:
        os.chdir(cwd)
        shutil.rmtree(tmp, ignore_errors=True)

# ------------------------------------------------------------------ Q4 damaged records (checksum strength)
import contextlib
import copy
import random
import re as _re2
import warnings

GREEK = 'αβγδεζηθικλμνξοπρστυφχψω'
WORDS = ['alice', 'bob', 'credit', 'debit', 'transfer', 'from', 'to', 'parse', 'check', 'emit', 'A-17', 'B-02', 'nop',
         'Zürich', 'x y', 'ab', 'ba', 'stop', 'spot', 'post']


@contextlib.contextmanager
def quiet():
    """unhashed() reports every rejected record on stderr and through warnings: thousands of them are expected here"""
    with open(os.devnull, 'w') as dn, contextlib.redirect_stderr(dn), warnings.catch_warnings():
        warnings.simplefilter('ignore')
        yield


def gen_record(rng, depth=0):
    """record-like payloads (words, numbers with several digits, work lists, nested settings)"""
    r = rng.random()
    if depth >= 2 or r < 0.3:
        k = rng.random()
        if k < 0.4:
            return rng.choice([rng.randint(10, 99999), rng.randint(-5000, 5000), rng.randint(10 ** 6, 10 ** 9),
                               round(rng.uniform(0, 999), 2)])
        if k < 0.5:
            return rng.choice([None, True, False, 0])
        return ' '.join(rng.choice(WORDS) for _ in range(rng.randint(1, 4)))
    if r < 0.55:
        return [gen_record(rng, depth + 1) for _ in range(rng.randint(1, 4))]
    keys = rng.sample(['op', 'amount', 'acct', 'job', 'todo', 'meta', 'tries', 'n', 'who', 'note', 'k1', 'k2'], rng.randint(1, 4))
    return {k: gen_record(rng, depth + 1) for k in keys}


def fixed_packet(rng, to, data):
    """a Packet with an id drawn from the seeded generator (ids are normally clock-derived)"""
    from tatsu.packetz.packet import Packet
    p = Packet(to=to, data=data)
    p.id = ''.join(rng.choice(GREEK) for _ in range(8))
    return p


HEAD = _re2.compile(r'^\{"hash":"([^"]*)","data":')


def _split(line):
    m = HEAD.match(line)
    return m.group(1), m.end(), len(line) - 1       # checksum, start of the data text, end of the data text (before the last '}')


def _sub(line, i, j, text):
    return line[:i] + text + line[j:]


def corruptions(rng, line, other):
    """(class, damaged line) pairs: the ways one record of the file can be damaged.
    `other` is another intact record of the same file.  No damaged line holds a line end."""
    h, a, b = _split(line)
    D = line[a:b]
    out = []

    def pos():
        return a + rng.randrange(len(D))
    # --- the bytes are all still there, in another order (what a checksum that only adds things up cannot see)
    c = [i for i in range(a, b - 1) if line[i] != line[i + 1]]
    if c:
        i = rng.choice(c)
        out.append(('transpose-neighbours', _sub(line, i, i + 2, line[i + 1] + line[i])))
    for _ in range(8):
        i, j = sorted((pos(), pos()))
        if line[i] != line[j]:
            out.append(('exchange-two-characters', line[:i] + line[j] + line[i + 1:j] + line[i] + line[j + 1:]))
            break
    runs = [m for m in _re2.finditer(r'\d{2,}', D) if len(set(m.group())) > 1]
    if runs:
        m = rng.choice(runs)
        t = list(m.group())
        i, j = rng.sample(range(len(t)), 2)
        for _ in range(8):
            if t[i] != t[j]:
                break
            i, j = rng.sample(range(len(t)), 2)
        if t[i] != t[j]:
            t[i], t[j] = t[j], t[i]
            out.append(('exchange-two-digits', _sub(line, a + m.start(), a + m.end(), ''.join(t))))
    toks = list(_re2.finditer(r'[A-Za-z0-9]+', D))
    if len(toks) >= 2:
        m1, m2 = sorted(rng.sample(toks, 2), key=lambda m: m.start())
        if m1.group() != m2.group():
            out.append(('exchange-two-words', line[:a + m1.start()] + m2.group() + line[a + m1.end():a + m2.start()]
                        + m1.group() + line[a + m2.end():]))
    al = [i for i in range(a, b) if line[i].isascii() and line[i].isalnum() and chr(ord(line[i]) + 1).isalnum()
          and chr(ord(line[i]) - 1).isalnum()]
    if len(al) >= 2:
        i, j = sorted(rng.sample(al, 2))
        out.append(('one-up-one-down', line[:i] + chr(ord(line[i]) + 1) + line[i + 1:j] + chr(ord(line[j]) - 1) + line[j + 1:]))
    if len(D) > 4:
        k = rng.randint(1, len(D) - 1)
        out.append(('rotate-data', _sub(line, a, b, D[k:] + D[:k])))
    # --- single-character damage
    i = pos()
    out.append(('replace-character', _sub(line, i, i + 1, rng.choice([x for x in 'aZ09 ,:"{}[]~\\é' if x != line[i]]))))
    i = pos()
    out.append(('delete-character', _sub(line, i, i + 1, '')))
    i = pos()
    out.append(('insert-character', _sub(line, i, i, rng.choice('aZ09 ,:"{}[]~\\é\x00'))))
    i = pos()
    out.append(('double-character', _sub(line, i, i, line[i])))
    cs = [i for i in range(a, b) if line[i].swapcase() != line[i] and len(line[i].swapcase()) == 1]
    if cs:
        i = rng.choice(cs)
        out.append(('flip-case', _sub(line, i, i + 1, line[i].swapcase())))
    tail = max(a, b - 3) + rng.randrange(min(3, len(D)))
    out.append(('damage-near-end', _sub(line, tail, tail + 1, 'x' if line[tail] != 'x' else 'y')))
    out.append(('pad-with-space', _sub(line, a, a, ' ') if rng.random() < 0.5 else _sub(line, b, b, ' ')))
    out.append(('data-emptied', _sub(line, a, b, rng.choice(['', '{}', 'null', '""']))))
    # --- torn and run-together records
    closes = [i + 1 for i in range(a, b) if line[i] == '}']
    cut = rng.choice(closes) if closes and rng.random() < 0.7 else rng.randint(a, b)
    out.append(('torn-record', line[:cut]))
    out.append(('torn-record-then-next', line[:cut] + other))
    out.append(('two-records-on-one-line', line + other))
    out.append(('junk-after-record', line + rng.choice(['}', ' ', 'x}', ',{}}', '\x00'])))
    out.append(('junk-before-record', rng.choice([' ', 'x', '{', '\ufeff']) + line))
    # --- the checksum field itself
    oh, oa, ob = _split(other)
    if oh != h:
        out.append(('data-of-another-record', _sub(line, a, b, other[oa:ob])))
    if h.upper() != h:
        out.append(('checksum-uppercased', _sub(line, 9, 9 + len(h), h.upper())))
    out.append(('checksum-shortened', _sub(line, 9, 9 + len(h), h[:rng.randint(1, len(h) - 1)])))
    out.append(('checksum-lengthened', _sub(line, 9, 9 + len(h), h + rng.choice('0a9f'))))
    out.append(('checksum-leading-zero', _sub(line, 9, 9 + len(h), '0' + h)))
    i = rng.randrange(len(h))
    out.append(('checksum-digit-changed', _sub(line, 9 + i, 10 + i, rng.choice([x for x in '0123456789abcdef' if x != h[i]]))))
    out.append(('checksum-emptied', _sub(line, 9, 9 + len(h), '')))
    if h != '0000':
        out.append(('checksum-zeroed', _sub(line, 9, 9 + len(h), '0000')))
    return [(k, t) for k, t in out if t != line and '\n' not in t and '\r' not in t]


def beyond_chance(k, n, bits=16, p=1e-5):
    """k accepted of n tried is more than a `bits`-bit checksum lets through by chance (Poisson tail below p)"""
    import math
    lam = n / 2 ** bits
    tail = 1.0 - sum(math.exp(-lam) * lam ** i / math.factorial(i) for i in range(k))
    return k >= 2 and tail < p


def run_damage(chk: Check, mr: ModelRun):
    """A record damaged in the file is skipped by unpack() and by every reader; its neighbours are delivered."""
    from tatsu.packetz.packet import BadPacketError, pack, unpack
    from tatsu.packetz.queue import PacketzQueue
    rng = random.Random(f'{PID}-damage-{chk.seed}')
    SKIPPED = (BadPacketError, json.JSONDecodeError, TypeError, ValueError)     # what PacketzQueue.receive() steps over
    tmp = Path(tempfile.mkdtemp(prefix='verif-c19-', dir='/var/tmp'))
    cwd = os.getcwd()
    os.chdir(tmp)
    accepted: dict = {}      # class -> [(outcome, original line, damaged line)]
    tried: dict = {}
    fbad = []
    reqs, expect = [], []

    def fate(bad):
        try:
            unpack(bad + '\n')
            return 'delivered'
        except SKIPPED:
            return None
        except Exception as e:
            return 'reader-stops-' + type(e).__name__

    try:
        with quiet():
            ngroups = 45 if chk.quick else 900
            for it in range(ngroups):
                n = rng.randint(2, 5)
                pkts = []
                for _ in range(n):
                    data = gen_record(rng) if rng.random() < 0.7 else gen_payload(rng)
                    pkts.append(fixed_packet(rng, rng.choice(['r', 'bank', 'log', 'worker~1', None]), data))
                if len({p.id for p in pkts}) < n:
                    continue
                lines = [pack(p) for p in pkts]
                # (a) unpack() alone
                per_record = []
                for i, line in enumerate(lines):
                    cs = corruptions(rng, line, lines[(i + 1) % n])
                    per_record.append(cs)
                    for klass, bad in cs:
                        tried[klass] = tried.get(klass, 0) + 1
                        chk.count('damage.' + klass)
                        chk.case('damage:' + bad, nontrivial=True)
                        outcome = fate(bad)
                        if outcome:
                            accepted.setdefault(klass, []).append((outcome, line, bad))
                # (b) the same damage inside a queue file: the reader hands out exactly the intact records
                damaged = {}
                for i in range(n):
                    if rng.random() < 0.45 and per_record[i]:
                        damaged[i] = rng.choice(per_record[i])
                path = tmp / f'd{it}.jsonl'
                q = PacketzQueue(path=path)
                ops, want, got = [], [], []
                half = rng.randint(0, n)
                for i in range(n):
                    with q.writer() as f:
                        f.write((damaged[i][1] if i in damaged else lines[i]) + '\n')
                    if i in damaged:
                        ops.append([Atom('send'), Atom('corrupt')])
                    else:
                        ops.append([Atom('send'), [Atom('good'), i + 1]])
                        want.append(i + 1)
                    if i + 1 == half or i + 1 == n:
                        ops.append([Atom('recv'), i + 1])
                        try:
                            for p in q.receive():
                                k = [j + 1 for j, s in enumerate(pkts) if s.id == p.id]
                                ok = bool(k) and k[0] - 1 not in damaged and p.to == pkts[k[0] - 1].to \
                                    and p.data == pkts[k[0] - 1].data
                                got.append(k[0] if ok else -1)
                        except Exception:
                            got.append(-2)
                chk.case('damage-file:' + sx(ops) + repr(sorted(damaged)), nontrivial=bool(damaged))
                chk.count('damage.files')
                reqs.append(f'(queue {sx(ops)})')
                explained = any(fate(damaged[i][1]) for i in damaged)     # a damaged line of this file passes unpack()
                expect.append((ops, got, explained))
                if got != want and not explained:
                    # unpack() skips every damaged line of this file, the reader still went wrong
                    fbad.append((sorted({damaged[i][0] for i in damaged}), want, got,
                                 '\n'.join(damaged[i][1] if i in damaged else lines[i] for i in range(n))))
                path.unlink(missing_ok=True)
        # The checksum has 16 bits: one random damage in 65536 goes through whatever the implementation does.  The number of
        # accepted damaged lines (per class, and in all) must be what that chance explains: anything a Poisson count with
        # mean tried/65536 reaches with probability below 1e-5 is a violation (quick tier: two of one class, four in all).
        total, ntried = sum(len(v) for v in accepted.values()), sum(tried.values())
        chk.count('damage.accepted-by-chance(16-bit checksum)', total)
        guilty = sorted(k for k, v in accepted.items() if beyond_chance(len(v), tried.get(k, 0)))
        if not guilty and beyond_chance(total, ntried):
            guilty = sorted(accepted)
        cbad = 0
        for (ops, got, explained), rep in zip(expect, mr.ask(reqs)):
            mdel = [int(x) for x in rep[1]] if rep[1] != 'nil' else []
            if mdel != got and (guilty or not explained):
                cbad += 1
                chk.violation('corr:queue-damaged-records', 'PacketzQueue differs from the model on a file with damaged records',
                              {'correspondence': 'Q4 damaged records', 'ops': sx(ops), 'impl': got, 'model': mdel})
        chk.obligation('Q4:files with damaged records vs Queue.v (damaged = Corrupt)', 'correspondence',
                       cbad == 0, f'{cbad} of {len(reqs)} files differ')
        if guilty:
            ex = {}
            for k in guilty:
                outcome, line, bad = min(accepted[k], key=lambda t: len(t[2]))
                ex[k] = {'outcome': outcome, 'sent': line, 'in_file': bad, 'accepted': len(accepted[k]), 'tried': tried.get(k, 0)}
            kinds = sorted({o.split('-')[0] for k in guilty for o, _, _ in accepted[k]})
            chk.violation('oracle:damaged-record-not-skipped:' + '+'.join(guilty),
                          f'damaged records are not skipped ({"/".join(kinds)}): ' +
                          ', '.join(f'{k} {len(accepted[k])}/{tried.get(k, 0)}' for k in guilty),
                          {'oracle': 'a damaged line is never delivered and never stops the reader', 'classes': ex})
        if fbad:
            klasses, want, got, text = min(fbad, key=lambda t: len(t[3]))
            chk.violation('oracle:reader-of-damaged-file', 'a reader of a file with damaged records did not deliver exactly the intact '
                          'records, although unpack() rejects each damaged line',
                          {'oracle': 'damaged lines in a queue file', 'damage': klasses, 'file': text, 'want': want, 'got': got,
                           'files': len(fbad)})
        chk.obligation('Q4:damaged records are skipped (unpack and reader)', 'oracle', not guilty and not fbad,
                       f'{total} accepted of {sum(tried.values())}')
    finally:
        os.chdir(cwd)
        shutil.rmtree(tmp, ignore_errors=True)


# ------------------------------------------------------------------ Q5 readers do not share what they received
def containers(x, acc=None):
    """id -> [number of paths, the object] of every mutable container reachable from a payload (holding the objects
    keeps them alive, so an id cannot be given to a younger object while the result is in use)"""
    acc = {} if acc is None else acc
    if isinstance(x, (list, dict)):
        if id(x) in acc:
            acc[id(x)][0] += 1
            return acc
        acc[id(x)] = [1, x]
        for y in (x.values() if isinstance(x, dict) else x):
            containers(y, acc)
    return acc


def consume(rng, p):
    """what a consumer may do with ITS packet: use the payload as its own work list / scratch record"""
    def walk(x):
        if isinstance(x, list):
            k = rng.randrange(6)
            if k == 0 and x:
                x.pop()
            elif k == 1:
                x.append('done')
            elif k == 2:
                x.clear()
            elif k == 3 and x:
                x[rng.randrange(len(x))] = 'seen'
            elif k == 4:
                x.reverse()
                x.insert(0, 0)
            for y in list(x):
                if rng.random() < 0.7:
                    walk(y)
        elif isinstance(x, dict):
            k = rng.randrange(5)
            if k == 0:
                x['done'] = True
            elif k == 1 and x:
                del x[rng.choice(sorted(x))]
            elif k == 2:
                x.clear()
            elif k == 3 and x:
                kk = rng.choice(sorted(x))
                x[kk] = (x[kk] + 1) if isinstance(x[kk], int) and not isinstance(x[kk], bool) else None
            for y in list(x.values()):
                if rng.random() < 0.7:
                    walk(y)
    how = rng.randrange(4)
    if how != 3:
        walk(p.data)
        if isinstance(p.data, list) and rng.random() < 0.5:
            p.data.append('by-reader')
        elif isinstance(p.data, dict) and rng.random() < 0.5:
            p.data['consumed'] = 'by-reader'
    if how >= 2 or not isinstance(p.data, (list, dict)):
        p.data = 'consumed'
    if rng.random() < 0.5:
        p.to = 'nobody'


def run_isolation(chk: Check, mr: ModelRun):
    """Several readers of one file in one process, consumers that change what they received, a sender that goes on
    changing what it sent: every reader still receives every packet once, in order, with the data as sent."""
    from tatsu.packetz.packet import pack, unpack
    from tatsu.packetz.queue import PacketzQueue
    rng = random.Random(f'{PID}-isolation-{chk.seed}')
    tmp = Path(tempfile.mkdtemp(prefix='verif-c19-', dir='/var/tmp'))
    cwd = os.getcwd()
    os.chdir(tmp)

    def payload():
        d = gen_record(rng) if rng.random() < 0.6 else gen_payload(rng)
        if not isinstance(d, (list, dict)) and rng.random() < 0.7:
            d = {'job': rng.randint(1, 99), 'todo': [d, 'check', 'emit'][:rng.randint(1, 3)], 'meta': {'tries': 0}}
        return d

    try:
        with quiet():
            # ---- (a) unpack()/pack() called again on the same line / the same packet object
            npk = 300 if chk.quick else 6000
            for it in range(npk):
                data, to = payload(), rng.choice(['r', 'all', None, 'worker~1'])
                pristine = copy.deepcopy(data)
                p = fixed_packet(rng, to, data)
                line = pack(p) + '\n'
                u1 = unpack(line)
                if (u1.to, u1.data) != (to, pristine):
                    continue        # not a round-tripping payload: run_pack's business
                chk.case('isolation-unpack:' + line, nontrivial=isinstance(data, (list, dict)))
                chk.count('isolation.unpack-twice')
                c1 = containers(u1.data)
                shared_in = [k for k, c in c1.items() if c[0] > 1]
                consume(rng, u1)
                u2 = unpack(line)
                c2 = containers(u2.data)
                c0 = containers(data)
                shared = u1 is u2 or bool(set(c1) & set(c2)) or bool((set(c1) | set(c2)) & set(c0))
                if (u2.to, u2.data) != (to, pristine) or shared or shared_in:
                    why = ('second unpack of a line returns what the first caller made of its packet'
                           if (u2.to, u2.data) != (to, pristine) else 'two unpacked packets share mutable containers')
                    chk.violation('oracle:unpack-shares-state', why,
                                  {'oracle': 'unpack twice', 'line': line, 'sent': [to, pristine], 'second': [str(u2.to), repr(u2.data)],
                                   'same_object': u1 is u2})
                # the sender changes its packet and packs it again: the new line carries the new data
                if isinstance(p.data, (list, dict)):
                    consume(rng, p)
                    now = copy.deepcopy((getattr(p, 'to', None), p.data))
                    try:
                        u3 = unpack(pack(p) + '\n')
                        got3 = (u3.to, u3.data)
                    except Exception as e:
                        got3 = ('raised', type(e).__name__)
                    if got3 != now and now != (to, pristine):
                        chk.violation('oracle:pack-stale', 'packing a packet again after changing it gives the old record',
                                      {'oracle': 'pack again', 'first': [to, pristine], 'then': list(now), 'decoded': repr(got3)})

            # ---- (b) several readers of one file
            nh = 90 if chk.quick else 2000
            reqs, expect = [], []
            obad = 0
            for it in range(nh):
                path = tmp / f'i{it}.jsonl'
                writer = PacketzQueue(path=path)
                readers = [PacketzQueue(path=path) for _ in range(rng.randint(1, 3))]
                rops = [[] for _ in readers]       # model ops per reader
                rgot = [[] for _ in readers]       # (id number, to, data at the moment of receipt) per reader
                held = []                          # every packet object handed out
                sent, sends, ids = [], [], {}      # (idnum, to, pristine) / model send ops / id -> number
                state = {'alias': False, 'nlines': 0, 'collide': False}
                seen_c = {}                        # every container handed out so far (kept alive), by id

                def hand_out(p):
                    held.append(p)
                    for k, v in containers(getattr(p, 'data', None)).items():
                        state['alias'] |= k in seen_c or v[0] > 1
                        seen_c[k] = v

                def recv(j):
                    rops[j].append([Atom('recv'), state['nlines']])
                    for p in readers[j].receive():
                        rgot[j].append((ids.get(p.id, -1), getattr(p, 'to', None), copy.deepcopy(getattr(p, 'data', None))))
                        hand_out(p)
                        if rng.random() < 0.8:
                            consume(rng, p)

                for _ in range(rng.randint(2, 9)):
                    r = rng.random()
                    if r < 0.45:
                        data, to = payload(), rng.choice(['all', 'all', 'r', None])
                        pristine = copy.deepcopy(data)
                        pkt = writer.send(to=to, data=data)
                        state['collide'] |= pkt.id in ids
                        ids.setdefault(pkt.id, len(ids) + 1)
                        sent.append((ids[pkt.id], to, pristine))
                        op = [Atom('send'), [Atom('good'), ids[pkt.id]]]
                        state['nlines'] += 1
                        sends.append(op)
                        for o in rops:
                            o.append(op)
                        hand_out(pkt)
                        if rng.random() < 0.5:
                            consume(rng, pkt)          # the sender goes on working on what it sent
                    elif r < 0.52:
                        with path.open('at', encoding='utf-8') as f:
                            f.write('not a packet at all\n')
                        op = [Atom('send'), Atom('corrupt')]
                        state['nlines'] += 1
                        sends.append(op)
                        for o in rops:
                            o.append(op)
                    elif r < 0.9:
                        recv(rng.randrange(len(readers)))
                    elif len(readers) < 5:
                        readers.append(PacketzQueue(path=path))     # a reader created late starts from the beginning
                        rops.append(list(sends))
                        rgot.append([])
                readers.append(PacketzQueue(path=path))
                rops.append(list(sends))
                rgot.append([])
                for j in rng.sample(range(len(readers)), len(readers)):
                    recv(j)
                chk.case('isolation:' + sx(rops) + repr(sent), nontrivial=len(sent) > 0 and len(readers) > 1)
                chk.count('isolation.histories')
                chk.count('isolation.readers', len(readers))
                if state['collide']:
                    chk.count('queue.id_collisions')
                    path.unlink(missing_ok=True)
                    continue
                for j in range(len(readers)):
                    reqs.append(f'(queue {sx(rops[j])})')
                    expect.append((rops[j], [g[0] for g in rgot[j]]))
                    if rgot[j] != sent:
                        obad += 1
                        first = next((i for i, (g, s) in enumerate(zip(rgot[j], sent)) if g != s), min(len(rgot[j]), len(sent)))
                        ids_ok = [g[0] for g in rgot[j]] == [s[0] for s in sent]
                        chk.violation('oracle:reader-isolation:' + ('data-differs' if ids_ok else 'lost-or-repeated'),
                                      'a reader did not receive every packet once, in order, with the recipient and data that were sent, '
                                      'after other readers / the sender changed their own copies',
                                      {'oracle': 'several readers, consumers that change their packets', 'reader': j,
                                       'readers': len(readers), 'ops_of_this_reader': sx(rops[j]), 'first_difference_at': first,
                                       'sent': repr(sent[first:first + 1]), 'received': repr(rgot[j][first:first + 1])})
                # nothing handed out to one party is reachable from what another party holds
                if state['alias'] or len({id(p) for p in held}) != len(held):
                    obad += 1
                    chk.violation('oracle:received-packets-share-state', 'packets handed to different readers (or the sender\'s own packet) '
                                  'are the same object or share mutable containers',
                                  {'oracle': 'no aliasing between received packets', 'readers': len(readers), 'sent': repr(sent)[:400]})
                path.unlink(missing_ok=True)
        cbad = 0
        for (ops, got), rep in zip(expect, mr.ask(reqs)):
            mdel = [int(x) for x in rep[1]] if rep[1] != 'nil' else []
            if mdel != got:
                cbad += 1
                chk.violation('corr:queue-several-readers', 'a reader of a shared file differs from the model run on its own history',
                              {'correspondence': 'Q5 several readers', 'ops': sx(ops), 'impl': got, 'model': mdel})
        chk.obligation('Q5:each of several readers of one file vs Queue.v', 'correspondence', cbad == 0)
        chk.obligation('Q5:readers receive the data as sent whatever others do with their copies', 'oracle',
                       obad == 0 and not any(v['signature'] in ('oracle:unpack-shares-state', 'oracle:pack-stale') for v in chk.violations))
    finally:
        os.chdir(cwd)
        shutil.rmtree(tmp, ignore_errors=True)


# ------------------------------------------------------------------ Q6 async consumers that stop early and come back
import asyncio


class VirtualLoop(asyncio.SelectorEventLoop):
    """An event loop whose clock jumps to the next timer when nothing is ready: sleeps cost no real time and every
    schedule of consumer / producer tasks is the same in every run."""

    def __init__(self):
        super().__init__()
        self._vnow = 0.0
        self.virtual = hasattr(self, '_scheduled') and hasattr(self, '_ready')

    def time(self):
        return self._vnow if self.virtual else super().time()

    def _run_once(self):
        if self.virtual and not self._ready and self._scheduled:
            pending = [h._when for h in self._scheduled if not h._cancelled]
            if pending:
                self._vnow = max(self._vnow, min(pending))
        super()._run_once()


def run_async(chk: Check, mr: ModelRun):
    """receive_async(): consumers that take some packets and stop (break, aclose, cancelled while busy with a packet,
    timed out while idle), producers sending while the consumer waits, later sessions (async or sync) on the same reader.
    Every step the async layer makes on receive() is logged and replayed on the generator model."""
    from tatsu.packetz.queue import PacketzQueue
    rng = random.Random(f'{PID}-async-{chk.seed}')
    tmp = Path(tempfile.mkdtemp(prefix='verif-c19-', dir='/var/tmp'))
    cwd = os.getcwd()
    os.chdir(tmp)

    class _C19RecordedQueue(PacketzQueue):
        """logs every receive() generator it hands out, and every step made on it, as ops of QueueGen.v"""
        def receive(self):
            log = self.c19_log
            j = log['ngen']
            log['ngen'] += 1
            log['ops'].append(Atom('open'))
            inner = PacketzQueue.receive(self)

            def steps():
                try:
                    while True:
                        log['ops'].append([Atom('next'), j])
                        try:
                            p = next(inner)
                        except StopIteration:
                            return
                        yield p
                finally:
                    inner.close()
            return steps()

    loop = VirtualLoop()
    chk.count('async.virtual-clock' if loop.virtual else 'async.real-clock')
    reqs, expect = [], []
    obad = 0
    try:
        with quiet():
            nh = 160 if chk.quick else 3000
            for it in range(nh):
                path = tmp / f'a{it}.jsonl'
                log = {'ops': [], 'ngen': 0}
                reader = _C19RecordedQueue(path=path)
                reader.c19_log = log
                writer = reader if rng.random() < 0.3 else PacketzQueue(path=path)
                ids, sent, delivered, left, kinds, starved = {}, [], [], [], [], []

                def send():
                    if rng.random() < 0.08:
                        with path.open('at', encoding='utf-8') as f:
                            f.write('not a packet at all\n')
                        log['ops'].append([Atom('send'), Atom('corrupt')])
                        return
                    pkt = writer.send(to='r', data=gen_payload(rng))
                    if pkt.id in ids:
                        chk.count('queue.id_collisions')
                    ids.setdefault(pkt.id, len(ids) + 1)
                    sent.append(ids[pkt.id])
                    log['ops'].append([Atom('send'), [Atom('good'), ids[pkt.id]]])

                def got(p):
                    delivered.append(ids.get(p.id, -1))

                async def produce(plan):
                    for dt in plan:
                        await asyncio.sleep(dt)
                        send()

                async def session(n, how, slow, plan):
                    nonlocal obad
                    before, sent_before = len(delivered), len(sent)
                    # at least three polls after the last send of the producer, plus the time a slow consumer spends on its packets
                    patience = sum(plan) + 0.035 + 0.003 * (sent_before - before + len(plan) + 1)
                    agen = reader.receive_async()
                    prod = loop.create_task(produce(plan))
                    reached = asyncio.Event()

                    async def consume():
                        k = 0
                        async for p in agen:
                            got(p)
                            k += 1
                            if k >= n:
                                reached.set()
                                if how != 'cancel':
                                    break
                            if slow or how == 'cancel':
                                await asyncio.sleep(0.003)      # the consumer is busy with this packet

                    if how == 'cancel':
                        task = loop.create_task(consume())
                        try:
                            await asyncio.wait_for(reached.wait(), patience)
                        except asyncio.TimeoutError:
                            pass
                        task.cancel()
                        with contextlib.suppress(asyncio.CancelledError):
                            await task
                    else:
                        try:
                            await asyncio.wait_for(consume(), patience)
                        except asyncio.TimeoutError:
                            pass
                    await prod
                    # a consumer that waits is served: it has what it asked for, or everything there was
                    available = (sent_before - before) + (len(sent) - sent_before)
                    if len(set(sent)) == len(sent) and len(delivered) - before != min(n, available) and not starved:
                        starved.append(1)
                        obad += 1
                        chk.violation('oracle:async-sessions:' + ('starved' if len(delivered) - before < min(n, available) else 'overfed'),
                                      'a consumer of receive_async() that asked for n packets and waited did not get min(n, pending) packets',
                                      {'oracle': 'waiting async consumer is served', 'asked': n, 'available': available,
                                       'got': len(delivered) - before, 'how': how, 'producer_delays': plan, 'ops': sx(log['ops'])})
                    if how == 'leave' or (how == 'cancel' and rng.random() < 0.5):
                        left.append(agen)       # abandoned where it stands, not closed
                    else:
                        await agen.aclose()

                async def resume_one():
                    agen = left.pop(rng.randrange(len(left)))
                    try:
                        got(await asyncio.wait_for(anext(agen), 0.025))
                        left.append(agen)
                    except (asyncio.TimeoutError, StopAsyncIteration):
                        pass

                async def history():
                    for _ in range(rng.randint(1, 4)):
                        for _ in range(rng.choice([0, 1, 2, 2, 3, 4, 5, 7])):
                            send()
                        pending = len(sent) - len(delivered)
                        plan = [rng.choice([0.002, 0.007, 0.013, 0.021]) for _ in range(rng.choice([0, 0, 0, 1, 2, 3]))]
                        k = rng.random()
                        if k < 0.12:
                            kind = 'sync-partial'
                            g = reader.receive()
                            for _ in range(rng.randint(0, max(1, pending))):
                                try:
                                    got(next(g))
                                except StopIteration:
                                    break
                            if rng.random() < 0.7:
                                g.close()
                            else:
                                left.append(g)
                        elif k < 0.2 and [a for a in left if hasattr(a, 'aclose')]:
                            kind = 'resume-abandoned'
                            left[:] = [a for a in left if hasattr(a, 'aclose')] + [a for a in left if not hasattr(a, 'aclose')]
                            n_async = len([a for a in left if hasattr(a, 'aclose')])
                            rest = left[n_async:]
                            del left[n_async:]
                            await resume_one()
                            left.extend(rest)
                        else:
                            how = rng.choice(['aclose', 'aclose', 'leave', 'cancel', 'cancel'])
                            total = pending + len(plan)
                            n = max(1, rng.choice([1, 1, 2, total - 1, total - 1, total, total, pending, pending - 1, total + 1]))
                            slow = rng.random() < 0.4
                            kind = how + ('-all' if n == total else '-idle-timeout' if n > total else '-early') + ('-producer' if plan else '')
                            await session(n, how, slow, plan)
                        kinds.append(kind)
                        chk.count('async.session.' + kind)
                    # whatever is still pending goes to one last consumer
                    if rng.random() < 0.5:
                        for p in reader.receive():
                            got(p)
                    else:
                        await session(10 ** 6, 'aclose', False, [])
                    for a in left:
                        if hasattr(a, 'aclose'):
                            await a.aclose()
                        else:
                            a.close()

                loop.run_until_complete(history())
                ops = log['ops']
                chk.case('async:' + sx(ops), nontrivial=len(sent) > 1)
                chk.count('async.histories')
                path.unlink(missing_ok=True)
                if len(set(sent)) != len(sent):
                    continue
                reqs.append(f'(genqueue {sx(ops)})')
                expect.append((ops, list(delivered), kinds))
                if delivered != sent:
                    obad += 1
                    lost = [x for x in sent if x not in delivered]
                    rep = [x for x in set(delivered) if delivered.count(x) > 1]
                    what = 'lost' if lost else 'repeated' if rep else 'order'
                    chk.violation('oracle:async-sessions:' + what,
                                  'consumers of receive_async() that stop and come back: packets not delivered exactly once in send order',
                                  {'oracle': 'exactly once, in order (async sessions)', 'sessions': kinds, 'ops': sx(ops),
                                   'delivered': delivered, 'sent': sent})
        cbad = 0
        for (ops, delivered, kinds), rep in zip(expect, mr.ask(reqs)):
            mdel = [int(x) for x in rep[1]] if rep[1] != 'nil' else []
            if mdel != delivered:
                cbad += 1
                chk.violation('corr:queue-async', 'what async consumers were handed differs from the model run on the steps '
                              'receive_async() made on receive()',
                              {'correspondence': 'Q6 async sessions', 'sessions': kinds, 'ops': sx(ops), 'impl': delivered, 'model': mdel})
        chk.obligation('Q6:receive_async() sessions vs QueueGen.v (steps on receive() logged)', 'correspondence', cbad == 0,
                       f'{cbad} of {len(reqs)} histories differ')
        chk.obligation('Q6:async consumers that stop early and come back get every packet once, in order', 'oracle', obad == 0)
    finally:
        with contextlib.suppress(Exception):
            loop.run_until_complete(loop.shutdown_asyncgens())
        loop.close()
        os.chdir(cwd)
        shutil.rmtree(tmp, ignore_errors=True)


# ------------------------------------------------------------------ Q7 several writers of one file, records of every size
import builtins
import io
import threading

ENVELOPE = 80       # about what the packet adds around a string payload in its line
LINE_MARKS = [8192, 8192, 8192, 2 * 8192, 65536, 262144]     # text-layer chunk, its double, pipe-sized, the reader's buffer


def sized_payload(rng, quick=True):
    """payloads whose record is far larger than anything gen_payload makes: around the buffer sizes of the file layers,
    as one text, as many small items, with long runs (large payload, small record), with characters of several bytes"""
    k = rng.random()
    if k < 0.5:
        mark = rng.choice(LINE_MARKS[:4] if quick and rng.random() < 0.85 else LINE_MARKS)
        size = max(1, mark - ENVELOPE + rng.randint(-150, 60))
    else:
        size = rng.choice([rng.randint(8200, 12000), rng.randint(9000, 40000), rng.randint(4000, 8000), rng.randint(20000, 70000)])
    shape = rng.choice(['text', 'text', 'items', 'wide', 'runs', 'mixed'])
    if shape == 'text':
        a = rng.choice(['abcdefghij', 'ab', 'xyz~', 'a1b2', '0123456789'])
        return shape, (a * (size // len(a) + 1))[:size]
    if shape == 'wide':
        a = rng.choice(['αβγ', 'éa', ' x', '日本語'])
        n = size // 2
        return shape, (a * (n // len(a) + 1))[:n]
    if shape == 'runs':
        out = []
        while sum(map(len, out)) < size * 3:
            out.append(rng.choice('ab~ 1') * rng.choice([4, 50, 1000, 5000]))
            out.append(rng.choice(['', 'x', '~', '12']))
        return shape, ''.join(out)
    if shape == 'items':
        out, n = [], 0
        while n < size:
            x = gen_record(rng, 1) if rng.random() < 0.6 else gen_payload(rng, 1)
            out.append(x)
            n += len(json.dumps(x, ensure_ascii=False)) + 1
        return shape, out
    half = size // 2
    return shape, {'head': gen_payload(rng), 'body': ('lorem ipsum ' * (half // 12 + 1))[:half], 'rows': [[i, 'r%d' % i] for i in range(half // 12)]}


@contextlib.contextmanager
def tapped_opens(path, hook):
    """While active, a file object opened for writing on `path` (through pathlib or open()) tells hook(event) about the
    open and about every call made on it ('open', 'write', 'writelines', 'flush', 'close'): the places where the operating system
    may run another process that uses the same file.  What the hook itself opens is not tapped."""
    real_open = io.open
    target = os.path.realpath(path)
    state = {'busy': False}

    def fire(ev):
        if state['busy']:
            return
        state['busy'] = True
        try:
            hook(ev)
        finally:
            state['busy'] = False

    class Tapped:
        def __init__(self, real):
            self.__dict__['_real'] = real

        def write(self, text):
            n = self._real.write(text)
            fire('write')
            return n

        def writelines(self, lines):
            for x in lines:
                self._real.write(x)
                fire('writelines')

        def flush(self):
            self._real.flush()
            fire('flush')

        def close(self):
            self._real.close()
            fire('close')

        def __enter__(self):
            self._real.__enter__()
            return self

        def __exit__(self, *exc):
            r = self._real.__exit__(*exc)
            fire('close')
            return r

        def __iter__(self):
            return iter(self._real)

        def __getattr__(self, name):
            x = getattr(self._real, name)
            if not callable(x) or name.startswith('__') or name in ('fileno', 'isatty', 'readable', 'writable', 'seekable'):
                return x

            def call(*a, **kw):         # seek, tell, truncate, ...: the other party may run after each of them too
                r = x(*a, **kw)
                fire(name)
                return r
            return call

        def __setattr__(self, name, value):
            setattr(self._real, name, value)

    def opener(file, mode='r', *args, **kwargs):
        f = real_open(file, mode, *args, **kwargs)
        try:
            same = isinstance(file, (str, bytes, os.PathLike)) and os.path.realpath(os.fsdecode(file)) == target
        except Exception:
            same = False
        if same and not state['busy'] and set(mode) & set('wax+'):
            fire('open')
            return Tapped(f)
        return f

    io.open = opener
    builtins.open = opener
    try:
        yield
    finally:
        io.open = real_open
        builtins.open = real_open


def run_writers(chk: Check, mr: ModelRun):
    """Several PacketzQueue objects append to one file, records from a few bytes to beyond every buffer of the file layers.
    (a) another writer (or a reader) runs at each point where a send hands something to its file object;
    (b) real threads send at the same time.  Every completed send reaches every reader once, in an order that agrees with
    the order of sends that did not overlap."""
    from tatsu.packetz.packet import pack
    from tatsu.packetz.queue import PacketzQueue
    rng = random.Random(f'{PID}-writers-{chk.seed}')
    tmp = Path(tempfile.mkdtemp(prefix='verif-c19-', dir='/var/tmp'))
    cwd = os.getcwd()
    os.chdir(tmp)
    reqs, expect = [], []
    obad = 0
    tap_events = {}

    def judge(got, sends, where, extra):
        """got: [(number, same recipient and data)] of one reader; sends: number -> (start, end) ticks of completed sends"""
        nonlocal obad
        nums = [g[0] for g in got]
        pos = {n: i for i, n in enumerate(nums)}
        what = None
        if extra.get('readers_raised'):
            what = 'reader-raised'
        elif [n for n in sends if n not in pos]:
            what = 'lost'
        elif len(pos) != len(nums):
            what = 'repeated'
        elif [n for n in nums if n not in sends]:
            what = 'invented'
        elif any(sends[x][1] < sends[y][0] and pos[x] > pos[y] for x in sends for y in sends):
            what = 'order'
        elif not all(g[1] for g in got):
            what = 'data'
        if what:
            obad += 1
            chk.violation(f'oracle:several-writers:{where}:{what}',
                          'several writers of one queue file: a reader did not get every completed send once, in an order that '
                          'agrees with the sends that did not overlap',
                          dict({'oracle': 'several writers', 'received': nums, 'sent(start,end)': {str(k): list(v) for k, v in sends.items()}},
                               **extra))

    try:
        with quiet():
            # ---- (a) another party runs wherever a send calls into its file object
            nh = 70 if chk.quick else 1200
            for it in range(nh):
                path = tmp / f's{it}.jsonl'
                first = PacketzQueue(path=path)
                others = [PacketzQueue(path=path) for _ in range(rng.randint(1, 2))]
                readers = [PacketzQueue(path=path) for _ in range(rng.randint(1, 2))]
                rgot = [[] for _ in readers]
                recvs = [[] for _ in readers]         # number of complete lines in the file at each receive of this reader
                pkts, sends, shapes, raised = {}, {}, [], []
                clock = [0]
                seen_events = []

                def tick():
                    clock[0] += 1
                    return clock[0]

                def do_send(q, big):
                    shape, data = sized_payload(rng, chk.quick) if big else ('small', gen_payload(rng))
                    to = rng.choice(['r', 'all', None])
                    start = tick()
                    pkt = q.send(to=to, data=data)
                    n = len(pkts) + 1
                    pkts[n] = (pkt, to, data)
                    sends[n] = (start, tick())
                    shapes.append(shape)
                    return n

                def do_recv(j):
                    recvs[j].append(path.read_bytes().count(b'\n'))
                    try:
                        for p in readers[j].receive():      # named at the end: a send still running has no number yet
                            rgot[j].append(p)
                    except Exception as e:
                        raised.append(type(e).__name__)

                def intruder(ev):
                    seen_events.append(ev)
                    tap_events[ev] = tap_events.get(ev, 0) + 1
                    if rng.random() < (0.25 if ev in ('open', 'close') else 0.75):
                        for _ in range(rng.choice([1, 1, 2])):
                            if rng.random() < 0.75:
                                do_send(rng.choice(others), rng.random() < 0.25)
                            else:
                                do_recv(rng.randrange(len(readers)))

                for _ in range(rng.randint(1, 5)):
                    k = rng.random()
                    if k < 0.7:
                        # the send of `first` is the one with other parties running inside it
                        shape, data = sized_payload(rng, chk.quick) if rng.random() < 0.75 else ('small', gen_payload(rng))
                        to = rng.choice(['r', 'all', None])
                        start = tick()
                        with tapped_opens(path, intruder):
                            pkt = first.send(to=to, data=data)
                        n = len(pkts) + 1
                        pkts[n] = (pkt, to, data)
                        sends[n] = (start, tick())
                        shapes.append(shape + '*')
                    elif k < 0.85:
                        do_send(rng.choice(others), rng.random() < 0.5)
                    else:
                        do_recv(rng.randrange(len(readers)))
                readers.append(PacketzQueue(path=path))
                rgot.append([])
                recvs.append([])
                for j in rng.sample(range(len(readers)), len(readers)):
                    do_recv(j)
                chk.case('writers:' + repr((shapes, sorted(sends.values()), recvs)), nontrivial=len(sends) > 1)
                chk.count('writers.histories')
                for sh in shapes:
                    chk.count('writers.record.' + sh)
                for ev in seen_events:
                    chk.count('writers.tap.' + ev)
                if len({v[0].id for v in pkts.values()}) != len(pkts):
                    chk.count('queue.id_collisions')
                    path.unlink(missing_ok=True)
                    continue
                text = path.read_bytes().decode('utf-8', errors='replace')
                lines = text.split('\n')[:-1] if text.endswith('\n') else text.split('\n')[:-1]
                by_line = {pack(v[0]): n for n, v in pkts.items()}
                file_ops = [[Atom('send'), [Atom('good'), by_line[x]]] if x in by_line else [Atom('send'), Atom('corrupt')] for x in lines]
                sizes = sorted(len(x.encode('utf-8')) for x in lines)
                number = {v[0].id: n for n, v in pkts.items()}
                for j in range(len(readers)):
                    rgot[j] = [(number.get(p.id, -1), p.id in number and getattr(p, 'to', None) == pkts[number[p.id]][1]
                                and getattr(p, 'data', None) == pkts[number[p.id]][2]) for p in rgot[j]]
                    ops, done = [], 0
                    for kk in recvs[j]:
                        ops += file_ops[done:max(done, kk)]
                        done = max(done, kk)
                        ops.append([Atom('recv'), kk])
                    reqs.append(f'(queue {sx(ops)})')
                    expect.append((ops, [g[0] for g in rgot[j]]))
                    judge(rgot[j], sends, 'scheduled', {'reader': j, 'record_shapes': shapes, 'line_bytes_in_file': sizes,
                                                        'tap_events': seen_events[:20], 'readers_raised': raised[:3]})
                path.unlink(missing_ok=True)
            chk.obligation('Q7:the tap saw the queue file opened and written by send()', 'translator',
                           tap_events.get('open', 0) > 0 and tap_events.get('write', 0) + tap_events.get('writelines', 0) > 0,
                           str(tap_events))
            cbad = 0
            for (ops, got), rep in zip(expect, mr.ask(reqs)):
                mdel = [int(x) for x in rep[1]] if rep[1] != 'nil' else []
                if mdel != got:
                    cbad += 1
                    chk.violation('corr:queue-several-writers', 'a reader of a file with several writers differs from the model run on '
                                  'the lines of the file', {'correspondence': 'Q7 several writers', 'ops': sx(ops)[:2000], 'impl': got, 'model': mdel})
            chk.obligation('Q7:readers of a file with several writers vs Queue.v (lines of the file)', 'correspondence', cbad == 0)

            # ---- (b) real threads
            rounds = 3 if chk.quick else 30
            old_switch = sys.getswitchinterval()
            sys.setswitchinterval(1e-5)
            try:
                for it in range(rounds):
                    path = tmp / f't{it}.jsonl'
                    nw = rng.randint(2, 4)
                    per = rng.randint(12, 25) if chk.quick else rng.randint(20, 80)
                    plans = [[sized_payload(rng, True) if rng.random() < 0.7 else ('small', gen_payload(rng)) for _ in range(per)]
                             for _ in range(nw)]
                    plans = [[(sh, d if len(json.dumps(d, ensure_ascii=False)) < 80000 else 'big' + 'ab' * 10000) for sh, d in pl] for pl in plans]
                    queues = [PacketzQueue(path=path) for _ in range(nw)]
                    out = [[] for _ in range(nw)]
                    errors = []
                    go = threading.Barrier(nw + 1)
                    stop = threading.Event()
                    live_reader = PacketzQueue(path=path)
                    live_got = []

                    def work(w):
                        try:
                            go.wait()
                            for sh, d in plans[w]:
                                out[w].append((queues[w].send(to=f'w{w}', data=d), d))
                        except Exception as e:      # pragma: no cover
                            errors.append(repr(e))

                    def poll():
                        try:
                            go.wait()
                            while not stop.is_set():
                                live_got.extend(live_reader.receive())
                        except Exception as e:      # pragma: no cover
                            errors.append(repr(e))

                    ths = [threading.Thread(target=work, args=(w,)) for w in range(nw)] + [threading.Thread(target=poll)]
                    for t in ths:
                        t.start()
                    for t in ths[:-1]:
                        t.join()
                    stop.set()
                    ths[-1].join()
                    live_got.extend(live_reader.receive())
                    try:
                        late = list(PacketzQueue(path=path).receive())
                    except Exception as e:
                        late = []
                        errors.append(repr(e))
                    chk.case('writers-threads:' + repr([[sh for sh, _ in pl] for pl in plans]), nontrivial=True)
                    chk.count('writers.thread-rounds')
                    chk.count('writers.thread-sends', nw * per)
                    allp = [x for o in out for x in o]
                    if len({p.id for p, _ in allp}) != len(allp):
                        chk.count('queue.id_collisions')
                        path.unlink(missing_ok=True)
                        continue
                    num = {p.id: (w, i) for w in range(nw) for i, (p, _) in enumerate(out[w])}
                    data_of = {p.id: d for p, d in allp}
                    for name, got in (('polling-reader', live_got), ('late-reader', late)):
                        keys = [num.get(p.id) for p in got]
                        what = None
                        if errors:
                            what = 'raised'
                        elif set(num.values()) - set(keys):
                            what = 'lost'
                        elif len(set(keys)) != len(keys):
                            what = 'repeated'
                        elif None in keys:
                            what = 'invented'
                        elif any([i for ww, i in keys if ww == w] != list(range(len(out[w]))) for w in range(nw)):
                            what = 'order'
                        elif any(getattr(p, 'data', None) != data_of[p.id] or getattr(p, 'to', None) != f'w{num[p.id][0]}' for p in got):
                            what = 'data'
                        if what:
                            obad += 1
                            sizes = [len(x) for x in path.read_bytes().split(b'\n')]
                            chk.violation(f'oracle:several-writers:threads:{what}',
                                          'writer threads sending at the same time: a reader did not get every completed send once, '
                                          'each writer\'s packets in its order',
                                          {'oracle': 'several writer threads', 'reader': name, 'writers': nw, 'sends_each': per,
                                           'received': len(keys), 'sent': len(num), 'errors': errors[:3],
                                           'line_bytes_in_file(first 40)': sizes[:40]})
                            break
                    path.unlink(missing_ok=True)
            finally:
                sys.setswitchinterval(old_switch)
        chk.obligation('Q7:every completed send of several writers (scheduled inside each other, and threads) is received once', 'oracle',
                       obad == 0)
    finally:
        os.chdir(cwd)
        shutil.rmtree(tmp, ignore_errors=True)


def main():
    chk = Check(PID)
    chk.rule = ('rle: all strings over {~,a,1,4} up to length 6 (quick) / 8 (thorough) plus random strings with runs '
                'over the characters the encoding uses; pack: generated nested payloads (every 5th drawn from the '
                'risky stream with @/__class__ keys and style-like strings); queue: random send/corrupt/receive histories '
                'with cut-short views, truncation at every byte offset of the last record. Non-trivial: the string has a '
                'tilde or is changed by the encoder / payload non-empty / history longer than 2 ops; distinct by content hash. '
                'damage: every record of generated files damaged in ~30 ways (bytes exchanged, moved, one up one down, single '
                'characters, torn / run-together lines, the checksum field), through unpack() and through a reader of the file; '
                'isolation: 1-5 readers of one file in one process whose consumers (and the sender) change their own packets in place, '
                'unpack twice / pack again; '
                'async: receive_async() sessions on a virtual clock (consumer breaks / closes / abandons the iterator / is cancelled while '
                'busy with a packet / times out idle, producers sending while it waits, abandoned iterators resumed, sync receive() '
                'in between), each step on receive() logged for the generator model; '
                'writers: 2-3 writer objects and 2-3 readers of one file, records from a few bytes to around 8 KiB / 16 KiB / 64 KiB / '
                '256 KiB (one text, many items, long runs, multi-byte characters), another writer or a reader run at every call a send '
                'makes on its file object (open, write, flush, close), and writer threads sending at the same time with a polling reader.')
    chk.trusted += ['asyncio with a clock that jumps to the next timer (VirtualLoop; falls back to the real clock if the loop internals differ)',
                    'the tap on io.open / builtins.open sees the file objects send() writes to (obligation Q7: the tap saw ...)',
                    'Python re (for the regexes in compact.py), json, blake2b checksum, the file system',
                    'modelled: compact.py rle_encode/rle_decode (\\d restricted to ASCII digits), queue.py send/receive at '
                    'record granularity; not modelled: json text, asjson/fromjson (oracle only), class_escape (constants checked)']
    chk.assumptions += ['packet ids are pairwise distinct (new_id() is monotonic_ns mod 10^8; collisions counted in distribution)',
                        'readers see prefixes of the file; that a send appends its record as one piece is no longer assumed: Q7 runs other '
                        'writers at every call a send makes on its file object and real writer threads (appends of the operating system to '
                        'an O_APPEND file are taken to be atomic)',
                        'the record checksum has 16 bits, so one random damage in 65536 is accepted by any implementation: accepted '
                        'damaged lines are counted as chance while their number (per damage class and in all) stays within what a Poisson '
                        'count of mean tried/65536 reaches with probability 1e-5; more is a violation']
    source_shape(chk)
    st = chk.coq()
    ok, out = vlib.build_modelrun('Packetz')
    chk.obligation('modelrun_Packetz builds', 'build', ok, out[-500:])
    if ok:
        mr = ModelRun('Packetz')
        run_rle(chk, mr)
        run_pack(chk)
        run_queue(chk, mr)
        run_damage(chk, mr)
        run_isolation(chk, mr)
        run_async(chk, mr)
        run_writers(chk, mr)
    chk.exhaustive = False
    return chk.finish()


if __name__ == '__main__':
    sys.exit(main())
