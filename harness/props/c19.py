"""C19 - the packet queue is lossless and delivers each packet once, in order."""
from __future__ import annotations

import ast
import json
import os
import shutil
import sys
import tempfile
from pathlib import Path

sys.path.insert(0, str(Path(__file__).resolve().parent.parent))
import vlib
from vlib import Check, ModelRun, sx, sx_str, Atom

PID = 'C19'


# ------------------------------------------------------------------ source shape (tie of constants)
def source_shape(chk: Check):
    """The regex literals / replace pairs the model was written against (fail closed)."""
    src = (vlib.REPO / 'tatsu/packetz/compact.py').read_text()
    tree = ast.parse(src)
    consts = {}
    for fn in [n for n in tree.body if isinstance(n, ast.FunctionDef)]:
        strs = [n.value for n in ast.walk(fn) if isinstance(n, ast.Constant) and isinstance(n.value, str)]
        consts[fn.name] = strs
    want_enc = {'~', '~~', r'([^~])\1{3,}'}
    want_dec = {r'~~|~([^~])(\d+)~', '~'}
    enc = set(c for c in consts.get('rle_encode', []) if len(c) < 40)
    dec = set(c for c in consts.get('rle_decode', []) if len(c) < 40)
    ok_e = want_enc <= enc and not [c for c in enc - want_enc if '~' in c and c != '~']
    ok_d = want_dec <= dec and not [c for c in dec - want_dec if '~' in c]
    chk.obligation('T3:compact.py rle_encode literals', 'translator', ok_e, f'found {sorted(enc)}')
    chk.obligation('T3:compact.py rle_decode literals', 'translator', ok_d, f'found {sorted(dec)}')
    psrc = (vlib.REPO / 'tatsu/packetz/packet.py').read_text()
    ptree = ast.parse(psrc)
    pc = {}
    for fn in [n for n in ptree.body if isinstance(n, ast.FunctionDef)]:
        pc[fn.name] = [n.value for n in ast.walk(fn) if isinstance(n, ast.Constant) and isinstance(n.value, str)]
    ok_c = pc.get('class_escape') == ['"__class__":', '"@":'] and pc.get('class_unescape') == ['"@":', '"__class__":']
    chk.obligation('T4:packet.py class_escape pairs', 'translator', ok_c, str((pc.get('class_escape'), pc.get('class_unescape'))))


# ------------------------------------------------------------------ Q1 rle correspondence + oracle
def rle_cases(chk: Check):
    alpha = '~a14'
    n = 6 if chk.quick else 8
    cases = list(vlib.all_strings(alpha, n))
    extra_alpha = '~a14 \\e"@:{f\x1bb\n'
    rng = chk.rng
    for _ in range(1500 if chk.quick else 20000):
        k = rng.randint(0, 40)
        s = []
        while len(s) < k:
            c = rng.choice(extra_alpha)
            s.extend(c * rng.choice([1, 1, 1, 2, 3, 4, 5, 9, 10, 11, 12, 100, 101] if rng.random() < 0.3 else [1, 2]))
        cases.append(''.join(s[:60]))
    return cases


def run_rle(chk: Check, mr: ModelRun):
    from tatsu.packetz import compact
    cases = rle_cases(chk)
    enc_req = [f'(rle_encode {sx(s)})' for s in cases]
    enc_model = [sx_str(r) for r in mr.ask(enc_req)]
    dec_inputs = []
    n_bad = 0
    for s, em in zip(cases, enc_model):
        ei = compact.rle_encode(s)
        chk.case('rle:' + s, nontrivial=('~' in s or ei != s))
        chk.count('rle_encode.cases')
        if ei != s:
            chk.count('rle_encode.compressed')
        if ei != em:
            n_bad += 1
            chk.violation('corr:rle_encode', f'rle_encode differs from the model on {s!r}',
                          {'correspondence': 'Q1 rle_encode', 'input': s, 'impl': ei, 'model': em})
        back = compact.rle_decode(ei)
        if back != s:
            small = vlib.shrink_string(s, lambda t: compact.rle_decode(compact.rle_encode(t)) != t)
            chk.violation('oracle:rle-roundtrip', f'rle_decode(rle_encode(s)) != s for s={small!r}',
                          {'oracle': 'rle round trip', 'input': small, 'encoded': compact.rle_encode(small),
                           'decoded': compact.rle_decode(compact.rle_encode(small))})
        dec_inputs.append(ei)
    # decode on arbitrary (not necessarily encoded) ASCII-digit strings
    # (decoding arbitrary text can ask for astronomically long runs, e.g. '~a1111111111~': keep counts below 10^4)
    import re as _re
    dec_inputs += [s for s in cases if all(not c.isdigit() or c in '0123456789' for c in s)
                   and not _re.search(r'~[^~]\d{5,}~', s)]
    dec_model = [sx_str(r) for r in mr.ask([f'(rle_decode {sx(s)})' for s in dec_inputs])]
    for s, dm in zip(dec_inputs, dec_model):
        di = compact.rle_decode(s)
        chk.count('rle_decode.cases')
        chk.evaluations += 1
        if di != dm:
            chk.violation('corr:rle_decode', f'rle_decode differs from the model on {s!r}',
                          {'correspondence': 'Q1 rle_decode', 'input': s, 'impl': di, 'model': dm})
    chk.obligation('Q1:rle_encode/rle_decode vs model', 'correspondence',
                   not any(v['signature'].startswith('corr:rle') for v in chk.violations))
    chk.sample({'rle_encode': cases[37], 'model': enc_model[37]})


# ------------------------------------------------------------------ Q2 pack/unpack oracle
SPECIAL = ['~', '~~', 'aaaa', 'aaaaa', '~a1~', '~14~', '\\e', '\\e[1m', '\x1b[0m', '\\x1b', 'f{a', 'f{', '"@":',
           '"__class__":', '@', '__class__', '\n', '\r', '\u2028', ' ' * 7, 'é' * 5, '\\', '"', '{', '}', ':', '0' * 4,
           '1111', '~~~~~', 'x~4~', '\\u001b', '\t', '']


def gen_payload(rng, depth=0, risky=False):
    r = rng.random()
    if depth > 2 or r < 0.45:
        k = rng.random()
        if k < 0.15:
            return rng.choice([None, True, False, 0, 1, -7, 3.5, 10 ** 12])
        parts = []
        for _ in range(rng.randint(0, 4)):
            if rng.random() < 0.5:
                parts.append(rng.choice(SPECIAL))
            else:
                parts.append(rng.choice('ab1~ ') * rng.choice([1, 2, 4, 6, 11]))
        s = ''.join(parts)
        if not risky:
            while s.startswith(('f{', '\\e[')):
                s = 'x' + s
        return s
    if r < 0.75:
        return [gen_payload(rng, depth + 1, risky) for _ in range(rng.randint(0, 3))]
    d = {}
    for _ in range(rng.randint(0, 3)):
        key = rng.choice(['k', 'a~', 'aaaaa', 'to', 'data', 'id', 'x y', '\\e', 'f{k', 'a~~b', '~x5~', '~~', 'a~b', '~a12~z', '__typename', '__meta',
                          '__', '_x', '__init__', 'x__', '~'])
        if risky and rng.random() < 0.3:
            key = rng.choice(['@', '__class__'])
        d[key] = gen_payload(rng, depth + 1, risky)
    return d


def features(p) -> set:
    out = set()
    if isinstance(p, str):
        if p.startswith('f{'):
            out.add('str-startswith-f{')
        if p.startswith('\\e['):
            out.add('str-startswith-\\e[')
    elif isinstance(p, list):
        for x in p:
            out |= features(x)
    elif isinstance(p, dict):
        for k, v in p.items():
            if k == '@':
                out.add('dict-key-@')
            if k == '__class__':
                out.add('dict-key-__class__')
            out |= features(v)
    return out


def shrink_payload(p, bad):
    """greedy structural shrink while bad(p)"""
    changed = True
    while changed:
        changed = False
        cands = []
        if isinstance(p, list):
            cands += [p[:i] + p[i + 1:] for i in range(len(p))] + list(p)
        elif isinstance(p, dict):
            cands += [{k: v for k, v in p.items() if k != kk} for kk in p] + list(p.values())
            for kk in p:
                for sub in _subs(p[kk]):
                    q = dict(p)
                    q[kk] = sub
                    cands.append(q)
        elif isinstance(p, str):
            cands += [p[:i] + p[i + 1:] for i in range(len(p))]
        if isinstance(p, list):
            for i, x in enumerate(p):
                for sub in _subs(x):
                    cands.append(p[:i] + [sub] + p[i + 1:])
        for c in cands:
            try:
                if bad(c):
                    p = c
                    changed = True
                    break
            except Exception:
                pass
    return p


def _subs(x):
    if isinstance(x, list):
        return [x[:i] + x[i + 1:] for i in range(len(x))] + list(x)
    if isinstance(x, dict):
        return [{k: v for k, v in x.items() if k != kk} for kk in x] + list(x.values())
    if isinstance(x, str):
        return [x[:i] + x[i + 1:] for i in range(len(x))]
    return []


def run_pack(chk: Check):
    from tatsu.packetz.packet import Packet, pack, unpack

    def roundtrip_fails(data, to='r'):
        p = Packet(to=to, data=data)
        s = pack(p)
        if any(c in s for c in '\n\r'):
            return 'newline-in-record'
        try:
            q = unpack(s + '\n')
        except Exception as e:
            return f'unpack-raises-{type(e).__name__}'
        if getattr(q, 'to', None) != to:
            return 'recipient-differs'
        if getattr(q, 'data', None) != data or type(getattr(q, 'data', None)) is not type(data):
            return 'data-differs'
        if getattr(q, 'id', None) != p.id:
            return 'id-differs'
        return None

    rng = chk.rng
    n = 1500 if chk.quick else 30000
    for i in range(n):
        risky = (i % 5 == 4)
        data = gen_payload(rng, 0, risky)
        to = rng.choice(['r', 'worker~1', 'aaaaa', '', None, '0', ' ', '~a3~', 'ñ~~~~~', 'a' * 12, '"', '\\']) if i % 3 == 0 else 'r'
        if risky and i % 15 == 14:
            to = rng.choice(['f{x', '\\e[1m'])
            data = rng.choice(['x', 'plain', 7])      # one cause per case
        chk.case('pack:' + json.dumps([to, data], sort_keys=True, default=str), nontrivial=bool(data))
        chk.count('pack.risky' if risky else 'pack.plain')
        chk.count('pack.to.' + ('none' if to is None else 'empty' if to == '' else 'text'))
        why = roundtrip_fails(data, to)
        if why:
            small = shrink_payload(data, lambda d: roundtrip_fails(d, to) is not None)
            why = roundtrip_fails(small, to)
            feats = features(small) | {'recipient-' + f for f in features(to)}
            if why == 'recipient-differs' and not feats and roundtrip_fails(small, 'r') is None:
                feats = {'recipient:' + ('none' if to is None else 'empty' if to == '' else 'text')}
            sig = 'pack:' + ('+'.join(sorted(feats)) if feats else 'other:' + why)
            chk.violation(sig, f'unpack(pack(p)) != p: {why} for to={to!r} data={small!r}',
                          {'oracle': 'pack/unpack round trip', 'to': to, 'data': small, 'why': why,
                           'packed': pack(Packet(to=to, data=small))})
    chk.sample({'pack': pack(Packet(to='r', data={'k': ['aaaaa~', 1]}))})


# ------------------------------------------------------------------ Q3 queue
def run_queue(chk: Check, mr: ModelRun):
    from tatsu.packetz.queue import PacketzQueue
    from tatsu.packetz.packet import Packet, pack
    rng = chk.rng
    tmp = Path(tempfile.mkdtemp(prefix='verif-c19-', dir='/var/tmp'))
    cwd = os.getcwd()
    os.chdir(tmp)   # PacketzQueue creates ./.packetz relative to the cwd
    try:
        nseq = 150 if chk.quick else 3000
        reqs, expect = [], []
        for it in range(nseq):
            # history: lines written by the sender (bytes), reader sees prefixes
            writer_path = tmp / f'w{it}.jsonl'
            reader_path = tmp / f'r{it}.jsonl'
            wq = PacketzQueue(path=writer_path)
            rq = PacketzQueue(path=reader_path)
            ops = []
            ids = {}
            sent_ids = []
            delivered = []
            nops = rng.randint(1, 8)
            for _ in range(nops):
                r = rng.random()
                if r < 0.5:
                    pkt = wq.send(to='r', data=gen_payload(rng))
                    if pkt.id in ids:      # id collision (monotonic_ns mod 10^8): outside the theorem's hypothesis
                        chk.count('queue.id_collisions')
                    ids.setdefault(pkt.id, len(ids) + 1)
                    sent_ids.append(ids[pkt.id])
                    ops.append([Atom('send'), [Atom('good'), ids[pkt.id]]])
                elif r < 0.62:
                    kind = rng.choice(['garbage', 'badhash', 'badjson'])
                    with writer_path.open('at', encoding='utf-8') as f:
                        if kind == 'garbage':
                            f.write('not a packet at all\n')
                        elif kind == 'badhash':
                            good = pack(Packet(to='r', data='x'))
                            f.write(good.replace('"hash":"', '"hash":"0', 1) + '\n')
                        else:
                            f.write('{"hash":"0000","data":{"@":"Packet",}\n')
                    ops.append([Atom('send'), Atom('corrupt')])
                else:
                    content = writer_path.read_bytes()
                    cut = rng.choice([len(content), len(content), rng.randint(0, len(content))])
                    view = content[:cut]
                    # do not cut inside a multi-byte character: move back to a boundary
                    while True:
                        try:
                            view.decode('utf-8')
                            break
                        except UnicodeDecodeError:
                            view = view[:-1]
                    reader_path.write_bytes(view)
                    k = view.count(b'\n')
                    got = [ids.get(p.id, -1) for p in rq.receive()]
                    delivered += got
                    ops.append([Atom('recv'), k])
            # final complete read
            reader_path.write_bytes(writer_path.read_bytes())
            delivered += [ids.get(p.id, -1) for p in rq.receive()]
            ops.append([Atom('recv'), writer_path.read_bytes().count(b'\n')])
            reqs.append(f'(queue {sx(ops)})')
            expect.append((ops, delivered, sent_ids))
            chk.case('queue:' + sx(ops), nontrivial=len(ops) > 2)
            chk.count('queue.histories')
            if len(set(sent_ids)) == len(sent_ids) and delivered != sent_ids:
                chk.violation('oracle:queue-order', 'packets not delivered exactly once in send order',
                              {'oracle': 'exactly once, in order', 'ops': sx(ops), 'delivered': delivered, 'sent': sent_ids})
            for p in (writer_path, reader_path):
                p.unlink(missing_ok=True)
        replies = mr.ask(reqs)
        bad = 0
        for (ops, delivered, sent), rep in zip(expect, replies):
            mdel = [int(x) for x in rep[1]] if rep[1] != 'nil' else []
            if len(set(sent)) != len(sent):
                continue
            if mdel != delivered:
                bad += 1
                chk.violation('corr:queue', 'PacketzQueue differs from the model',
                              {'correspondence': 'Q3 queue', 'ops': sx(ops), 'impl': delivered, 'model': mdel})
        chk.obligation('Q3:PacketzQueue vs Queue.v on op histories', 'correspondence', bad == 0)
        chk.sample({'queue_ops': sx(expect[0][0]), 'delivered': expect[0][1]})

        # ---- several live receive() generators on ONE reader object, advanced in any order, sends in between
        ngen = 200 if chk.quick else 4000
        greqs, gexp = [], []
        for it in range(ngen):
            path = tmp / f'g{it}.jsonl'
            q = PacketzQueue(path=path)
            ops, ids, sent, delivered, gens, live = [], {}, [], [], [], []
            def do(op):
                if op == 'send':
                    pkt = q.send(to='r', data=gen_payload(rng))
                    if pkt.id in ids:
                        chk.count('queue.id_collisions')
                    ids.setdefault(pkt.id, len(ids) + 1)
                    sent.append(ids[pkt.id])
                    ops.append([Atom('send'), [Atom('good'), ids[pkt.id]]])
                elif op == 'corrupt':
                    with path.open('at', encoding='utf-8') as f:
                        f.write('not a packet at all\n')
                    ops.append([Atom('send'), Atom('corrupt')])
                elif op == 'open':
                    gens.append(iter(q.receive()))
                    live.append(True)
                    ops.append(Atom('open'))
                else:
                    j = op[1]
                    ops.append([Atom('next'), j])
                    try:
                        pkt = next(gens[j])
                        delivered.append(ids.get(pkt.id, -1))
                        return True
                    except StopIteration:
                        live[j] = False
                        return False
                return None

            if it % 3 == 0:
                # one generator is suspended part-way, another drains the queue to its end, the first is resumed
                chk.count('queue.generators.suspend-drain-resume')
                for _ in range(rng.randint(2, 6)):
                    do(rng.choice(['send', 'send', 'send', 'corrupt']))
                do('open')
                for _ in range(rng.randint(0, 2)):
                    do(('next', 0))
                do('open')
                while do(('next', 1)):
                    pass
                for _ in range(rng.randint(0, 2)):
                    do('send')
                while do(('next', 0)):
                    pass
            else:
                for _ in range(rng.randint(2, 12)):
                    r = rng.random()
                    if r < 0.35:
                        do('send')
                    elif r < 0.42:
                        do('corrupt')
                    elif r < 0.6 or not gens:
                        do('open')
                    else:
                        do(('next', rng.randrange(len(gens))))
            # drain with a fresh generator: nothing may be left or repeated
            ops.append(Atom('open'))
            gens.append(iter(q.receive()))
            live.append(True)
            while True:
                ops.append([Atom('next'), len(gens) - 1])
                try:
                    pkt = next(gens[-1])
                    delivered.append(ids.get(pkt.id, -1))
                except StopIteration:
                    live[-1] = False
                    break
            greqs.append(f'(genqueue {sx(ops)})')
            gexp.append((ops, delivered, sent, list(live)))
            chk.case('genqueue:' + sx(ops), nontrivial=len(ops) > 4)
            chk.count('queue.generator-histories')
            if len(set(sent)) == len(sent) and delivered != sent:
                chk.violation('oracle:queue-generators-order', 'overlapping receive() generators: packets not delivered exactly once in send order',
                              {'oracle': 'exactly once, in order (generators)', 'ops': sx(ops), 'delivered': delivered, 'sent': sent})
            for g in gens:
                g.close()
            path.unlink(missing_ok=True)
        gbad = 0
        for (ops, delivered, sent, live), rep in zip(gexp, mr.ask(greqs)):
            if len(set(sent)) != len(sent):
                continue
            mdel = [int(x) for x in rep[1]] if rep[1] != 'nil' else []
            mlive = [x == '1' for x in rep[2]] if rep[2] != 'nil' else []
            if mdel != delivered or mlive != live:
                gbad += 1
                chk.violation('corr:queue-generators', 'PacketzQueue with overlapping generators differs from the model',
                              {'correspondence': 'Q3 generators', 'ops': sx(ops), 'impl': delivered, 'model': mdel, 'impl_live': live, 'model_live': mlive})
        chk.obligation('Q3:overlapping receive() generators vs QueueGen.v', 'correspondence', gbad == 0)

        # truncation at every byte offset of the last record
        ntr = 12 if chk.quick else 200
        tbad = 0
        for it in range(ntr):
            writer_path = tmp / f'tw{it}.jsonl'
            wq = PacketzQueue(path=writer_path)
            npk = rng.randint(1, 3)
            pk = [wq.send(to='r', data=gen_payload(rng)) for _ in range(npk)]
            content = writer_path.read_bytes()
            last_start = content[:-1].rfind(b'\n') + 1
            for cut in range(last_start, len(content) + 1):
                view = content[:cut]
                try:
                    view.decode('utf-8')
                except UnicodeDecodeError:
                    continue
                reader_path = tmp / f'tr{it}.jsonl'
                reader_path.write_bytes(view)
                rq = PacketzQueue(path=reader_path)
                first = [p.id for p in rq.receive()]
                again = [p.id for p in rq.receive()]
                reader_path.write_bytes(content)
                rest = [p.id for p in rq.receive()]
                chk.evaluations += 1
                chk.count('queue.truncations')
                want_first = [p.id for p in pk[:-1]] + ([pk[-1].id] if cut == len(content) else [])
                if first != want_first or again or first + rest != [p.id for p in pk]:
                    tbad += 1
                    chk.violation('oracle:queue-truncation', 'truncated read lost, repeated or invented a packet',
                                  {'oracle': 'truncation safe', 'cut': cut, 'len': len(content),
                                   'content': content.decode('utf-8'), 'first': first, 'again': again, 'rest': rest})
                reader_path.unlink(missing_ok=True)
            writer_path.unlink(missing_ok=True)
        chk.obligation('Q3:truncation at every byte offset of the last record', 'oracle', tbad == 0)
    finally:
        os.chdir(cwd)
        shutil.rmtree(tmp, ignore_errors=True)


def main():
    chk = Check(PID)
    chk.rule = ('rle: all strings over {~,a,1,4} up to length 6 (quick) / 8 (thorough) plus random strings with runs '
                'over the characters the encoding uses; pack: generated nested payloads (every 5th drawn from the '
                'risky stream with @/__class__ keys and style-like strings); queue: random send/corrupt/receive histories '
                'with cut-short views, truncation at every byte offset of the last record. Non-trivial: the string has a '
                'tilde or is changed by the encoder / payload non-empty / history longer than 2 ops; distinct by content hash.')
    chk.trusted += ['Python re (for the regexes in compact.py), json, blake2b checksum, the file system',
                    'modelled: compact.py rle_encode/rle_decode (\\d restricted to ASCII digits), queue.py send/receive at '
                    'record granularity; not modelled: json text, asjson/fromjson (oracle only), class_escape (constants checked)']
    chk.assumptions += ['packet ids are pairwise distinct (new_id() is monotonic_ns mod 10^8; collisions counted in distribution)',
                        'a send appends its record with one write; readers see prefixes of the file']
    source_shape(chk)
    st = chk.coq()
    ok, out = vlib.build_modelrun('Packetz')
    chk.obligation('modelrun_Packetz builds', 'build', ok, out[-500:])
    if ok:
        mr = ModelRun('Packetz')
        run_rle(chk, mr)
        run_pack(chk)
        run_queue(chk, mr)
    chk.exhaustive = False
    return chk.finish()


if __name__ == '__main__':
    sys.exit(main())
