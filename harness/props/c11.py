"""C11 - reserved words are never accepted where a name is required."""
from __future__ import annotations

import sys
from pathlib import Path

sys.path.insert(0, str(Path(__file__).resolve().parent.parent))
import vlib
from vlib import Check, ModelRun
import enginelib as E
import enginegen as G
import enginerun as R

PID = 'C11'
KW_POOL = ['if', 'then', 'end', 'while', 'x1', 'IF', 'End']
WORDS = ['if', 'IF', 'If', 'iff', 'i', 'then', 'the', 'THEN', 'end', 'End', 'ends', 'while', 'x', 'foo', 'x1', 'X1', 'ab', 'a']


PHRASE_WORDS = ['iff', 'the', 'ends', 'x', 'foo', 'ab', 'a', 'i']      # words that are not keywords of KW_POOL
BIG_POOL = ['abort', 'abs', 'accept', 'access', 'all', 'and', 'array', 'at', 'begin', 'body', 'case', 'constant', 'declare', 'delay',
            'delta', 'digits', 'do', 'else', 'elsif', 'end', 'entry', 'exception', 'exit', 'for', 'function', 'generic', 'goto', 'if',
            'in', 'is', 'limited', 'loop', 'mod', 'new', 'not', 'null', 'of', 'or', 'others', 'out', 'package', 'pragma', 'private',
            'procedure', 'raise', 'range', 'record', 'rem', 'renames', 'return', 'reverse', 'select', 'separate', 'subtype', 'task',
            'terminate', 'then', 'type', 'use', 'when', 'while', 'with', 'xor']
SEMS = [('none', {}), ('none', {}), ('none', {'ident': 'tag'}), ('identity', {}), ('none', {'ident': ('const', 'K')}),
        ('none', {'ident': 'identity', 'start': 'tag'}), ('identity', {'ident': 'tag'})]


def gen_kw_grammar(rng):
    kws = rng.sample(KW_POOL, rng.randint(1, 3))
    if rng.random() < 0.25:     # a long keyword list (the generated KEYWORDS table spans several lines)
        kws = rng.sample(BIG_POOL, rng.randint(9, len(BIG_POOL)))
    if rng.random() < 0.3:      # spellings that differ only in case are different keywords (unless ignorecase)
        k = rng.choice(kws)
        kws = kws + [v for v in {k.upper(), k.capitalize(), k.lower()} if v not in kws][:rng.randint(1, 2)]
    quoted = rng.random() < 0.3
    name_pat = rng.choice([r'[a-z]+', r'\w+', r'[A-Za-z]+', r'[a-zA-Z][a-zA-Z0-9]*'])
    if quoted and rng.random() < 0.6:      # a quoted keyword may be a phrase: it is reserved as declared, its words are not
        kws = kws + [' '.join(rng.sample(PHRASE_WORDS, 2))]
        if rng.random() < 0.5:
            name_pat = r'[a-z]+( [a-z]+)?'
    ident_body = ('pat', name_pat) if rng.random() < 0.8 else ('choice', [('tok', 'if'), ('tok', 'foo'), ('pat', name_pat)])
    shape = rng.choice(['choice', 'closure', 'lookahead', 'seq', 'stmt'])
    if shape == 'choice':
        start = ('seq', [('choice', [('named', False, 'name', ('call', 'ident')), ('named', False, 'kw', ('pat', r'\w+'))]), 'eof'])
    elif shape == 'closure':
        start = ('seq', [('named', False, 'names', ('rep', False, None, False, ('call', 'ident'))),
                         ('named', False, 'rest', ('rep', False, None, False, ('pat', r'\w+'))), 'eof'])
    elif shape == 'lookahead':
        start = ('seq', [('choice', [('seq', [('look', False, ('call', 'ident')), ('named', False, 'name', ('pat', r'\w+'))]),
                                     ('named', False, 'kw', ('pat', r'\w+'))]), 'eof'])
    elif shape == 'seq':
        start = ('seq', [('named', False, 'a', ('call', 'ident')), ('opt', ('named', False, 'b', ('call', 'ident'))), 'eof'])
    else:
        start = ('seq', [('choice', [('seq', [('tok', 'if'), ('named', False, 'c', ('call', 'ident')), ('tok', 'then'), ('named', False, 's', ('call', 'ident'))]),
                                     ('named', False, 'name', ('call', 'ident'))]), 'eof'])
    plain = ('plain', [], ident_body)     # the same rule without the decorator, for the "unaffected" oracle
    deco = [rng.choice(['name', 'name', 'isname'])] + (['nomemo'] if rng.random() < 0.3 else [])       # @isname: the legacy spelling       # a @name rule may also be @nomemo (another decorator path in generated code)
    g = {'rules': [('start', [], start), ('ident', deco, ident_body)],
         'directives': {}, 'keywords': [("'" + k + "'") if quoted else k for k in kws]}
    if rng.random() < 0.3:      # rules spelled like the words they match (end = 'end' ;): the word stays reserved
        for k in kws:
            if k.isalpha() and k.islower() and k not in ('start', 'ident'):
                g['rules'].append((k, [], ('tok', k)))
    if rng.random() < 0.35:
        g['directives']['ignorecase'] = rng.choice(['True', 'False'])
    return g, kws, shape


def gen_texts(rng, n, kws=()):
    out = []
    words = WORDS if len(kws) < 9 else WORDS + list(kws) * 2 + [k.upper() for k in kws[:6]] + [k + 's' for k in kws[:6]]
    for _ in range(n):
        k = rng.randint(1, 4)
        out.append(' '.join(rng.choice(words) for _ in range(k)))
    if len(kws) >= 9:           # every declared keyword on its own
        out += list(kws)
    return out


def find_named_values(canon, keys=('name', 'names', 'a', 'b', 'c', 's')):
    """string values bound to the names that hold @name rule results in the generated shapes"""
    out = []
    if isinstance(canon, dict) and 'dict' in canon:
        for k, v in canon['dict'].items():
            if k in keys:
                vs = v if isinstance(v, list) else [v]
                for x in vs:
                    while isinstance(x, dict) and 'tag' in x:       # a tagging action wrapped the matched name
                        x = x['tag'][1]
                    if isinstance(x, str):
                        out.append(x)
            out += find_named_values(v, keys)
    elif isinstance(canon, list):
        for x in canon:
            out += find_named_values(x, keys)
    return out


_reloaded: dict = {}


def reloaded_model(g):
    import json
    from tatsu.peg.base import Grammar
    txt = E.grammar_text(g)
    if txt not in _reloaded:
        m = R.compile_grammar(g)
        try:
            _reloaded[txt] = None if isinstance(m, tuple) else Grammar.loads(json.dumps(m.asjson()))
        except Exception:  # noqa  (the export itself is C14's subject)
            _reloaded[txt] = None
    return _reloaded[txt]


def shard(col, shard_i, ngrammars, ninputs):
    mr = ModelRun('Engine')
    rng = col.rng
    cases, meta = [], []
    for gi in range(ngrammars):
        g, kws, shape = gen_kw_grammar(rng)
        col.count('shape.' + shape)
        texts = gen_texts(rng, ninputs, kws)
        col.count('keywords.many' if len(kws) >= 9 else 'keywords.few')
        for t in texts:
            for igc in (None, True, False) if gi % 2 == 0 and len(kws) < 9 else (None,):
                sem = rng.choice(SEMS)
                col.count('sem.' + ('none' if sem == ('none', {}) else 'actions'))
                c = R.Case(g, t, None, E.Settings(ignorecase=igc), sem, tag=shape)
                cases.append(c)
                meta.append((kws, igc))
    results = []
    for off in range(0, len(cases), 400):
        results += R.run_cases(mr, cases[off:off + 400])
    for (c, io, mo, extra), (kws, igc) in zip(results, meta):
        fp = [E.grammar_text(c.g), c.text, c.settings.kwargs(), repr(c.semspec)]
        if mo is None:
            col.case(fp, nontrivial=False)
            col.count('uncompilable')
            continue
        col.case(fp, nontrivial=True)
        col.count('impl:' + io[0])
        if mo[0] != 'recursion' and io != mo:
            col.violation(f'E1kw:{c.tag}:{sorted(c.settings.kwargs().items())}:{"dir" if "ignorecase" in c.g["directives"] else "nodir"}:impl={io[0]}:model={mo[0]}',
                          'implementation and model disagree on a grammar with keywords',
                          {'correspondence': 'E1 keywords', 'case': c.describe(), 'impl': io, 'model': mo})
        # effective ignorecase: parse-time setting, else directive, else off
        d = c.g['directives'].get('ignorecase')
        eff = igc if igc is not None else (d == 'True')
        if io[0] == 'ok' and c.tag != 'lookahead':   # in the lookahead shape `name` is bound by a plain pattern
            for v in find_named_values(io[1]):
                col.count('named-values.checked')
                is_kw = (v.upper() in {k.upper() for k in kws}) if eff else (v in kws)
                if is_kw:
                    layer = f'directive={d}:setting={igc}'
                    col.violation(f'oracle:keyword-accepted:{layer}',
                                  f'a @name rule succeeded with the keyword {v!r} (effective ignorecase={eff})',
                                  {'oracle': 'never a keyword', 'case': c.describe(), 'keywords': kws, 'value': v, 'result': io})
        # generated parser agrees
        if col.rng.random() < 0.3 or len(kws) >= 9 or 'nomemo' in c.g['rules'][1][1]:
            go, _ = R.gen_outcome(c)
            col.count('genparser.compared')
            if isinstance(go, tuple) and go and go[0] in ('ok', 'fail', 'exc') and go != io:
                col.violation(f'oracle:genparser-keywords:{io[0]}-vs-{go[0]}:{"dir" if "ignorecase" in c.g["directives"] else "nodir"}:{sorted(c.settings.kwargs().items())}',
                              'the generated parser and the model disagree on a grammar with keywords',
                              {'oracle': 'generated parser', 'case': c.describe(), 'model.parse': io, 'generated': go})
        # the model re-loaded from its JSON export reserves the same words
        if col.rng.random() < 0.25:
            rm = reloaded_model(c.g)
            if rm is not None:
                ro, _ = R.impl_outcome(c, rm)
                col.count('reloaded.compared')
                if ro != io:
                    col.violation(f'oracle:reloaded-model-keywords:{io[0]}-vs-{ro[0]}',
                                  'the model re-loaded from its own JSON export and the compiled model disagree on a grammar with keywords',
                                  {'oracle': 'JSON round trip of the model', 'case': c.describe(), 'model.parse': io, 'reloaded': ro})
        # non-keywords unaffected: the same grammar with the decorator removed
        g2 = dict(c.g)
        g2['rules'] = [(n, [x for x in dd if x not in ('name', 'isname')], e) for n, dd, e in c.g['rules']]
        has_kw = any(w.upper() in {k.upper() for k in kws} for w in c.text.split())
        if io[0] == 'ok' and not has_kw and col.rng.random() < 0.7:
            m2 = R.compile_grammar(g2)
            if not isinstance(m2, tuple):
                o2, _ = R.impl_outcome(R.Case(g2, c.text, None, c.settings, c.semspec), m2)
                col.count('undecorated.compared')
                if o2 != io:
                    col.violation('oracle:decorator-changes-accepted-parse',
                                  'a parse accepted with @name differs from the parse of the undecorated grammar',
                                  {'oracle': 'non-keywords unaffected', 'case': c.describe(), 'with': io, 'without': o2})
    if cases:
        col.sample(cases[len(cases) // 2].describe())


def shard_history(col, shard_i, nhist):
    """one generated parser OBJECT over a history of calls with per-call ignorecase (failing calls in between): the keyword check of
    every call must be the one a fresh parser and model.parse make"""
    import tatsu
    rng = col.rng

    def outcome(run):
        try:
            return ('ok', E.canon(run()))
        except tatsu.exceptions.FailedParse:
            return ('fail', None)
        except Exception as e:  # noqa
            return ('exc', type(e).__name__)
    for _ in range(nhist):
        g, kws, shape = gen_kw_grammar(rng)
        cls = R.generated_parser(g)
        m = R.compile_grammar(g)
        if isinstance(cls, tuple) or isinstance(m, tuple):
            continue
        texts = gen_texts(rng, 8, kws)
        reused = cls()
        hist = []
        # every history starts with a directed prefix: a FAILING call under one ignorecase setting, then every case variant of a keyword
        # and a non-keyword with no setting and with the opposite setting (what the failed call left behind must not show)
        k0 = kws[0]
        flip = rng.random() < 0.5
        directed = [('!!', {'ignorecase': flip})] + [(w, {}) for w in (k0, k0.upper(), k0.lower(), k0.capitalize(), 'zq')] + \
                   [('!!', {'ignorecase': not flip})] + [(w, kw_) for w in (k0.upper(), k0.lower(), 'zq') for kw_ in ({}, {'ignorecase': flip})]
        nsteps = len(directed) + rng.randint(3, 7)
        for step in range(nsteps):
            if step < len(directed):
                t, kw = directed[step][0], dict(directed[step][1])
            else:
                t = rng.choice(texts)
                kw = dict(rng.choice([{}, {}, {'ignorecase': True}, {'ignorecase': False}]))
            hist.append((t, kw))
            a = outcome(lambda: reused.parse(t, **kw))
            b = outcome(lambda: cls().parse(t, **kw))
            c = outcome(lambda: m.parse(t, **kw))
            col.case(['kw-history', E.grammar_text(g), repr(hist)], nontrivial=step > 0)
            col.count('history.calls')
            if a != b or a[0] != c[0]:
                col.violation(f'oracle:keyword-history:reused={a[0]}:fresh={b[0]}:model={c[0]}',
                              'a reused generated parser applies the keyword check of an earlier call (or differs from the model)',
                              {'oracle': 'keyword check per call', 'grammar': E.grammar_text(g), 'keywords': kws, 'history': hist,
                               'reused': a, 'fresh': b, 'model.parse': c})
                break


# ---- grammar features outside the IR around the @name rule: rule parameters / node types, based rules, semantics classes of TatSu
PROBE_RULES = {
    'plain': "@name\nident = /[A-Za-z]+/ ;",
    'typed': "@name\nident::Ident = /[A-Za-z]+/ ;",
    'typed-params': "@name\nident(Ident) = /[A-Za-z]+/ ;",
    'typed-override': "@name\nident::Ident = @:/[A-Za-z]+/ ;",
    'based-on-plain': "word = @:/[A-Za-z]+/ ;\n@name\nident < word = () ;",
    'name-nomemo': "@name\n@nomemo\nident = /[A-Za-z]+/ ;",
    'isname-typed': "@isname\nident::Ident = /[A-Za-z]+/ ;",
}


def shard_probes(col, shard_i):
    import tatsu
    from tatsu.semantics import ModelBuilderSemantics

    class Default:
        def _default(self, ast, *a, **k):
            return ast

    class Method:
        def ident(self, ast, *a, **k):
            return ast

    sems = {'none': lambda: None, 'builder': lambda: ModelBuilderSemantics(), 'default': lambda: Default(), 'method': lambda: Method()}
    kws = ['if', 'End']
    for pname, rule in PROBE_RULES.items():
        for igc in (None, True):
            g = '@@keyword :: ' + ' '.join(kws) + '\n' + ('@@ignorecase :: True\n' if igc else '') + "start = 'let' ident ';' $ ;\n" + rule + '\n'
            try:
                m = tatsu.compile(g)
                ns: dict = {}
                exec(tatsu.to_python_sourcecode(g, name='K'), ns)
                cls = ns['KParser']
            except Exception as e:  # noqa
                col.count('probe.grammar-rejected.' + pname)
                continue
            for sname, mk in sems.items():
                for word in ('x', 'iff', 'if', 'End', 'IF', 'end', 'ends'):
                    reserved = (word.upper() in {k.upper() for k in kws}) if igc else (word in kws)
                    want = 'fail' if reserved else 'ok'
                    got = []
                    for run in (lambda: m.parse(f'let {word};', semantics=mk()), lambda: cls().parse(f'let {word};', semantics=mk())):
                        try:
                            run()
                            got.append('ok')
                        except tatsu.exceptions.FailedParse:
                            got.append('fail')
                        except Exception as e:  # noqa
                            got.append('exc:' + type(e).__name__)
                    col.case(['kw-probe', pname, igc, sname, word], nontrivial=True)
                    col.count('probe.compared')
                    if got != [want, want]:
                        col.violation(f'oracle:keyword-probe:{pname}:{sname}:ignorecase={igc}:want={want}:model={got[0]}:generated={got[1]}',
                                      f'a @name rule written as {pname!r} with semantics {sname!r}: the word {word!r} must be ' + ('rejected' if reserved else 'accepted'),
                                      {'oracle': 'never a keyword (constructs outside the IR)', 'grammar': g, 'text': f'let {word};', 'semantics': sname,
                                       'expected': want, 'model.parse': got[0], 'generated': got[1]})


def main():
    chk = Check(PID)
    chk.rule = ('grammars with 1-3 @@keyword declarations (words, quoted strings, mixed case) and a @name rule used in a choice, a closure, a '
                'lookahead, a sequence or a statement form x inputs mixing keywords, prefixes/suffixes and case variants x ignorecase by '
                'directive and/or parse-time setting x semantics {none, tagging / constant / identity action on the @name rule, _default}; a quarter of '
                'the grammars declare 9-60 keywords (every keyword is also an input, the generated parser is always compared); compared: implementation vs model, the values bound to @name results vs the declared '
                'keywords, generated parser, undecorated grammar. Distinct by (grammar, input, settings).')
    chk.trusted += ['oracles per case from the real Python (re, unicode predicates incl. upper(), the resolved keyword set and ignorecase)']
    chk.coq()
    ok, out = vlib.build_modelrun('Engine')
    chk.obligation('modelrun_Engine builds', 'build', ok, out[-500:])
    if ok:
        if chk.quick:
            vlib.run_sharded(chk, shard, 14, extra=(10, 8))
            vlib.run_sharded(chk, shard_history, 14, extra=(8,))
            vlib.run_sharded(chk, shard_probes, 1, procs=1)
        else:
            vlib.run_sharded(chk, shard, 28, extra=(60, 14))
            vlib.run_sharded(chk, shard_history, 28, extra=(60,))
            vlib.run_sharded(chk, shard_probes, 1, procs=1)
        chk.obligation('E1: grammars with keywords, implementation vs model', 'correspondence',
                       not any(v['signature'].startswith('E1kw') for v in chk.violations))
        chk.obligation('never a keyword / generated parser / undecorated grammar (implementation only)', 'oracle',
                       not any(v['signature'].startswith('oracle:') for v in chk.violations))
    return chk.finish()


if __name__ == '__main__':
    sys.exit(main())
