"""C09 - whitespace, comments, nameguard and case rules are applied uniformly; configuration layers consistently."""
from __future__ import annotations

import re
import sys
from pathlib import Path

sys.path.insert(0, str(Path(__file__).resolve().parent.parent))
import vlib
from vlib import Check, ModelRun, sx
import enginelib as E
import enginegen as G
import enginerun as R

PID = 'C09'
COMMENTS = r'\(\*.*?\*\)'
EOLC = r'#[^\n]*'
SAFE_PATTERNS = [r'\d+', r'[a-z]+', r'x*', r'(a)(b)?', r'[ab]', r'\w+', r'b?']


def gen_cfg_grammar(rng):
    """a grammar whose patterns match no whitespace, no dot / skip-to, plus an input-layer configuration given
    partly as directives and partly as parse-time settings"""
    cfg = G.GenCfg(dots=0.0, skipto=0.0, consts=0.06, ws_patterns=False, left_context=False)
    g = G.gen_grammar(rng, cfg, depth=rng.choice([2, 3]))
    directives, settings = {}, E.Settings()

    def place(name, value, as_text=None):
        if rng.random() < 0.5:
            directives[name] = value if as_text is None else as_text
        else:
            setattr_settings(settings, name, value)

    ws = rng.choice(['default', 'default', 'default', r'[ \t]+', r'[ ]+', 'off'])
    if ws == 'off':
        if rng.random() < 0.5:
            directives['whitespace'] = None
        else:
            settings.whitespace = ''
    elif ws != 'default':
        if rng.random() < 0.5:
            directives['whitespace'] = ws
        else:
            settings.whitespace = ws
    r = rng.random()
    if r < 0.2:
        place('nameguard', False, 'False')
    elif r < 0.3:
        place('nameguard', True, 'True')
    if rng.random() < 0.2:
        directives['namechars'] = rng.choice(['-', '$', '_-'])
    icase = rng.random() < 0.25
    if icase:
        place('ignorecase', True, 'True')
    has_comments = rng.random() < 0.5
    if has_comments:
        if rng.random() < 0.5:
            directives['comments'] = COMMENTS
        else:
            settings_extra(settings)['comments'] = COMMENTS
    has_eol = rng.random() < 0.5
    if has_eol:
        if rng.random() < 0.5:
            directives['eol_comments'] = EOLC
        else:
            settings_extra(settings)['eol_comments'] = EOLC
    if rng.random() < (0.8 if icase else 0.3):
        # grammar tokens written in upper / mixed case (ignorecase compares both sides case-folded; without it they match exactly)
        from props.c02 import map_exp

        def up(e):
            if E.kind(e) == 'tok' and e[1].isalpha() and rng.random() < 0.6:
                return ('tok', rng.choice([e[1].upper(), e[1].capitalize(), e[1].swapcase()]))
            return e
        g['rules'] = [(n, d, map_exp(e, up)) for n, d, e in g['rules']]
    g['directives'] = directives
    g['_icase'] = icase
    return g, settings, ws, has_comments, has_eol


def setattr_settings(s, name, value):
    if hasattr(s, name):
        setattr(s, name, value)
    else:
        settings_extra(s)[name] = value


def settings_extra(s):
    return s.extra


def ws_run(rng, ws, has_comments, has_eol, at_end=False):
    chars = {'default': [' ', '\t', '\n', '\r\n', '  ', '\xa0', '\u2028', '\x0c', '\x1f', '\x85'], r'[ \t]+': [' ', '\t', '  '], r'[ ]+': [' ', '  ']}[ws]
    parts = [rng.choice(chars)]
    # comments back to back, with nothing between them and nothing before the next lexeme (every fourth run when comments are on)
    if has_comments and rng.random() < 0.25:
        return ''.join(parts + ['(* c *)'] * rng.randint(2, 3) + (['# e\n(* d *)'] if has_eol and ws == 'default' and rng.random() < 0.5 else []))
    for _ in range(rng.randint(0, 2)):
        r = rng.random()
        if has_comments and r < 0.3:
            parts.append('(* c *)')
        elif has_eol and r < 0.5 and ws == 'default':
            parts.append('# e\n')
        else:
            parts.append(rng.choice(chars))
    if has_eol and at_end and rng.random() < 0.3:
        parts.append('# tail')
    return ''.join(parts)


def relayout(rng, text, ws, has_comments, has_eol):
    wsre = {'default': r'\s+', r'[ \t]+': r'[ \t]+', r'[ ]+': r'[ ]+'}[ws]
    out = re.sub(wsre, lambda m: ws_run(rng, ws, has_comments, has_eol), text)
    if rng.random() < 0.5:
        out = ws_run(rng, ws, has_comments, has_eol) + out
    if rng.random() < 0.5:
        out = out + ws_run(rng, ws, has_comments, has_eol, at_end=True)
    return out


def ws_only_iteration_possible(g) -> bool:
    """some closure body can succeed having consumed nothing but whitespace: it is nullable as far as characters go, yet holds an
    element that skips whitespace (constant, rule call, void, end-of-text) - the closure's progress test then sees a moved position"""
    for _, _, e in g['rules']:
        for x in E.walk(e):
            if E.kind(x) == 'rep' and not G.surely_consumes(x[4]):
                if any(E.kind(y) in ('const', 'call', 'void', 'eof') for y in E.walk(x[4])):
                    return True
    return False


def shard(col, shard_i, ngrammars, ninputs):
    mr = ModelRun('Engine')
    rng = col.rng
    cases, metas = [], []
    for gi in range(ngrammars):
        g, settings, ws, hc, he = gen_cfg_grammar(rng)
        col.count('ws.' + ws)
        col.count('comments.' + str(hc) + '.eol.' + str(he))
        names = {n for n, _, _ in g['rules']}
        texts = []
        for _ in range(ninputs):
            lex = G.sample_sentence(rng, g, g['rules'][0][2])
            if rng.random() < 0.3 and lex:
                lex[rng.randrange(len(lex))] = rng.choice(['a', 'b', 'if', 'x', 'IF', 'Ab', 'a-b', 'if1'])
            if rng.random() < (0.7 if g.get('_icase') else 0.3) and lex:
                i = rng.randrange(len(lex))
                lex[i] = rng.choice([lex[i].upper(), lex[i].lower(), lex[i].swapcase(), lex[i].capitalize()])
            texts.append(G.join_lexemes(rng, lex, gaps=(' ', ' ', ' ', ''))[:40])
        if gi % 5 == 0:
            # a constant (string or not: `k`, `7`, `True`) between a token and something that does NOT skip whitespace itself
            cst = rng.choice(['k', '7', 'True', '42', 'hello'])
            nxt = rng.choice([('pat', r'[a-z]+'), ('pat', r'\d+'), ('call', 'Up'), ('call', '_Up')])
            tpl = {'rules': [('start', [], ('seq', [('tok', '='), ('named', False, 'cv', ('const', cst)), ('named', False, 'nx', nxt), 'eof'])),
                             ('Up', [], ('pat', r'[a-z0-9]+')), ('_Up', [], ('pat', r'[a-z0-9]+'))], 'directives': dict(g['directives']), 'keywords': []}
            for t in ['=abc', '= abc', '=  7', '=7', '=\tabc', '= \n x1', ' = abc ']:
                cases.append(R.Case(tpl, t, None, settings, tag='base'))
                metas.append(None)
            col.count('family.constant-then-no-skip')
        if gi % 5 == 1:
            # a join / gather whose ELEMENT does not skip whitespace itself (pattern, upper-case rule): none is skipped after a separator
            el = rng.choice([('pat', r'\d'), ('pat', r'[a-z]+'), ('call', 'Up'), ('call', '_Up')])
            sep = ('tok', rng.choice([',', ';']))
            rp = ('rep', rng.random() < 0.5, sep, rng.random() < 0.5, el)
            tpl = {'rules': [('start', [], ('seq', [rp, 'eof'])), ('Up', [], ('pat', r'[a-z0-9]')), ('_Up', [], ('pat', r'[a-z0-9]'))],
                   'directives': dict(g['directives']), 'keywords': []}
            sp = sep[1]
            for t in [f'1{sp}2', f'1{sp} 2', f'1 {sp}2', f'1 {sp} 2', f'a{sp}\tb{sp}c', f'a{sp}b{sp} c', '1', '', f' 1{sp}2 ', f'1{sp}\n2']:
                cases.append(R.Case(tpl, t, None, settings, tag='base'))
                metas.append(None)
            col.count('family.join-element-no-skip')
        # parses that START at an upper-case (token) rule: no whitespace is skipped at its entry, also when it is the start rule
        uppers = [n for n, _, _ in g['rules'] if n.lstrip('_')[:1].isupper()]
        if uppers and ws != 'off':
            un = rng.choice(uppers)
            for _ in range(3):
                lex = G.sample_sentence(rng, g, dict((n, e) for n, _, e in g['rules'])[un])
                t = rng.choice(['', ' ', '\n ', '  ']) + G.join_lexemes(rng, lex, gaps=(' ', ''))[:30]
                cases.append(R.Case(g, t, un, settings, tag='upper-start'))
                metas.append(None)
            col.count('start.upper-case-rule')
        for t in texts:
            base = R.Case(g, t, None, settings, tag='base')
            cases.append(base)
            metas.append(None)
            if ws != 'off' and re.search({'default': r'\s', r'[ \t]+': r'[ \t]', r'[ ]+': r' '}[ws], t or ' '):
                for _ in range(2):
                    t2 = relayout(rng, t, ws, hc, he)
                    cases.append(R.Case(g, t2, None, settings, tag='relaid'))
                    metas.append(len(cases) - 2 if metas[-1] is None else metas[-1])
    # fix metas: index of the base case for each relaid case
    base_idx = None
    for i, c in enumerate(cases):
        if c.tag in ('base', 'upper-start'):
            base_idx = i
            metas[i] = None
        else:
            metas[i] = base_idx
    results = []
    for off in range(0, len(cases), 400):
        results += R.run_cases(mr, cases[off:off + 400])
    for i, (c, io, mo, extra) in enumerate(results):
        fp = [E.grammar_text(c.g), c.text, c.settings.kwargs()]
        if mo is None:
            col.case(fp, nontrivial=False)
            col.count('uncompilable:' + str(io[0]))
            continue
        col.case(fp, nontrivial=bool(c.text.strip()))
        col.count('impl:' + io[0])
        if mo[0] != 'recursion' and io != mo:
            def bad(cc):
                rr = R.run_cases(mr, [cc])[0]
                return rr[2] is not None and rr[2][0] != 'recursion' and rr[1] != rr[2]
            small = R.shrink_case(c, bad, budget=150)
            rr = R.run_cases(mr, [small])[0]
            col.violation(f'E1input:{R.kinds_signature(small)}:{sorted(small.g["directives"])}:{sorted(small.settings.kwargs())}:impl={rr[1][0]}:model={rr[2][0] if rr[2] else None}',
                          'implementation and model disagree under an input-layer configuration',
                          {'correspondence': 'E1 x input configuration', 'case': small.describe(), 'impl': rr[1], 'model': rr[2]})
        if metas[i] is not None:
            b = results[metas[i]]
            if b[2] is not None and b[1][0] in ('ok', 'fail') and io[0] in ('ok', 'fail'):
                col.count('relayout.compared')
                if b[1] != io:
                    cause = ''
                    if b[1][0] == 'ok' and io[0] == 'ok' and ws_only_iteration_possible(c.g):
                        cause = ':closure-iteration-consumes-only-whitespace'
                    col.violation(f'oracle:relayout-changes-result:{b[1][0]}->{io[0]}{cause}',
                                  'replacing whitespace runs by other runs of whitespace/comments changed the result',
                                  {'oracle': 'whitespace invariance', 'case': b[0].describe(), 'relaid_text': c.text, 'result': b[1], 'relaid_result': io})
    if cases:
        col.sample(cases[len(cases) // 2].describe())


# ---- nameguard x namechars: the same tokens under different configurations, interleaved in one process ----------------
NG_TOKENS = ['a-b', 'end-if', 'x$', 'a_b', 'if', 'a', '$', '-', 'if-', '_a']


def shard_namechars(col, shard_i, n):
    mr = ModelRun('Engine')
    rng = col.rng
    cases = []
    for _ in range(n):
        toks = rng.sample(NG_TOKENS, rng.randint(1, 3))
        alts = [('seq', [('tok', t), ('named', False, 'rest', ('pat', r'[\w$-]*'))]) for t in toks]
        g = {'rules': [('start', [], ('seq', [('choice', alts), 'eof']))], 'directives': {}, 'keywords': []}
        # the same grammar body under several namechars / nameguard configurations, in random order (a stale answer kept from an
        # earlier configuration shows as a divergence)
        cfgs = []
        for _c in range(rng.randint(2, 4)):
            nc = rng.choice([None, '', '-', '$', '_-', '-$'])
            ng = rng.choice([None, None, True, False])
            cfgs.append((nc, ng, rng.random() < 0.5))
        texts = []
        for t in toks:
            for tail in ['', 'x', '-', '$', '_', '1', ' x', '-x', '$x', '\u00b2', '\u2460', '\u2167', '\u00bd', '\u00e9', '\u0663', '\u3007']:
                texts.append(t + tail)
        rng.shuffle(texts)
        for (nc, ng, as_directive) in cfgs:
            g2 = dict(g)
            g2['directives'] = {}
            st = E.Settings()
            if nc is not None:
                if as_directive and nc:
                    g2['directives']['namechars'] = nc
                else:
                    settings_extra(st)['namechars'] = nc
            if ng is not None:
                if as_directive:
                    g2['directives']['nameguard'] = str(ng)
                else:
                    st.nameguard = ng
            col.count(f'namechars.{nc!r}.nameguard.{ng}')
            for t in texts[:12]:
                cases.append(R.Case(g2, t, None, st, tag='namechars'))
    R.differential(col, mr, cases, 'E1input:namechars')


# ---- K1: Config layering, real ParserConfig / Grammar vs Config.v -----------------------------------------
FIELDS = ['nameguard', 'ignorecase', 'parseinfo', 'left_recursion', 'namechars', 'comments', 'memoization', 'eol_comments', 'whitespace']
# falsy values that are NOT erasers ('' and False) next to the erasing None
VALUES = {'nameguard': [None, True, False], 'ignorecase': [None, True, False], 'parseinfo': [None, True, False],
          'left_recursion': [None, True, False], 'namechars': [None, '-', '$', ''], 'comments': [None, 'C1', 'C2', ''],
          'memoization': [None, True], 'eol_comments': [None, 'C1', 'C2', ''], 'whitespace': [None, 'C1', '', '']}
CODES = {True: 1, False: 2, '-': 3, '$': 4, 'C1': 5, 'C2': 6, '': 7}


def enc(v):
    from tatsu.util.undefined import Undefined
    return None if v is None or v is Undefined else CODES[v]


def enc_known(v):
    from tatsu.util.undefined import Undefined
    return v is Undefined or (isinstance(v, (bool, str)) and v in CODES)


def pt_named(pt):
    return pt


def shard_layer(col, shard_i, n):
    import tatsu
    from tatsu import peg
    from tatsu.config import ParserConfig
    mr = ModelRun('Engine')
    rng = col.rng
    m0 = tatsu.compile("start = 'a' ;")
    rules = m0.rules
    defaults = ParserConfig()
    reqs, want = [], []
    for _ in range(n):
        def pick(p=0.5, allow_none=True):
            d = {}
            for f in FIELDS:
                if rng.random() < p:
                    v = rng.choice(VALUES[f])
                    if v is None and not allow_none:
                        continue
                    d[f] = v
            return d
        ct, dr, pt = pick(0.4), pick(0.4, allow_none=False), pick(0.4)   # a directive always carries a value
        # the parse-time layer reaches the model as keyword settings, as a ParserConfig object, or as both (a keyword wins over the object)
        channel = rng.choice(['kw', 'kw', 'obj', 'both'])
        try:
            gm = peg.Grammar('T', rules, directives=dict(dr), **ct)
            pt_obj = {}
            if channel == 'kw':
                cfg = gm.new_parse_config(**pt)
            elif channel == 'obj':
                pt_obj = dict(pt)
                cfg = gm.new_parse_config(config=ParserConfig(**pt))
            else:
                pt_obj = {f: v for f, v in pt.items() if rng.random() < 0.6}
                pt_kw = pick(0.3)
                cfg = gm.new_parse_config(config=ParserConfig(**pt_obj), **pt_kw)
                pt = {f: (pt_kw[f] if pt_kw.get(f) is not None else pt_obj.get(f)) for f in set(pt_obj) | set(pt_kw)}
        except Exception as e:  # noqa
            col.count('layer.raises:' + type(e).__name__)
            continue
        col.count('layer.channel.' + channel)
        impl = {f: getattr(cfg, f) for f in FIELDS}
        # documented interactions applied by ParserConfig.__post_init__ (not part of the layering itself)
        def fields(d):
            return '(' + ' '.join(f'({sx(f)} {"none" if enc(d[f]) is None else "(some %d)" % enc(d[f])})' for f in d) + ')'
        dflt = {f: getattr(defaults, f) for f in FIELDS}
        reqs.append(f'(layer {fields(dflt)} {fields(ct)} {fields(dr)} {fields(pt)})')
        want.append((ct, dr, pt, impl, channel, pt_obj))
    replies = mr.ask(reqs)
    for (ct, dr, pt, impl, channel, pt_obj), rep in zip(want, replies):
        model = {}
        for k, v in rep:
            name = vlib.sx_str(k)
            model[name] = None if v == 'none' else int(v[1])
        col.case(['layer', str(ct), str(dr), str(pt)], nontrivial=bool(ct or dr or pt))
        col.count('layer.cases')
        for f in FIELDS:
            if channel != 'kw' and pt.get(f) is None:
                # a ParserConfig OBJECT is complete: the fields nobody named hold the class defaults (False, True, ...), and whether those
                # count as 'given at parse time' is not documented - only the fields the caller did name are compared on this channel
                continue
            iv = enc(impl[f]) if impl[f] is None or enc_known(impl[f]) else -1
            mv = model.get(f)
            # __post_init__ couplings: memoization off forces left_recursion off; namechars forces nameguard on
            if f == 'left_recursion' and not impl['memoization']:
                continue
            if f == 'left_recursion' and channel != 'kw' and 'memoization' in pt_obj and not pt_obj.get('memoization'):
                continue      # ParserConfig(memoization=None/False) switches its OWN left_recursion off when the object is built
            if f == 'nameguard' and (impl['namechars'] or any(d.get('namechars') for d in (ct, dr, pt))):
                continue      # the coupling is applied by every layer's __post_init__, so it sticks once any layer names namechars
            if iv != mv:
                col.violation(f'K1:layering:{f}', f'effective {f} differs from first-defined-wins layering',
                              {'correspondence': 'K1 Config.v vs ParserConfig', 'compile_time': str(ct), 'directives': str(dr),
                               'parse_time': str(pt), 'field': f, 'impl': str(impl[f]), 'model': mv})


def layering_api(col):
    """The public entry points: settings given to tatsu.compile, directives, parse-time settings - read back through
    observable behaviour."""
    import tatsu

    def accepts(fn):
        try:
            fn()
            return True
        except tatsu.exceptions.ParseException:
            return False
    g = "start = 'if' 'x' ;"
    probes = {
        # name: (compile-time kwargs, text accepted only when the setting is in effect)
        'nameguard': ({'nameguard': False}, 'ifx'),
        'ignorecase': ({'ignorecase': True}, 'IF X'),
        'comments': ({'comments': COMMENTS}, 'if (* c *) x'),
        'eol_comments': ({'eol_comments': EOLC}, 'if # c\n x'),
    }
    for name, (kw, text) in probes.items():
        col.case(['api-layer', name], nontrivial=True)
        base = accepts(lambda: tatsu.compile(g).parse(text))
        at_parse = accepts(lambda: tatsu.compile(g).parse(text, **kw))
        at_compile = accepts(lambda: tatsu.compile(g, **kw).parse(text))
        via_parse_api = accepts(lambda: tatsu.parse(g, text, **kw))
        if base or not at_parse or not via_parse_api:
            col.violation(f'api:parse-time-setting:{name}', f'parse-time setting {name} is not honoured',
                          {'oracle': 'layering through the API', 'setting': name, 'base': base, 'parse_time': at_parse, 'tatsu.parse': via_parse_api})
        if not at_compile:
            col.violation(f'api:compile-time-setting-ignored:{name}',
                          f'tatsu.compile(grammar, {name}=...) has no effect on the compiled model',
                          {'oracle': 'layering through the API', 'setting': name, 'call': f'tatsu.compile(g, **{kw}).parse({text!r})'})
    # an explicit parse-time '' is a setting like any other: it beats the directive (it is not an "erasing" value)
    offs = {
        'comments': ("@@comments :: /\\(\\*.*?\\*\\)/\nstart = 'if' 'x' ;", 'if (* c *) x', {'comments': ''}),
        'eol_comments': ("@@eol_comments :: /#[^\\n]*/\nstart = 'if' 'x' ;", 'if # c\n x', {'eol_comments': ''}),
        'whitespace': ("@@whitespace :: /[ ]+/\nstart = 'if' 'x' ;", 'if x', {'whitespace': ''}),
        'namechars': ("@@namechars :: '-'\n@@nameguard :: True\nstart = 'if' /-x/ ;", 'if-x', {'namechars': ''}),
    }
    for name, (gd, text, kw) in offs.items():
        col.case(['api-layer-off', name], nontrivial=True)
        with_directive = accepts(lambda: tatsu.compile(gd).parse(text))
        switched_off = accepts(lambda: tatsu.compile(gd).parse(text, **kw))
        expect = (True, False) if name != 'namechars' else (False, True)
        if (with_directive, switched_off) != expect:
            col.violation(f'api:empty-setting-does-not-override-directive:{name}',
                          f"parse-time {name}='' does not override the @@{name} directive",
                          {'oracle': 'layering through the API', 'grammar': gd, 'text': text, 'setting': kw,
                           'accepted_with_directive': with_directive, 'accepted_with_empty_setting': switched_off, 'expected': expect})
    # documented placement / settings, probed directly (constructs outside the generator's IR)
    import re as _re
    probes = [
        # (name, grammar, parse kwargs, text, expected acceptance)
        ('based-rule-lowercase-skips', "start = '=' ext $ ;\nNum = /\\d+/ ;\next < Num = /x/ ;", {}, '= 12x', True),
        ('based-rule-lowercase-skips', "start = '=' ext $ ;\nNum = /\\d+/ ;\next < Num = /x/ ;", {}, '=12x', True),
        ('based-rule-uppercase-no-skip', "start = '=' Ext $ ;\nnum = /\\d+/ ;\nExt < num = /x/ ;", {}, '= 12x', False),
        ('compiled-comments-keep-flags', "start = 'a' 'b' $ ;", {'comments': _re.compile(r'/\*.*?\*/', _re.DOTALL)}, 'a /* x\n y */ b', True),
        ('compiled-eol-comments-keep-flags', "start = 'a' 'b' $ ;", {'eol_comments': _re.compile(r'rem[^\n]*', _re.IGNORECASE)}, 'a REM x\n b', True),
        ('compiled-whitespace-keeps-flags', "start = 'a' 'b' $ ;", {'whitespace': _re.compile(r' [ \t]+ ', _re.VERBOSE)}, 'a \t b', True),
        ('string-eol-comments-case-sensitive', "start = 'a' 'b' $ ;", {'eol_comments': r'rem[^\n]*'}, 'a REM x\n b', False),
        ('void-skips-whitespace', "start = 'a' () /b/ $ ;", {}, 'a b', True),
        ('pattern-does-not-skip', "start = 'a' /b/ $ ;", {}, 'a b', False),
        ('eof-skips-whitespace', "start = 'a' $ ;", {}, 'a \n ', True),
        # skip-to: what is skipped over on the way includes comments - a target that could match INSIDE a comment is not found there
        ('skipto-pattern-not-inside-adjacent-comment', "@@comments :: /\\(\\*.*?\\*\\)/\nstart = 'let' ->/=\\w/ $ ;", {}, 'let(* =y *) =x', True),
        ('skipto-pattern-value-after-adjacent-comment', "@@comments :: /\\(\\*.*?\\*\\)/\nstart = 'let' ->/=\\w/ 'y' $ ;", {}, 'let(* =y *) =x', False),
        ('skipto-token-rule-not-inside-comment', "@@comments :: /\\(\\*.*?\\*\\)/\nstart = 'let' ->EQ $ ;\nEQ = /=\\w/ ;", {}, 'let(* =y *)=x', True),
        ('skipto-token-rule-not-inside-comment-2', "@@comments :: /\\(\\*.*?\\*\\)/\nstart = 'let' ->EQ 'y' $ ;\nEQ = /=\\w/ ;", {}, 'let(* =y *) =x', False),
        ('skipto-eol-comment', "@@eol_comments :: /#[^\\n]*/\nstart = 'let' ->/=\\w/ 'y' $ ;", {}, 'let# =y\n =x', False),
        # rule names that begin with a letter without case (or hold no letter at all) are NOT upper-case: whitespace is skipped at their entry
        ('uncased-rule-name-skips', "start = 'q' \u6570 $ ;\n\u6570 = /a/ ;", {}, 'q a', True),
        ('underscore-rule-name-skips', "start = 'q' _ $ ;\n_ = /a/ ;", {}, 'q a', True),
        ('hebrew-rule-name-skips', "start = 'q' \u05e4 $ ;\n\u05e4 = /a/ ;", {}, 'q a', True),
        ('titlecase-rule-name-skips', "start = 'q' \u01c5z $ ;\n\u01c5z = /a/ ;", {}, 'q a', True),
    ]
    for name, gp, kw, text, want in probes:
        col.case(['api-probe', name, text], nontrivial=True)
        try:
            got = accepts(lambda: tatsu.compile(gp).parse(text, **kw))
        except Exception as e:  # noqa
            got = f'raises {type(e).__name__}'
        # the generated parser places whitespace skipping exactly like the model
        try:
            nsg: dict = {}
            exec(tatsu.to_python_sourcecode(gp, name='W'), nsg)
            got_gen = accepts(lambda: nsg['WParser']().parse(text, **kw))
        except Exception as e:  # noqa
            got_gen = f'raises {type(e).__name__}'
        if got_gen != got and not isinstance(got, str):
            col.violation(f'api:probe-generated:{name}', f'documented whitespace / settings behaviour: {name}: the generated parser accepts={got_gen}, the model accepts={got}',
                          {'oracle': 'documented placement and settings (probe, generated parser)', 'grammar': gp, 'settings': {k: repr(v) for k, v in kw.items()},
                           'text': text, 'model.parse': got, 'generated': got_gen})
        if got != want:
            col.violation(f'api:probe:{name}', f'documented whitespace / settings behaviour: {name}: accepted={got}, expected {want}',
                          {'oracle': 'documented placement and settings (probe)', 'grammar': gp, 'settings': {k: repr(v) for k, v in kw.items()},
                           'text': text, 'accepted': got, 'expected': want})
    # directives must survive tatsu.parse (defaults of a complete config must not override them)
    for d, probe in {'parseinfo': lambda r: getattr(r, 'parseinfo', None) is not None}.items():
        gd = f"@@{d} :: True\nstart = a:'x' ;"
        r1 = tatsu.compile(gd).parse('x')
        r2 = tatsu.parse(gd, 'x')
        col.case(['api-directive', d], nontrivial=True)
        if probe(r1) != probe(r2) or not probe(r1):
            col.violation(f'api:directive-lost-through-tatsu.parse:{d}', f'directive {d} is lost through tatsu.parse',
                          {'oracle': 'directives vs one-call API', 'directive': d, 'compile.parse': probe(r1), 'tatsu.parse': probe(r2)})
    gd = "@@left_recursion :: False\nstart = start 'x' | 'x' ;"
    for label, fn in {'compile': lambda: tatsu.compile(gd), 'tatsu.parse': lambda: tatsu.parse(gd, 'x x')}.items():
        col.case(['api-directive', 'left_recursion', label], nontrivial=True)
        try:
            fn()
            col.violation(f'api:directive-lost:left_recursion:{label}', 'left_recursion :: False directive not honoured',
                          {'oracle': 'directives', 'entry': label})
        except tatsu.exceptions.GrammarError:
            pass
        except Exception as e:  # noqa
            col.violation(f'api:directive-left_recursion:{label}:{type(e).__name__}', 'unexpected exception', {'entry': label, 'exc': repr(e)})


def shard_api(col, shard_i):
    layering_api(col)


def main():
    chk = Check(PID)
    chk.rule = ('E1input: random grammars whose patterns match no whitespace (no dot / skip-to) x sentences x an input-layer configuration '
                '(whitespace default / regex / off, nameguard, namechars, ignorecase, comments, eol comments - each given as a directive or as a '
                'parse-time setting); relayout: every whitespace run of the input replaced by a random non-empty run of whitespace and comments, '
                'plus leading and trailing runs, results compared on the implementation; K1: random (compile-time, directives, parse-time) setting '
                'triples for 7 fields, real Grammar/ParserConfig vs Config.v; API: settings read back through behaviour.')
    chk.trusted += ['oracles per case from the real Python (re for whitespace/comment/pattern regexes, unicode predicates, resolved ParserConfig)',
                    'the whitespace-invariance statement itself is decided on the implementation (metamorphic oracle); the theorems cover '
                    'idempotence of skipping, its placement, nameguard, and the layering arithmetic']
    chk.coq()
    ok, out = vlib.build_modelrun('Engine')
    chk.obligation('modelrun_Engine builds', 'build', ok, out[-500:])
    if ok:
        if chk.quick:
            vlib.run_sharded(chk, shard, 14, extra=(16, 8))
            vlib.run_sharded(chk, shard_layer, 4, extra=(150,))
            vlib.run_sharded(chk, shard_namechars, 7, extra=(12,))
        else:
            vlib.run_sharded(chk, shard, 28, extra=(50, 10))
            vlib.run_sharded(chk, shard_layer, 14, extra=(1500,))
            vlib.run_sharded(chk, shard_namechars, 14, extra=(150,))
        vlib.run_sharded(chk, shard_api, 1, procs=1)
        from props.c02 import shard_history
        vlib.run_sharded(chk, shard_history, 7, extra=((8,) if chk.quick else (80,)))
        chk.obligation('a reused generated parser forgets the settings of an earlier (failed) call', 'oracle',
                       not any(v['signature'].startswith('history:') for v in chk.violations))
        chk.obligation('E1 x input configuration: implementation vs model', 'correspondence',
                       not any(v['signature'].startswith('E1input') for v in chk.violations))
        chk.obligation('K1: configuration layering, Grammar/ParserConfig vs Config.v', 'correspondence',
                       not any(v['signature'].startswith('K1') for v in chk.violations))
        chk.obligation('whitespace invariance under relayout; layering through the API (implementation only)', 'oracle',
                       not any(v['signature'].startswith(('oracle:', 'api:')) for v in chk.violations))
    return chk.finish()


if __name__ == '__main__':
    sys.exit(main())
