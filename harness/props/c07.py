"""C07 - object models mirror the AST with typed, navigable nodes.

(a) Coq: Properties/C07.v (children complete, walkers cover, model mirrors AST, attrs are names, registry).
(b) ties: T1 constants; N1 generated node trees (real Node subclasses / synthesized classes) vs ObjModel.v:
    __pub__ names, children, parents, DFS/BFS/post-order visit orders; N2 the same on real parses;
    R1 class synthesis histories vs the registry model; B1 derivations (tracing semantics) vs build/plain/erase.
    D1 walker class declaration / lookup histories vs run_walkers (search order, per-class cache, __init_subclass__).
(c) oracle on the implementation: generated annotated grammars x inputs, model parse vs plain parse;
    W1 walker declaration / use histories: the handler of every node is the nearest walk_ method of the walker class,
    whatever was declared or walked before; traversal orders, post-order children argument, walk() results;
    catch-all probe (walk_Node + walk_object of docs/models.rst).
    H1 forest grammars: the classes of all rules form one declared forest (a rule's class as the base of another rule's
    class, rule-less classes shared by several chains, chains that stop at a class whose base another rule declares,
    two rules building one class, shuffled rule order): the classes of the generated model module have exactly the
    declared ancestors (static, no parse), and the O1 / N2 / B1 / W1 / D1 checks run on these grammars too.
    C1 concurrent first use: threads (own parsers / one parser, own or shared semantics objects, direct builder calls)
    meet never-synthesized type names at the same moment, the interleaving driven through an __init_subclass__ hook of
    the node base type: one class per name, the registered one, in every thread's tree.
    K1 type containers: histories of compile() / parse() calls over generations of the generated model module (new
    module object under the same name, reloaded file; typedefs, mapping, constructors, builderconfig, semantics): the
    nodes of every call are instances of the classes given to THAT call; the classes of a generation reach the call
    through ONE container or split over several (mappings, namespace classes, module + overlapping mapping,
    constructors= + typedefs=), in any order.
    L1 lexical-type grammars (second grammar skeleton): several token rules typed int / float / bool / str / a class,
    class-typed wrapper rules without names over several of them (one class holds 1, 1.0, True ... many times in a
    process), class names that are case variants of one another (Num / NUM / NuM, IdList / IDList / IDLIST) on any two
    or three classes; all the O1 / N2 / B1 / W1 / D1 / K1 checks run on them.
    U1 hand-written model classes: small grammars whose classes are written by hand in a module of their own (class
    attributes, tatsu dataclasses, fields declared by a declared base) under names that other namespaces hold too
    (builtin exceptions / types / functions, globals of the synth and builder modules, names synthesized earlier in the
    process), some classes left to synthesis below declared ones, next to a builtin-typed token rule, through every
    container and entry point: every typed reduction is an instance of the class OBJECT declared under that name.
"""
from __future__ import annotations

import atexit
import builtins
import copy
import dataclasses
import importlib
import itertools
import json
import os
import random
import re
import shutil
import sys
import threading
import time
import types
import weakref
from collections.abc import Iterable, Mapping
from pathlib import Path
from typing import Any

sys.path.insert(0, str(Path(__file__).resolve().parent.parent))
import vlib
from vlib import Check, ModelRun, sx

PID = 'C07'

import tatsu  # noqa: E402
from tatsu.objectmodel import BaseNode, ModelBuilderSemantics, Node, synthesize, tatsudataclass  # noqa: E402
from tatsu.util.asjson import AsJSONMixin  # noqa: E402
from tatsu.util.strtools import mangle  # noqa: E402
from tatsu.walkers import BreadthFirstWalker, DepthFirstWalker, NodeWalker, PostOrderDepthFirstWalker  # noqa: E402

_seq = itertools.count()
RUN = f'V7{abs(hash(str(Path(__file__)))) % 97}'   # prefix of every class name this check declares


# ------------------------------------------------------------------ canonicaliser: Python object -> model value
class Canon:
    """Translates an object graph into the S-expression of ObjModel.value (same case order as
    Node._cached_children.dfs: Node, Mapping, bytes|str, Iterable, other)."""

    def __init__(self):
        self.ids: dict[int, int] = {}
        self.objs: dict[int, Any] = {}
        self.floats: list = []
        self.opaque: list = []
        self.order: dict[tuple, tuple] = {}
        self.order_conflict = False
        self.unsupported = None

    def nid(self, o) -> int:
        k = id(o)
        if k not in self.ids:
            self.ids[k] = len(self.ids) + 1
            self.objs[self.ids[k]] = o
        return self.ids[k]

    def value(self, o, depth=0) -> str:
        if depth > 60:
            self.unsupported = 'too deep'
            return 'none'
        if o is None:
            return 'none'
        if isinstance(o, Node):
            return self.node(o, depth)
        if isinstance(o, bool):
            return f'(a 1 {int(o)})'
        if isinstance(o, int):
            return f'(a 0 {o})'
        if isinstance(o, float):
            if o not in self.floats:
                self.floats.append(o)
            return f'(a 2 {self.floats.index(o)})'
        if isinstance(o, Mapping):
            items = []
            for k, v in o.items():
                if not isinstance(k, str):
                    self.unsupported = 'non-str key'
                    continue
                items.append(f'({sx(k)} {self.value(v, depth + 1)})')
            return '(d ' + ' '.join(items) + ')' if items else '(d)'
        if isinstance(o, (bytes, str)):
            s = o if isinstance(o, str) else o.decode('latin-1')
            return '(s ' + ' '.join(str(ord(c)) for c in s) + ')' if s else '(s)'
        if isinstance(o, Iterable):
            items = [self.value(x, depth + 1) for x in o]
            return '(l ' + ' '.join(items) + ')' if items else '(l)'
        for i, x in enumerate(self.opaque):
            if x is o:
                return f'(a 3 {i})'
        self.opaque.append(o)
        return f'(a 3 {len(self.opaque) - 1})'

    def node(self, n: Node, depth) -> str:
        i = self.nid(n)
        d = vars(n)
        fields = [f.name for f in dataclasses.fields(n)]
        attrs = [(k, v) for k, v in d.items() if k != 'ast']
        # the set-order oracle for this node: exactly the expression of BaseNode.__pub__
        pub0 = AsJSONMixin.__pub__(n)
        wanted = list(pub0.keys() - BaseNode._basenode_keys())
        key = tuple(['ast'] + [k for k, _ in attrs if not k.startswith('_')])
        if list(pub0.keys()) != list(key):
            # vars() does not start with ast or holds non-public values: outside the model's reading of __pub__
            self.unsupported = f'pub0 keys {list(pub0.keys())} vs {list(key)}'
        if self.order.setdefault(key, tuple(wanted)) != tuple(wanted):
            self.order_conflict = True
        body = []
        for k, v in attrs:
            if isinstance(v, weakref.ReferenceType):
                body.append(f'({sx(k)} (a 3 0))')
            else:
                body.append(f'({sx(k)} {self.value(v, depth + 1)})')
        return (f'(n {i} {sx(type(n).__name__)} ({" ".join(sx(f) for f in fields)}) '
                f'{self.value(d.get("ast"), depth + 1)} ({" ".join(body)}))')

    def table(self) -> str:
        return '(' + ' '.join(f'(({" ".join(sx(k) for k in key)}) ({" ".join(sx(k) for k in val)}))'
                              for key, val in self.order.items()) + ')'


def ints(x):
    return [] if x == 'nil' else [int(i) for i in x]


def names(x):
    return [] if x == 'nil' else [vlib.sx_str(s) if s != [] else '' for s in x]


# ------------------------------------------------------------------ walkers on the implementation
def make_walker(base):
    class W(base):
        def __init__(self):
            super().__init__()
            self.seen = []

        def walk_Node(self, node, *args, **kwargs):
            self.seen.append(node)
            return node

        def walk_BaseNode(self, node, *args, **kwargs):
            self.seen.append(node)
            return node
    return W


WALKERS = {'dfs': make_walker(DepthFirstWalker), 'post': make_walker(PostOrderDepthFirstWalker),
           'bfs': make_walker(BreadthFirstWalker)}


def real_walk(kind, root):
    w = WALKERS[kind]()
    w.walk(root)
    return w.seen


def brute_nodes(v, out, cross=False):
    """nodes found in v through lists / tuples / mappings without crossing a node (or, with cross, all)."""
    if isinstance(v, Node):
        out.append(v)
        if cross:
            for k, x in vars(v).items():
                if k.startswith('_') or x is None:
                    continue
                brute_nodes(x, out, cross)
        return
    if isinstance(v, Mapping):
        for k, x in v.items():
            if isinstance(k, str) and k.startswith('_'):
                continue
            if x is None:
                continue
            brute_nodes(x, out, cross)
    elif isinstance(v, (str, bytes)):
        return
    elif isinstance(v, (list, tuple, set, frozenset)):
        for x in v:
            brute_nodes(x, out, cross)


def uniq(nodes):
    seen, out = set(), []
    for n in nodes:
        if id(n) not in seen:
            seen.add(id(n))
            out.append(n)
    return out


# ------------------------------------------------------------------ N1/N2: a node tree against the model
def tie_tree(chk: Check, root: Node, label: str, batch: list):
    """Runs the real walkers/children on `root` and queues the model request; comparison in flush_ties."""
    dfs = real_walk('dfs', root)           # first: children() of every node runs here, in DFS order
    post = real_walk('post', root)
    bfs = real_walk('bfs', root)
    c = Canon()
    sexp = c.value(root)
    if c.unsupported or c.order_conflict:
        chk.count('tie.skipped-unsupported')
        return
    nodes = uniq(dfs)
    real = {
        'dfs': [c.nid(n) for n in dfs], 'post': [c.nid(n) for n in post], 'bfs': [c.nid(n) for n in bfs],
        'children': {c.nid(n): [c.nid(x) for x in n.children()] for n in nodes},
        'pub': {c.nid(n): list(n.__pub__().keys()) for n in nodes},
        'parent': {c.nid(n): (c.nid(n.parent) if n.parent is not None else None) for n in nodes},
    }
    batch.append((label, f'(tree {sexp} {c.table()})', real, sexp))


def flush_ties(chk: Check, mr: ModelRun, batch: list, name: str):
    bad = 0
    replies = mr.ask([b[1] for b in batch]) if batch else []
    for (label, req, real, sexp), rep in zip(batch, replies):
        chk.case('tie:' + sexp, nontrivial=len(real['dfs']) > 1)
        chk.count(f'{name}.trees')
        if isinstance(rep, list) and rep and rep[0] == 'error':
            bad += 1
            chk.violation(f'corr:{name}:model-error', f'model error {rep} on {label}', {'request': req[:3000]})
            continue
        wf, allin, d, p, b, per, parents = rep
        model = {'dfs': ints(d), 'post': ints(p), 'bfs': ints(b),
                 'children': {int(e[0]): ints(e[1]) for e in (per if per != 'nil' else [])},
                 'pub': {int(e[0]): names(e[2]) for e in (per if per != 'nil' else [])},
                 'parent': {int(e[0]): (None if e[1] == 'none' else int(e[1][1])) for e in (parents if parents != 'nil' else [])}}
        if wf != '1':
            chk.count(f'{name}.not-wf')
            continue
        diffs = [k for k in ('dfs', 'post', 'bfs', 'children', 'pub', 'parent') if model[k] != real[k]]
        if sorted(ints(allin)) != sorted(set(real['dfs'])):
            diffs.append('allin')
        if diffs:
            bad += 1
            chk.violation(f'corr:{name}:' + '+'.join(diffs), f'node tree differs from ObjModel.v in {diffs} ({label})',
                          {'correspondence': name, 'tree': sexp[:4000], 'impl': {k: real[k] for k in diffs if k in real},
                           'model': {k: model[k] for k in diffs if k in model}})
    chk.obligation(f'{name}: __pub__/children/parents/walker orders vs ObjModel.v', 'correspondence', bad == 0)
    if batch:
        chk.sample({name: batch[0][3][:300], 'dfs': batch[0][2]['dfs'], 'bfs': batch[0][2]['bfs']})


@tatsudataclass
class V7D1(Node):
    b: Any = None
    a: Any = None
    _p: Any = None


@tatsudataclass
class V7D2(V7D1):
    zed: Any = None
    c: Any = None


@tatsudataclass
class V7D0(Node):
    pass


ATTR_POOL = ['a', 'b', 'left', 'rest', '_hid', 'zed', 'k1', 'dump', 'ctx', 'items_', 'c', 'clone']
DICT_KEYS = ['k', '_h', 'x y', 'ast', 'items', 'n']


def gen_value(rng, depth, mk):
    r = rng.random()
    if depth <= 0 or r < 0.25:
        return rng.choice([None, 'str', '', 'x', 7, 0, True, 2.5, b'by'])
    if r < 0.5:
        return mk(depth - 1)
    if r < 0.7:
        return [gen_value(rng, depth - 1, mk) for _ in range(rng.randint(0, 3))]
    if r < 0.8:
        return tuple(gen_value(rng, depth - 1, mk) for _ in range(rng.randint(0, 3)))
    ks = rng.sample(DICT_KEYS, rng.randint(0, 3))
    return {k: gen_value(rng, depth - 1, mk) for k in ks}


def gen_tree(rng, depth, synth):
    def mk(d):
        kind = rng.random()
        if kind < 0.45:
            cls = rng.choice(synth)
            if rng.random() < 0.75:
                ks = rng.sample(ATTR_POOL, rng.randint(1, 4))
                return cls(ast={k: gen_value(rng, d, mk) for k in ks})
            return cls(ast=gen_value(rng, d, mk))
        if kind < 0.8:
            cls = rng.choice([V7D1, V7D2, V7D0])
            fields = [f.name for f in dataclasses.fields(cls) if f.name not in ('ast', 'ctx', 'parseinfo', '_parent_ref')]
            if fields and rng.random() < 0.5:
                ks = rng.sample(fields, rng.randint(0, len(fields)))
                n = cls(**{k: gen_value(rng, d, mk) for k in ks})
            elif rng.random() < 0.7:
                ks = rng.sample(fields + ['undeclared'], rng.randint(0, len(fields) + 1))
                n = cls(ast={k: gen_value(rng, d, mk) for k in ks})
            else:
                n = cls(ast=gen_value(rng, d, mk))
            if fields and rng.random() < 0.3:       # vars() order != field order
                k = rng.choice(fields)
                v = getattr(n, k)
                delattr(n, k)
                setattr(n, k, v)
            if rng.random() < 0.2:                  # an attribute that is not a field
                setattr(n, rng.choice(['extra', 'a0', '_x']), gen_value(rng, d, mk))
            return n
        return Node(ast=gen_value(rng, d, mk))
    return mk(depth)


def run_tree_tie(chk: Check, mr: ModelRun):
    rng = chk.rng
    synth = [synthesize(f'{RUN}S{i}', (Node,)) for i in range(3)]
    synth.append(synthesize(f'{RUN}S3', (synth[0],)))
    batch = []
    n = 400 if chk.quick else 4000
    for _ in range(n):
        root = gen_tree(rng, rng.randint(1, 4), synth)
        tie_tree(chk, root, 'generated tree', batch)
    flush_ties(chk, mr, batch, 'N1')


# ------------------------------------------------------------------ generated grammars
SAFE_ATTRS = ['x', 'left', 'right', 'val', 'body', 'args', 'name', 'e1', 'kids', 'tail']
RISKY_ATTRS = {
    'dict-member': ['items', 'keys', 'values', 'get', 'update', 'pop', 'copy'],
    'name-ast': ['ast'],
    'node-property': ['parent', 'text', 'line', 'path'],
    'basenode-member': ['ctx', 'dump', 'clone', 'asjson', 'dumps', 'parseinfo'],
    'node-method': ['children'],
    'private': ['_x'],
    'python-keyword': ['class', 'def'],
}
RISKY_CLASSES = {'synth-module-global': ['Any', 'types', 'annotations', 'synthesize'],
                 'synth-module-class': ['BaseNode', 'SynthNode']}
RISKY_SHAPES = ['typed-rule-over-untyped-named-ast', 'nameless-rule-class-below-class-with-fields']
FIXED_SENTENCES = ['(1,a)', '((1,2),[a (b,3)])', '-(1,2)', '[(a,b) -c]', '(-a,(b,c)) 7']
BUILTINS = ['int', 'float', 'str', 'bool']
HIER_EXTRA = ['B1', 'B2', 'Root', 'Mid']


class GrammarCase:
    """One generated grammar: rules over the alphabet ( ) [ ] < > { } - digits letters."""

    def __init__(self, rng, idx, risky=None, forest=False):
        self.rng = rng
        self.idx = idx
        self.risky = risky            # None | ('attr', class, name) | ('class', class, name)
        self.forest = forest and not risky   # the classes of all rules form ONE declared forest (see plan_forest)
        self.tag = f'{RUN}G{idx}x'
        self.used_attrs: list[str] = []
        self.plan: dict = {}
        self.stop_at_base: set = set()
        self.whole_chain: set = set()
        self.build()
        self.read_declarations()

    def cname(self, base):
        return f'{self.tag}{base}'

    def attr(self):
        pool = [a for a in SAFE_ATTRS if a not in self.used_attrs]
        a = self.rng.choice(pool)
        self.used_attrs.append(a)
        return a

    def plan_forest(self, rule_classes, named):
        """One declared class forest over the classes of the typed rules and a few classes that no rule builds
        (B1 B2 Root Mid): any class may derive from any other (a rule's class from another rule's class, from a
        rule-less class, a rule-less class from a rule's class ...).  A rule without named elements keeps its value
        in .ast, so its class never derives from a class that has dataclass fields (see notes: observation)."""
        rng = self.rng
        order = list(rule_classes) + HIER_EXTRA
        rng.shuffle(order)
        parent: dict = {}
        fields: dict = {}
        depth: dict = {}
        for i, c in enumerate(order):
            cands = [p for p in order[:i] if depth[p] < 3]
            if c in rule_classes and c not in named:
                cands = [p for p in cands if not fields[p]]
            # (candidates that have a base themselves and classes that no rule builds count twice: chains of three and
            # four classes and shared rule-less bases are wanted)
            cands = cands + [p for p in cands if parent[p]] + [p for p in cands if p in HIER_EXTRA]
            p = rng.choice(cands) if cands and rng.random() < 0.85 else None
            parent[c] = p
            depth[c] = 0 if p is None else depth[p] + 1
            fields[c] = c in named or (p is not None and fields[p])
        # a rule-less class with a base is interesting when several rules derive from it (shared base): adopt a
        # free rule class (no base, no derived class) where only one rule does
        for m in HIER_EXTRA:
            kids = [c for c in rule_classes if parent[c] == m]
            if parent[m] and len(kids) == 1 and depth[m] < 3:
                free = [c for c in rule_classes if parent[c] is None and c not in parent.values()
                        and (c in named or not fields[m])]
                if free:
                    parent[rng.choice(free)] = m
        return parent

    def spec(self, base, allow_chain=True):
        if self.forest:
            # a prefix of the class's chain in the planned forest: the whole chain, the class with its direct base,
            # the bare name (its base is then declared by another rule's chain only), or something in between
            full = [base]
            while self.plan.get(full[-1]):
                full.append(self.plan[full[-1]])
            k = len(full)
            r = self.rng.random()
            if base in self.stop_at_base:
                k = 2
            elif base in self.whole_chain:
                pass
            elif k == 2 and r >= 0.85:
                k = 1
            elif k > 2 and r >= 0.3:
                k = 2 if r < 0.75 else (1 if r < 0.85 else self.rng.randint(2, k))
            return '::'.join(self.cname(n) for n in full[:k])
        # every intermediate class is always declared with the same bases inside one grammar
        # (B1 under Root, B2 directly under the base type); redeclaration is the subject of R1
        r = self.rng.random()
        if not allow_chain or r < 0.45:
            return self.cname(base)
        if r < 0.75:
            return f'{self.cname(base)}::{self.cname("B2")}'
        return f'{self.cname(base)}::{self.cname("B1")}::{self.cname("Root")}'

    def build(self):
        rng = self.rng
        self.builtin = rng.choice(BUILTINS)
        self.start_named = rng.random() < 0.6
        self.start_typed = rng.random() < 0.85
        self.item_typed = rng.random() < 0.4
        self.group_style = rng.choice(['bare', 'named', 'override', 'namedlist'])
        self.neg_typed = rng.random() < 0.3 or self.item_typed
        if self.risky and self.risky[0] == 'shape' and self.risky[1] == 'typed-rule-over-untyped-named-ast':
            self.item_typed, self.neg_typed = True, False
        below_fields = bool(self.risky and self.risky[0] == 'shape' and self.risky[1] == 'nameless-rule-class-below-class-with-fields')
        if below_fields:
            self.group_style = 'bare'
        self.word_typed = rng.random() < 0.7
        self.have_opt = rng.random() < 0.8
        self.have_wrap = rng.random() < 0.7
        self.tuple_rule = rng.random() < 0.4
        self.used_attrs = []
        a_items, a_l, a_r, a_el, a_a, a_b, a_c, a_v, a_in = (self.attr() for _ in range(9))
        if self.risky and self.risky[0] == 'attr':
            a_l = self.risky[2]
        wrap_class = 'Wrap'
        if self.forest:
            if self.have_wrap and self.neg_typed and rng.random() < 0.3:
                # two rules build the same class (same named element), each with its own prefix of the chain
                wrap_class, a_in = 'Neg', a_v
            typed = {'Prog': self.start_typed, 'Item': self.item_typed, 'Pair': True, 'Group': True,
                     'Word': self.word_typed, 'Neg': self.neg_typed, 'Opt': self.have_opt,
                     'Wrap': self.have_wrap and wrap_class == 'Wrap'}
            named = {'Pair', 'Neg', 'Opt', 'Wrap'} | ({'Prog'} if self.start_named else set()) \
                | ({'Group'} if self.group_style in ('named', 'namedlist') else set())
            self.plan = self.plan_forest([c for c, t in typed.items() if t], named)
            # rules whose chain certainly stops at the direct base although that base has a base of its own: one
            # below the class of another rule, one below a class that no rule builds (when the forest has them)
            deep = [c for c, t in typed.items() if t and self.plan.get(c) and self.plan.get(self.plan[c])]
            self.stop_at_base = set()
            for rule_base in (True, False):
                cands = [c for c in deep if bool(typed.get(self.plan[c])) == rule_base]
                if cands:
                    c = rng.choice(cands)
                    self.stop_at_base.add(c)
                    # ... and a sibling that writes its whole chain (somebody has to declare the base's base)
                    sibs = [x for x in typed if typed[x] and x != c and self.plan.get(x) == self.plan[c]]
                    if sibs and not rule_base:
                        self.whole_chain.add(rng.choice(sibs))
        self.attrs = dict(items=a_items, l=a_l, r=a_r, el=a_el, a=a_a, b=a_b, c=a_c, v=a_v, inner=a_in)
        # named elements per class (base names) of the typed rules
        self.rule_attrs = {'Pair': {a_l, a_r}, 'Opt': {a_a, a_b, a_c}}
        self.rule_attrs.setdefault(wrap_class, set()).add(a_in)
        self.rule_attrs.setdefault('Neg', set()).add(a_v)
        if self.start_named:
            self.rule_attrs['Prog'] = {a_items}
        if self.group_style in ('named', 'namedlist'):
            self.rule_attrs['Group'] = {a_el}
        pair_spec = self.spec('Pair')
        if self.risky and self.risky[0] == 'class':
            pair_spec = self.risky[2]
        lines = [f'@@grammar :: {self.tag}']
        st = f'::{self.cname("Prog")}' if self.start_typed else ''
        if self.start_named:
            lines.append(f'start{st} = {a_items}:{{ item }}+ $ ;')
        else:
            lines.append(f'start{st} = {{ item }}+ $ ;')
        alts = ['pair', 'group', 'num', 'word', 'neg']
        if self.have_opt:
            alts.append('opt')
        if self.have_wrap:
            alts.append('wrap')
        if self.tuple_rule:
            alts.append('tup')
        self.alts = alts
        it = f'::{self.spec("Item")}' if self.item_typed else ''
        lines.append(f'item{it} = ' + ' | '.join(alts) + ' ;')
        lines.append(f"pair::{pair_spec} = '(' {a_l}:item ',' {a_r}:item ')' ;")
        gs = self.spec('Group')
        if below_fields:
            # the class of a rule WITHOUT named elements derives from the class of a rule WITH named elements
            gs = f'{self.cname("Group")}::{pair_spec}'
        if self.group_style == 'bare':
            lines.append(f"group::{gs} = '[' {{ item }} ']' ;")
        elif self.group_style == 'named':
            lines.append(f"group::{gs} = '[' {a_el}:{{ item }} ']' ;")
        elif self.group_style == 'override':
            lines.append(f"group::{gs} = '[' @:{{ item }} ']' ;")
        else:
            lines.append(f"group::{gs} = '[' {{ {a_el}+:item }} ']' ;")
        lines.append(f'num::{self.builtin} = /\\d+/ ;')
        wt = f'::{self.spec("Word", allow_chain=self.forest)}' if self.word_typed else ''
        lines.append(f'word{wt} = /[a-z]+/ ;')
        nt = f'::{self.spec("Neg")}' if self.neg_typed else ''
        lines.append(f"neg{nt} = '-' {a_v}:item ;")
        if self.have_opt:
            lines.append(f"opt::{self.spec('Opt')} = '<' {a_a}:[ word ] {a_b}+:num {a_c}:{{ pair }} '>' ;")
        if self.have_wrap:
            lines.append(f"wrap::{self.spec(wrap_class)} = '{{' {a_in}:neg '}}' ;")
        if self.tuple_rule:
            lines.append("tup::tuple = '!' { num }+ ;")
        if self.forest:
            # the order of the rule definitions decides nothing for the parse, but it is the order in which the
            # model generator meets the chains
            rest = lines[2:]
            rng.shuffle(rest)
            lines = lines[:2] + rest
        self.text = '\n'.join(lines) + '\n'

    def read_declarations(self):
        """The class declarations of the grammar, read back from its text: chains in rule order, the declared direct
        base of every class (the successor of the name in any chain; the generator writes consistent grammars: one
        successor per name) and whether a class is built by a rule."""
        self.chains: list = []              # (rule name, [class names]) in the order of the text
        for line in self.text.split('\n'):
            m = re.match(r'(\w+)::([\w:]+) = ', line)
            if not m:
                continue
            chain = [mangle(n) for n in m.group(2).split('::')]
            if chain[0] in vars(builtins):
                continue
            self.chains.append((m.group(1), chain))
        self.parent: dict = {}
        self.consistent = True
        for _, chain in self.chains:
            for a, b in zip(chain, chain[1:]):
                if self.parent.setdefault(a, b) != b:
                    self.consistent = False
        self.declared = []
        for _, chain in self.chains:
            for n in chain:
                if n not in self.declared:
                    self.declared.append(n)

    def ancestors(self, name):
        out = []
        while name in self.parent and self.parent[name] not in out and len(out) < 20:
            name = self.parent[name]
            out.append(name)
        return out

    def inherited_fields(self, clsname):
        """named elements of the rules that build a declared ancestor of the class (dataclass fields a generated class
        inherits; on a node of the derived class they are None)"""
        own = self.rule_attrs.get(clsname[len(self.tag):], set())
        out: set = set()
        for a in self.ancestors(clsname):
            out |= self.rule_attrs.get(a[len(self.tag):], set())
        return out - own

    def sentence(self, rng, depth):
        def item(d):
            alts = self.alts if d > 0 else ['num', 'word']
            k = rng.choice(alts)
            if k == 'pair':
                return f'({item(d - 1)},{item(d - 1)})'
            if k == 'group':
                return '[' + ' '.join(item(d - 1) for _ in range(rng.randint(0, 3))) + ']'
            if k == 'num':
                return str(rng.choice([0, 1, 7, 12, 305]))
            if k == 'word':
                return rng.choice(['a', 'bc', 'foo'])
            if k == 'neg':
                return '-' + item(d - 1)
            if k == 'opt':
                w = rng.choice(['', 'w '])
                ps = ' '.join(f'({item(d - 1)},{item(d - 1)})' for _ in range(rng.randint(0, 2)))
                return f'<{w}{rng.choice([3, 44])} {ps}>'
            if k == 'wrap':
                return '{-' + item(d - 1) + '}'
            return '! ' + ' '.join(str(rng.randint(0, 9)) for _ in range(rng.randint(1, 3)))
        return ' '.join(item(depth) for _ in range(rng.randint(1, 3)))


# ------------------------------------------------------------------ L1: lexical-type grammars
# Second grammar skeleton (the first one has ONE builtin-typed token rule and class names that differ in whole words):
# token rules tint tdec tword tflag, each typed with a builtin (int float str bool), a class ("lexical type") or nothing;
# wrapper rules w0 (bare) w1 ('@') w2 ('%') typed with a class, over SEVERAL token rules, without names (the node's ast
# is the converted scalar: 1, 1.0, True, '1' ... of whichever alternative matched), with an override or with a named
# group; pair / seq / start around them.  Two things the first skeleton never had:
#  * one class is instantiated many times, in one parse and across parses of the process, with scalar values of
#    DIFFERENT types that compare equal (1 / 1.0 / True, 0 / 0.0 / False ...): token pools are small on purpose;
#  * class names that are CASE VARIANTS of one another (Num / NUM / NuM, IdList / IDList / IdLIST / IDLIST), on any
#    two or three classes of the grammar (wrappers, lexical types, pair, bases): distinct classes by the property text,
#    the same name for anything that normalizes names (snake_case method names, caches, registries keyed by a
#    derived name).
# Everything else is the machinery of the main stream: prescription from the traced derivation (class, MRO, attributes,
# exact scalar type and value), mirror, navigation, generated-class tree, N2, B1, W1 (twin names weigh more in the
# method universe), D1, K1.
LEX_RULES = ['tint', 'tdec', 'tword', 'tflag']
LEX_PATTERNS = {'tint': r'/\d+/', 'tdec': r'/\d+\.\d+/', 'tword': '/[a-z]+/', 'tflag': "'?' @:/t?/"}
LEX_BUILTINS = {'tint': ['int', 'int', 'float', 'str', 'bool'], 'tdec': ['float', 'float', 'str', 'bool'],
                'tword': ['str', 'bool'], 'tflag': ['bool', 'bool', 'str']}
LEX_TOKENS = {'tint': ['0', '1', '1', '2', '7', '10'], 'tdec': ['0.0', '1.0', '1.0', '2.0', '2.5', '10.0'],
              'tword': ['a', 'bc', 'foo'], 'tflag': ['?t', '?']}
TWIN_STEMS = [('Num',), ('Id', 'List'), ('Xml', 'Decl'), ('Http', 'Ref'), ('Lit',), ('Io', 'Val'), ('Ast', 'Node')]


def case_variants(words):
    """spellings of one name that differ in the case of letters only; the first two always have the same snake_case"""
    camel = ''.join(words)
    out = [camel, words[0].upper() + ''.join(words[1:])]
    if len(words) > 1:
        out += [words[0] + words[1].upper(), camel.upper()]
    else:
        out += [camel[:-1] + camel[-1].upper()]
    return [v for i, v in enumerate(out) if v not in out[:i]]


class LexCase(GrammarCase):
    def __init__(self, rng, idx, k):
        self.k = k                    # position in the family: features that must not be left to chance go by k
        super().__init__(rng, idx)

    def build(self):
        rng, k = self.rng, self.k
        numeric = k % 2 == 0          # tint::int tdec::float tflag::bool under nameless wrappers: 1 / 1.0 / True in one class
        self.numeric = numeric
        self.used_attrs = []
        self.rule_attrs = {}
        # -- which classes exist
        lex_type: dict = {}
        for t in LEX_RULES:
            r = rng.random()
            if numeric and t != 'tword':
                lex_type[t] = {'tint': 'int', 'tdec': 'float', 'tflag': 'bool'}[t]
            elif r < 0.5:
                lex_type[t] = rng.choice(LEX_BUILTINS[t])
            elif r < 0.85:
                lex_type[t] = 'class'
            else:
                lex_type[t] = None
        self.lex_type = lex_type
        self.builtin = tuple(sorted({v for v in lex_type.values() if v and v != 'class'}))
        have_w2 = rng.random() < 0.6
        have_seq = rng.random() < 0.6
        start_typed = rng.random() < 0.85
        slots = ['Pair', 'W0', 'W1'] + (['W2'] if have_w2 else []) + (['Seq'] if have_seq else []) \
            + (['Doc'] if start_typed else []) + [t.capitalize() for t in LEX_RULES if lex_type[t] == 'class']
        # -- names: two or three classes get case variants of one stem
        stem = TWIN_STEMS[(k // 2 + rng.randrange(2)) % len(TWIN_STEMS)]
        variants = case_variants(stem)
        ntw = 3 if rng.random() < 0.3 and len(variants) > 2 else 2
        near = [s for s in slots if s not in ('Doc', 'Seq')]       # classes with many instances in every tree
        if k % 4 < 2:
            # the two variants with one snake_case name, on two of the classes that every tree is full of
            chosen = rng.sample(variants[:2], 2) + rng.sample(variants[2:], ntw - 2)
            where = rng.sample(['Pair', 'W0', 'W1'], 2)
            where += rng.sample([s for s in near if s not in where], ntw - 2)
        else:
            chosen = rng.sample(variants, ntw)
            where = rng.sample(near, min(ntw, len(near)))
        if rng.random() < 0.25 and (k % 4 >= 2 or len(where) > 2):
            where[-1] = rng.choice(['Base', 'Mid', 'Root', 'Doc' if start_typed else 'Base'])
        self.names = {s: s for s in slots + ['Base', 'Mid', 'Root']}
        for s, v in zip(where, chosen):
            self.names[s] = v
        self.twins = [self.cname(self.names[s]) for s in where]

        def spec(slot):
            # (every class is always written with its whole chain: consistent declarations, as in the main stream)
            r = rng.random()
            chain = [slot] if r < 0.45 else [slot, 'Base'] if r < 0.75 else [slot, 'Mid', 'Root']
            return '::'.join(self.cname(self.names[c]) for c in chain)

        # -- wrappers
        def alternatives(pool, must, at_least):
            alts = [t for t in pool if t in must or rng.random() < 0.6]
            while len(alts) < at_least:
                alts = list(dict.fromkeys(alts + [rng.choice(pool)]))
            return [t for t in pool if t in alts]
        num = ['tdec', 'tint']
        self.w_alts = {'w0': alternatives(['tdec', 'tint', 'tword'], num if numeric else [], 2),
                       'w1': alternatives(['tflag', 'tdec', 'tint', 'tword'], ['tflag', *num] if numeric else [], 2)}
        if have_w2:
            self.w_alts['w2'] = alternatives(['tflag', 'tdec', 'tint', 'tword'], [], 1)
        styles = {'w0': 'bare' if numeric else rng.choice(['bare', 'bare', 'named']),
                  'w1': 'override' if k % 4 == 0 else rng.choice(['override', 'override', 'named']),
                  'w2': rng.choice(['override', 'named'])}
        sigil = {'w0': '', 'w1': "'@' ", 'w2': "'%' "}
        lines = [f'@@grammar :: {self.tag}']
        st = f'::{spec("Doc")}' if start_typed else ''
        body = f'{self.attr()}:' if rng.random() < 0.6 else ''
        lines.append(f'start{st} = {body}{{ item }}* $ ;')
        self.alts = ['pair'] + (['seq'] if have_seq else []) + sorted(self.w_alts, reverse=True)      # bare w0 last
        self.leaf_alts = sorted(self.w_alts)
        lines.append('item = ' + ' | '.join(self.alts) + ' ;')
        rest = [f"pair::{spec('Pair')} = '(' {self.attr()}:item ',' {self.attr()}:item ')' ;"]
        if have_seq:
            inner = rng.choice(['{ item }', f'{self.attr()}:{{ item }}', '@:{ item }'])
            rest.append(f"seq::{spec('Seq')} = '[' {inner} ']' ;")
        for w, alts in self.w_alts.items():
            group = ' | '.join(alts)
            if styles[w] == 'bare':
                bodyw = group
            elif styles[w] == 'override':
                bodyw = f'{sigil[w]}@:( {group} )' if len(alts) > 1 else f'{sigil[w]}@:{group}'
            else:
                bodyw = f'{sigil[w]}{self.attr()}:( {group} )'
            rest.append(f'{w}::{spec(w.capitalize())} = {bodyw} ;')
        for t in LEX_RULES:
            typ = lex_type[t]
            ann = '' if typ is None else f'::{spec(t.capitalize())}' if typ == 'class' else f'::{typ}'
            rest.append(f'{t}{ann} = {LEX_PATTERNS[t]} ;')
        rng.shuffle(rest)
        self.text = '\n'.join(lines + rest) + '\n'

    def sentence(self, rng, depth):
        def tok(w):
            t = rng.choice(self.w_alts[w])
            return {'w0': '', 'w1': '@', 'w2': '%'}[w] + rng.choice(LEX_TOKENS[t])

        def item(d):
            k = rng.choice(self.alts if d > 0 else self.leaf_alts)
            if k == 'pair':
                return f'({item(d - 1)},{item(d - 1)})'
            if k == 'seq':
                return '[' + ' '.join(item(d - 1) for _ in range(rng.randint(0, 3))) + ']'
            return tok(k)
        return ' '.join(item(depth) for _ in range(rng.randint(2, 5)))


def mixed_equal_scalars(value, by_cls=None):
    """number of node classes whose instances hold (in .ast) scalars that compare equal but differ in type; `by_cls`
    accumulates class name -> scalars over several trees"""
    nodes: list = []
    brute_nodes(value, nodes, cross=True)
    by_cls = {} if by_cls is None else by_cls
    for n in uniq(nodes):
        a = vars(n).get('ast')
        if isinstance(a, (bool, int, float, str)):
            by_cls.setdefault(type(n).__name__, []).append(a)
    return sum(1 for vs in by_cls.values() if any(a == b and type(a) is not type(b) for a in vs for b in vs))


class Mark:
    """What the tracing semantics leaves where an annotated rule reduced."""
    __slots__ = ('spec', 'ast')

    def __init__(self, spec, ast):
        self.spec = spec
        self.ast = ast


class TraceSemantics:
    def _default(self, ast, *args, **kwargs):
        if not args:
            return ast
        return Mark(args[0], ast)


BASE_MRO = ['Node', 'SynthNode', 'BaseNode', 'JSONBase', 'AsJSONMixin', 'object']


def canon_model(v):
    """canonical form of a model-parse result (nodes, lists, dicts, leaves)"""
    if isinstance(v, BaseNode):
        mro = [c.__name__ for c in type(v).__mro__]
        d = {k: x for k, x in vars(v).items()
             if k not in ('ast', '_parent_ref') and not (k in ('ctx', 'parseinfo') and x is None)}
        return ['node', type(v).__name__, mro, {k: canon_model(x) for k, x in d.items()}, canon_model(vars(v).get('ast'))]
    if isinstance(v, Mapping):
        return {k: canon_model(x) for k, x in v.items()}
    if isinstance(v, tuple):
        return ['tuple', [canon_model(x) for x in v]]
    if isinstance(v, list):
        return [canon_model(x) for x in v]
    if isinstance(v, (str, int, float, bool)) or v is None:
        return [type(v).__name__, v]
    return ['?', type(v).__name__]


def expect_from_marks(v, ancestors=None, base_mro=None):
    """the canonical model tree that the property prescribes for a traced derivation; `ancestors`: class name -> the
    base classes declared for it by the grammar as a whole (a chain may stop at a class whose own bases are declared by
    another rule); without it the rule's own chain; `base_mro`: class names above the declared ones (default: those
    of a synthesized class below Node)"""
    base_mro = BASE_MRO if base_mro is None else base_mro

    def go(v):
        if isinstance(v, Mark):
            names_ = [mangle(s) for s in v.spec.split('::')]
            head = names_[0]
            inner = v.ast
            if head in vars(builtins):
                fn = vars(builtins)[head]
                if isinstance(inner, (list, tuple)):
                    return ['tuple', [go(x) for x in fn(inner)]] if fn is tuple else ['?', head]
                val = fn(inner)
                return [type(val).__name__, val]
            if ancestors is not None:
                names_ = [head] + ancestors(head)
            if isinstance(inner, dict):
                return ['node', head, names_ + base_mro, {k: go(x) for k, x in inner.items()}, ['NoneType', None]]
            return ['node', head, names_ + base_mro, {}, go(inner)]
        if isinstance(v, Mapping):
            return {k: go(x) for k, x in v.items()}
        if isinstance(v, tuple):
            return ['tuple', [go(x) for x in v]]
        if isinstance(v, list):
            return [go(x) for x in v]
        return [type(v).__name__, v]
    return go(v)


def erase_marks(v):
    if isinstance(v, Mark):
        names_ = [mangle(s) for s in v.spec.split('::')]
        inner = erase_marks(v.ast)
        if names_[0] in vars(builtins):
            return ('conv', names_[0], inner)
        return inner
    if isinstance(v, Mapping):
        return {k: erase_marks(x) for k, x in v.items()}
    if isinstance(v, (list, tuple)):
        return [erase_marks(x) for x in v]
    return v


def plain_json(v):
    if isinstance(v, Mapping):
        return {k: plain_json(x) for k, x in v.items()}
    if isinstance(v, (list, tuple)):
        return [plain_json(x) for x in v]
    return v


def strip_conv(v):
    if isinstance(v, tuple) and len(v) == 3 and v[0] == 'conv':
        return strip_conv(v[2])
    if isinstance(v, dict):
        return {k: strip_conv(x) for k, x in v.items()}
    if isinstance(v, list):
        return [strip_conv(x) for x in v]
    return v


def erase_model(v):
    """erase node wrappers of the real tree; builtin-converted leaves are compared through str()"""
    if isinstance(v, BaseNode):
        d = {k: x for k, x in vars(v).items()
             if k not in ('ast', '_parent_ref') and not (k in ('ctx', 'parseinfo') and x is None)}
        if d:
            return {k: erase_model(x) for k, x in d.items()}
        return erase_model(vars(v).get('ast'))
    if isinstance(v, Mapping):
        return {k: erase_model(x) for k, x in v.items()}
    if isinstance(v, (list, tuple)):
        return [erase_model(x) for x in v]
    return v


def conv_equal(m, p, builtin):
    """erased model value m vs plain value p, allowing the builtin conversion of leaves"""
    if isinstance(p, dict):
        return isinstance(m, dict) and set(m) == set(p) and all(conv_equal(m[k], p[k], builtin) for k in p)
    if isinstance(p, list):
        return isinstance(m, list) and len(m) == len(p) and all(conv_equal(a, b, builtin) for a, b in zip(m, p))
    if m == p and type(m) is type(p):
        return True
    if isinstance(p, str):
        # (the lexical-type grammars have several builtin-typed token rules: `builtin` is a tuple of names there; which
        # one applies where is pinned by the `attrs` check, which knows the derivation)
        for b in ((builtin,) if isinstance(builtin, str) else builtin):
            if b not in vars(builtins):
                continue
            try:
                c = vars(builtins)[b](p)
            except Exception:
                continue
            if c == m and type(c) is type(m):
                return True
    return False


def load_model_module(src: str, modname: str):
    mod = types.ModuleType(modname)
    sys.modules[modname] = mod
    exec(compile(src, modname, 'exec'), mod.__dict__)
    return mod


def strip_mro(canon):
    """canonical tree with the class-family specific MRO entries (SynthNode / ModelBase) and `ast` of
    attribute-carrying nodes removed, so that generated and synthesized classes can be compared"""
    if isinstance(canon, list) and canon and canon[0] == 'node':
        _, cls, mro, attrs, ast = canon
        mro = [m for m in mro if m not in ('SynthNode', 'ModelBase')]
        # a declared-but-unset field of a generated class is None; synthesized nodes have all AST keys too
        return ['node', cls, mro, {k: strip_mro(x) for k, x in attrs.items()},
                None if attrs else strip_mro(ast)]
    if isinstance(canon, dict):
        return {k: strip_mro(x) for k, x in canon.items()}
    if isinstance(canon, list):
        return [strip_mro(x) for x in canon]
    return canon


def check_navigation(value, where: str) -> list[str]:
    """children/parent closure and walker coverage by brute force over vars(); returns failure kinds.
    When the start rule is not annotated the result is a list / dict of trees: every top node is a root."""
    tops: list = []
    brute_nodes(value, tops)
    out: set = set()
    for top in uniq(tops):
        if isinstance(top, Node):
            out |= set(check_navigation_root(top))
    return sorted(out)


def check_navigation_root(root) -> list[str]:
    fails = []
    everything: list = []
    brute_nodes(root, everything, cross=True)
    everything = uniq(everything)
    for n in everything:
        if not isinstance(n, Node):
            continue
        try:
            kids = list(n.children())
        except Exception as e:
            fails.append(f'children-raises-{type(e).__name__}')
            continue
        found: list = []
        for k, x in vars(n).items():
            if k.startswith('_') or x is None:
                continue
            brute_nodes(x, found)
        found = uniq(found)
        kid_ids = [id(k) for k in kids]
        if len(set(kid_ids)) != len(kid_ids):
            fails.append('child-twice')
        if any(id(f) not in set(kid_ids) for f in found):
            fails.append('child-missed')
        if any(id(k) not in {id(f) for f in found} for k in kids):
            fails.append('child-stranger')
        for k in kids:
            if k.parent is not n:
                fails.append('parent-wrong')
                break
    want = {id(n) for n in everything if isinstance(n, Node)}
    for kind in ('dfs', 'bfs', 'post'):
        try:
            seen = [id(n) for n in real_walk(kind, root)]
        except Exception as e:
            fails.append(f'{kind}-raises-{type(e).__name__}')
            continue
        if len(seen) != len(set(seen)):
            fails.append(f'{kind}-visits-twice')
        if set(seen) != want:
            fails.append(f'{kind}-misses-nodes' if want - set(seen) else f'{kind}-visits-strangers')
    return sorted(set(fails))


# ------------------------------------------------------------------ H1: the class hierarchy of the generated module
# Oracle written from the property text: the classes of the generated model module have the base classes the grammar
# declares.  The declarations of a grammar are its chains `A::B::C` (A derives from B, B from C); a chain may stop at a
# class whose own base is declared by another rule (`x::X::Base` and `y::Y::X`): the declared ancestors of a class are
# what all the chains together say.  Nothing here looks at how the generator computes the bases.
def chain_parents(chains):
    parent: dict = {}
    for _, chain in chains:
        for a, b in zip(chain, chain[1:]):
            parent.setdefault(a, b)
    return parent


def chain_ancestors(parent, name):
    out = []
    while name in parent and parent[name] not in out and len(out) < 20:
        name = parent[name]
        out.append(name)
    return out


def hierarchy_shape(n, chains, parent):
    """shape class of a declared class: who builds it, how its base is declared, where chains stop at it"""
    own = [c for _, c in chains if c[0] == n]
    if n not in parent:
        kind = 'rule-class-without-base' if own else 'nonrule-root-class'
    elif not own:
        kind = 'nonrule-class'
    elif any(len(c) == 1 for c in own):
        kind = 'rule-class-bare-in-own-rule'
    else:
        kind = 'rule-class-own-chain'
    decl = [i for i, (_, c) in enumerate(chains) if n in c[:-1]]
    stops = [i for i, (_, c) in enumerate(chains) if c[-1] == n]
    if not decl or not stops:
        pos = 'no-chain-stops-at-it'
    elif max(stops) > decl[0]:
        pos = 'a-later-chain-stops-at-it'
    else:
        pos = 'an-earlier-chain-stops-at-it'
    return f'{kind}:{pos}'


def hierarchy_failures(module_vars, chains):
    """[(signature, class, got, want)] for the declared classes whose OWN bases in the generated module are not the
    declared ones (a class that only inherits the damage of its base is not listed)"""
    parent = chain_parents(chains)
    declared = []
    for _, c in chains:
        declared += [n for n in c if n not in declared]
    out = []
    for n in declared:
        want = chain_ancestors(parent, n)
        cls = module_vars.get(n)
        if not isinstance(cls, type):
            out.append((f'genmodel-bases:class-missing:{hierarchy_shape(n, chains, parent)}', n, None, want))
            continue
        got = [c.__name__ for c in cls.__mro__[1:] if c.__name__ in declared]
        own_got = [b.__name__ for b in cls.__bases__ if b.__name__ in declared]
        own_want = [parent[n]] if n in parent else []
        if got == want or own_got == own_want:
            continue
        if any(w not in own_got for w in own_want):
            fail = 'base-lost' if not own_got else 'base-replaced'
        else:
            fail = 'base-extra'
        out.append((f'genmodel-bases:{fail}:{hierarchy_shape(n, chains, parent)}', n, got, want))
    return out


def tiny_hierarchy_grammar(tag, chains):
    lines = [f'@@grammar :: {tag}', 'start = { ' + ' | '.join(f'r{i}' for i in range(len(chains))) + ' }* $ ;']
    for i, (_, c) in enumerate(chains):
        lines.append(f"r{i}::{'::'.join(c)} = '{i}' x:/[a-z]+/ ;")
    return '\n'.join(lines) + '\n'


def hierarchy_signatures_of(chains):
    tag = f'{RUN}H{next(_seq)}x'
    text = tiny_hierarchy_grammar(tag, chains)
    src = tatsu.to_python_model(text, name=tag)
    mod = load_model_module(src, f'verif_c07_model_{tag}')
    return text, {f[0] for f in hierarchy_failures(vars(mod), [(f'r{i}', c) for i, (_, c) in enumerate(chains)])}


def shrink_hierarchy(chains, sig):
    """greedy: drop chains, drop the first / last name of a chain, while a class of the same shape fails the same way;
    returns (grammar text, chains) of a grammar made of one-token rules, or None when the failure needs more than chains"""
    def fails(cs):
        try:
            return sig in hierarchy_signatures_of(cs)[1]
        except Exception:                                   # noqa: BLE001
            return False
    cs = [(r, list(c)) for r, c in chains]
    if not fails(cs):
        return None
    changed = True
    while changed:
        changed = False
        for i in range(len(cs)):
            cands = [cs[:i] + cs[i + 1:]]
            if len(cs[i][1]) > 1:
                cands.append(cs[:i] + [(cs[i][0], cs[i][1][1:])] + cs[i + 1:])
                cands.append(cs[:i] + [(cs[i][0], cs[i][1][:-1])] + cs[i + 1:])
            for cand in cands:
                if cand and fails(cand):
                    cs, changed = cand, True
                    break
            if changed:
                break
    return hierarchy_signatures_of(cs)[0], cs


def drop_inherited(canon, inherited):
    """canonical tree of generated-class nodes without the None-valued dataclass fields that a class inherits from the
    class of another rule (inherited(class name) -> names)"""
    if isinstance(canon, list) and canon and canon[0] == 'node':
        _, cls, mro, attrs, ast = canon
        skip = inherited(cls)
        attrs = {k: drop_inherited(x, inherited) for k, x in attrs.items() if not (k in skip and x == ['NoneType', None])}
        return ['node', cls, mro, attrs, drop_inherited(ast, inherited)]
    if isinstance(canon, dict):
        return {k: drop_inherited(x, inherited) for k, x in canon.items()}
    if isinstance(canon, list):
        return [drop_inherited(x, inherited) for x in canon]
    return canon


def without_mro(canon):
    if isinstance(canon, list) and canon and canon[0] == 'node':
        return ['node', canon[1], None, {k: without_mro(x) for k, x in canon[3].items()}, without_mro(canon[4])]
    if isinstance(canon, dict):
        return {k: without_mro(x) for k, x in canon.items()}
    if isinstance(canon, list):
        return [without_mro(x) for x in canon]
    return canon


def run_grammars(chk: Check, mr: ModelRun):
    rng = chk.rng
    ngram = 28 if chk.quick else 260
    nforest = 16 if chk.quick else 100
    ninputs = 8 if chk.quick else 16
    shrunk_hier: dict = {}
    tie_batch: list = []
    build_reqs: list = []
    ncases = 0
    wbad = 0
    d1_batch: list = []
    kbad = 0
    k1_every = 15 if chk.quick else 8
    krng = random.Random(f'C07-K1-{chk.seed}')      # own stream: the grammars of a seed stay what they were
    risky_plan = []
    for cls, pool in RISKY_ATTRS.items():
        for nm in pool:
            risky_plan.append(('attr', cls, nm))
    for cls, pool in RISKY_CLASSES.items():
        for nm in pool:
            risky_plan.append(('class', cls, nm))
    for shp in RISKY_SHAPES:
        risky_plan.append(('shape', shp, shp))
    nlex = 6 if chk.quick else 60
    lrng = random.Random(f'C07-L1-{chk.seed}')     # own stream, and these grammars come last: the others stay what they were
    plan = [None] * ngram + ['forest'] * nforest + risky_plan + ['lexical'] * nlex
    nlexical = 0
    for gi, risky in enumerate(plan):
        forest = risky == 'forest'
        lexical = risky == 'lexical'
        risky = None if forest or lexical else risky
        if lexical:
            gc = LexCase(lrng, next(_seq), nlexical)
            nlexical += 1
            chk.count('L1.scheme.' + ('int-float-bool-under-nameless-wrappers' if gc.numeric else 'random-token-types'))
            chk.count('L1.twin-classes', len(gc.twins))
            chk.count('L1.twin-pairs-with-one-snake-name',
                      sum(1 for a, b in itertools.combinations(gc.twins, 2) if snake(a) == snake(b)))
        else:
            gc = GrammarCase(rng, next(_seq), risky, forest=forest)
        feature = f'{risky[0]}-{risky[1]}' if risky else ('forest' if forest else 'lexical' if lexical else 'plain')
        chk.count('grammars.' + ('risky' if risky else 'forest' if forest else 'lexical' if lexical else 'main'))
        srng = lrng if lexical else rng

        groups: dict = {}

        def report(kind, what, text, extra=None):
            rep = {'oracle': kind, 'grammar': gc.text, 'input': text, 'risky_feature': risky}
            rep.update(extra or {})
            if risky:
                # one defect shows through several checks: aggregate per grammar (signature built below)
                grp = kind.split('-')[0] if not kind.startswith('genmodel') else 'genmodel'
                if 'raises' in kind:
                    grp = kind
                groups.setdefault(grp, (what, rep))
            else:
                chk.violation(f'{kind}:{feature}', f'{what} [{feature}]', rep)

        try:
            gp = tatsu.compile(gc.text, name=gc.tag + 'p')
            gm = tatsu.compile(gc.text, name=gc.tag + 'm', asmodel=True)
            # semantics are passed per parse; only asmodel=True needs its own compiled model (the compile cache
            # is keyed by name: C10/D6).  to_python_model with the same name reuses the cached plain model.
            gs = gt = gg = gp
            src = tatsu.to_python_model(gc.text, name=gc.tag + 'p')
        except Exception as e:
            report(f'compile-raises-{type(e).__name__}', f'grammar does not compile: {e}'[:300], '')
            continue
        genmod = None
        try:
            genmod = load_model_module(src, f'verif_c07_model_{gc.tag}')
            gensem_cls = getattr(genmod, f'{gc.tag}pModelBuilderSemantics')
        except Exception as e:
            report(f'genmodel-load-raises-{type(e).__name__}', f'generated model module does not load: {e}'[:300], '',
                   {'module': src[-1500:]})
        texts = sorted({gc.sentence(srng, srng.randint(0, 3)) for _ in range(6 if lexical and chk.quick else ninputs)}, key=len)
        if risky:
            texts = FIXED_SENTENCES + texts[:3]
        reported = set()
        # H1: the classes of the generated module have the declared bases (no parse involved)
        hier_damaged = False
        if not risky and genmod is not None and gc.consistent:
            chk.count('H1.grammars')
            chk.count('H1.declared-classes', len(gc.declared))
            for n in gc.declared:
                chk.count('H1.shape.' + hierarchy_shape(n, gc.chains, gc.parent))
            for sig, n, got, want in hierarchy_failures(vars(genmod), gc.chains):
                hier_damaged = True
                if sig in reported:
                    continue
                reported.add(sig)
                rep = {'oracle': 'H1 declared base classes of the generated model module', 'grammar': gc.text,
                       'class': n, 'generated_ancestors': got, 'declared_ancestors': want,
                       'chains': ['::'.join(c) for _, c in gc.chains]}
                if sig not in shrunk_hier:
                    shrunk_hier[sig] = shrink_hierarchy(gc.chains, sig)
                if shrunk_hier[sig]:
                    rep['minimal_grammar'] = shrunk_hier[sig][0]
                    rep['minimal_chains'] = ['::'.join(c) for _, c in shrunk_hier[sig][1]]
                chk.violation(sig, f'generated model module: class {n} has the declared ancestors {got}, the grammar '
                                   f'declares {want} ({sig.split(":", 2)[2]})', rep)
        if forest:
            # synthesis is keyed by name and the first synthesis wins (D14a, subject of R1): declare every class once
            # with its whole chain, bases first, so that the synthesized classes are the declared ones whatever rule the
            # input reduces first
            for n in sorted(gc.declared, key=lambda n: len(gc.ancestors(n))):
                ModelBuilderSemantics()._default('x', '::'.join([n] + gc.ancestors(n)))
        wpool: list = []
        lex_scalars: dict = {}
        lex_mixed = 0
        for text in texts:
            ncases += 1
            try:
                plain = gp.parse(text)
            except Exception as e:
                # the generator only writes sentences of the grammar; a plain failure is the generator's fault
                chk.count('inputs.rejected-by-plain-parse')
                continue
            chk.case(f'{gc.text}\n{text}', nontrivial=len(text) > 3)
            chk.count('inputs')

            def once(kind, what, extra=None):
                if kind not in reported:       # texts are sorted by length: the first is the smallest
                    reported.add(kind)
                    report(kind, what, text, extra)

            try:
                m1 = gm.parse(text)
                m2 = gs.parse(text, semantics=ModelBuilderSemantics())
            except Exception as e:
                once(f'model-parse-raises-{type(e).__name__}', f'model-building parse raises {type(e).__name__}: {e}'[:300])
                continue
            traced = gt.parse(text, semantics=TraceSemantics())
            c1, c2 = canon_model(m1), canon_model(m2)
            if lexical:
                if mixed_equal_scalars(m2):
                    chk.count('L1.inputs-with-equal-scalars-of-different-types-in-one-class')
                lex_mixed = max(lex_mixed, mixed_equal_scalars(m2, lex_scalars))
            if c1 != c2:
                once('asmodel-vs-semantics', 'compile(asmodel=True) and semantics=ModelBuilderSemantics() give different trees')
            # (1) the derivation with the annotated reductions marked erases to the plain AST
            if plain_json(strip_conv(erase_marks(traced))) != plain_json(plain):
                once('trace-vs-plain', 'a semantic action result changed the shape of the AST around it')
            # (2) the model tree is what the property prescribes for that derivation
            want = expect_from_marks(traced, gc.ancestors if gc.consistent and not risky else None)
            if c2 != want:
                once('attrs', 'node classes / MRO / attributes differ from the annotated derivation',
                     {'got': json.dumps(c2, default=str)[:1500], 'want': json.dumps(want, default=str)[:1500]})
            # (3) erasing the nodes gives the plain AST (leaves modulo the builtin conversion)
            if not conv_equal(erase_model(m2), plain_json(plain), gc.builtin):
                once('mirror', 'erasing the nodes of the model parse does not give the plain AST',
                     {'erased': repr(erase_model(m2))[:800], 'plain': repr(plain)[:800]})
            # (4) navigation
            for f in check_navigation(m2, 'synth'):
                once(f'nav-{f}', f'navigation of the synthesized tree: {f}')
            if not risky:
                tops: list = []
                brute_nodes(m2, tops)
                for top in uniq(tops)[:2]:
                    if isinstance(top, Node):
                        tie_tree(chk, top, f'parse of {text!r}', tie_batch)
                        wpool.append((text, top, 'synthesized'))
            # (5) the generated model module gives the same tree
            if genmod is not None:
                try:
                    m3 = gg.parse(text, semantics=gensem_cls())
                except Exception as e:
                    once(f'genmodel-parse-raises-{type(e).__name__}', f'parse with the generated model raises: {e}'[:300])
                    continue
                c3, c2s = strip_mro(canon_model(m3)), strip_mro(c2)
                if forest:
                    c3 = drop_inherited(c3, gc.inherited_fields)
                if hier_damaged:
                    # the wrong bases have been reported by H1: compare the rest
                    c3, c2s = without_mro(c3), without_mro(c2s)
                if c3 != c2s:
                    once('genmodel-tree', 'generated model classes give a different tree than synthesized classes',
                         {'generated': json.dumps(c3, default=str)[:1200], 'synthesized': json.dumps(c2s, default=str)[:1200]})
                for f in check_navigation(m3, 'generated'):
                    once(f'genmodel-nav-{f}', f'navigation of the generated-class tree: {f}')
                if not risky and not hier_damaged:
                    # (the walker cache is keyed by the class NAME: when H1 has found a generated class whose bases
                    # differ from the synthesized class of the same name, one walker class cannot serve both families)
                    tops = []
                    brute_nodes(m3, tops)
                    wpool += [(text, top, 'generated') for top in uniq(tops)[:1] if isinstance(top, Node)]
                if not risky and rng.random() < 0.5:
                    tops = []
                    brute_nodes(m3, tops)
                    for top in uniq(tops)[:2]:
                        if isinstance(top, Node):
                            tie_tree(chk, top, f'generated-class parse of {text!r}', tie_batch)
            # B1: the derivation for the Coq build/plain/erase functions
            if not risky and len(build_reqs) < (150 if chk.quick else 2000):
                br = build_request(traced, plain, m2, gc)
                if br:
                    build_reqs.append(br)
        if lexical and lex_mixed:
            chk.count('L1.grammars-with-equal-scalars-of-different-types-in-one-class')
            chk.count('L1.classes-with-equal-scalars-of-different-types', lex_mixed)
        if not risky and wpool:
            # the largest trees of both class families
            wpool.sort(key=lambda p: -len(node_orders(p[1])['dfs']))
            wbad += run_dispatch(chk, gc, wpool[:5], 3 if chk.quick else 8, d1_batch)
        if not risky and genmod is not None and texts and gi % k1_every == 1:
            kbad += run_containers(chk, krng, gc, src, texts, gp, gensem_cls)
        if gi == 0:
            chk.sample({'grammar': gc.text, 'input': texts[-1] if texts else ''})
        if risky and groups:
            sig = f'risky:{feature}:' + '+'.join(sorted(groups))
            first = groups[sorted(groups)[0]]
            chk.violation(sig, f'{risky[0]} named {risky[2]!r} ({risky[1]}): ' + '; '.join(groups[g][0] for g in sorted(groups)),
                          dict(first[1], failing_checks=sorted(groups)))
    chk.obligation('O1: model parse vs plain parse on generated annotated grammars', 'oracle',
                   not any(not v['signature'].startswith(('corr:', 'walk-dispatch:', 'genmodel-bases:', 'containers:',
                                                          'concurrent-first-use:')) for v in chk.violations))
    chk.obligation('L1: the lexical-type grammars reached what they are for: classes holding equal scalars of different '
                   'types, twin class names with one snake_case name', 'oracle',
                   chk.dist.get('L1.grammars-with-equal-scalars-of-different-types-in-one-class', 0) > 0
                   and chk.dist.get('L1.twin-pairs-with-one-snake-name', 0) > 0)
    chk.obligation('H1: classes of the generated model module have the base classes the grammar declares (chains of '
                   'all rules together: rule classes as bases, shared rule-less classes, chains that stop at a class '
                   'declared elsewhere, any rule order)', 'oracle',
                   not any(v['signature'].startswith('genmodel-bases:') for v in chk.violations))
    chk.obligation('W1: walker class / use histories: handler of every node and traversal vs the dispatch oracle',
                   'oracle', wbad == 0)
    kbad += run_containers_small(chk)
    chk.obligation('K1: compile-call histories over generations of the model module (typedefs / mapping / constructors / '
                   'builderconfig / semantics, compile time and parse time, new module objects and reloaded files): nodes '
                   'are instances of the classes given to the call', 'oracle', kbad == 0)
    flush_ties(chk, mr, tie_batch, 'N2')
    flush_build(chk, mr, build_reqs)
    flush_dispatch(chk, mr, d1_batch)
    witness_dispatch(chk)


# ------------------------------------------------------------------ B1: derivations vs build / plain / erase
def ptree_sx(v, convtab):
    if isinstance(v, Mark):
        names_ = [mangle(s) for s in v.spec.split('::')]
        return f'(rule ({" ".join(sx(n) for n in names_)}) {ptree_sx(v.ast, convtab)})'
    if isinstance(v, Mapping):
        return '(pdict ' + ' '.join(f'({sx(k)} {ptree_sx(x, convtab)})' for k, x in v.items()) + ')' if v else '(pdict)'
    if isinstance(v, (list, tuple)):
        return '(plist ' + ' '.join(ptree_sx(x, convtab) for x in v) + ')' if v else '(plist)'
    if v is None:
        return '(leaf none)'
    if isinstance(v, str):
        return '(leaf (s ' + ' '.join(str(ord(c)) for c in v) + '))' if v else '(leaf (s))'
    raise ValueError('leaf')


def model_value_sx(c: Canon, v):
    """a real value as ObjModel.value with node ids 0 and without ctx/parseinfo (what `build` produces)"""
    if isinstance(v, BaseNode):
        d = {k: x for k, x in vars(v).items() if k not in ('ast', 'ctx', 'parseinfo', '_parent_ref')}
        body = ' '.join(f'({sx(k)} {model_value_sx(c, x)})' for k, x in d.items())
        return f'(n 0 {sx(type(v).__name__)} () {model_value_sx(c, vars(v).get("ast"))} ({body}))'
    if isinstance(v, Mapping):
        return '(d ' + ' '.join(f'({sx(k)} {model_value_sx(c, x)})' for k, x in v.items()) + ')' if v else '(d)'
    if isinstance(v, (list, tuple)):
        return '(l ' + ' '.join(model_value_sx(c, x) for x in v) + ')' if v else '(l)'
    return c.value(v)


def build_request(traced, plain, m2, gc):
    c = Canon()
    convtab: dict = {}
    try:
        t = ptree_sx(traced, convtab)
    except ValueError:
        return None
    # builtin constructors as finite tables over the leaf strings of this input
    leaves = set()

    def collect(v):
        if isinstance(v, Mark):
            collect(v.ast)
        elif isinstance(v, Mapping):
            for x in v.values():
                collect(x)
        elif isinstance(v, (list, tuple)):
            for x in v:
                collect(x)
            if all(isinstance(x, str) for x in v):
                leaves.add(tuple(v))
        elif isinstance(v, str):
            leaves.add(v)
    collect(traced)
    tabs = []
    for b in BUILTINS + ['tuple']:
        rows = []
        for leaf in leaves:
            arg = list(leaf) if isinstance(leaf, tuple) else leaf
            try:
                out = vars(builtins)[b](arg)
            except Exception:
                continue
            rows.append(f'({c.value(arg)} {c.value(out)})')
        tabs.append(f'({sx(b)} ({" ".join(rows)}))')
    req = f'(build {t} ({" ".join(tabs)}))'
    return req, model_value_sx(c, plain), model_value_sx(c, m2), gc.text


def flush_build(chk: Check, mr: ModelRun, reqs):
    bad = 0
    replies = mr.ask([r[0] for r in reqs]) if reqs else []
    for (req, plain_sx, model_sx, gtext), rep in zip(reqs, replies):
        chk.count('B1.derivations')
        chk.evaluations += 1
        if isinstance(rep, list) and rep and rep[0] == 'error':
            if rep[1] == 'no-conv':
                chk.count('B1.skipped-conversion-outside-table')
                continue
            bad += 1
            chk.violation('corr:B1:model-error', f'model error {rep}', {'request': req[:3000]})
            continue
        m_plain, m_build, m_erase, m_plainc = rep
        want_plain, want_build = vlib.parse_sx(plain_sx), vlib.parse_sx(model_sx)
        diffs = []
        if m_plain != want_plain:
            diffs.append('plain')
        if m_build != want_build:
            diffs.append('build')
        if m_erase != m_plainc:
            diffs.append('erase-vs-plainc')
        if diffs:
            bad += 1
            chk.violation('corr:B1:' + '+'.join(diffs), 'build/plain/erase of ObjModel.v differ from the real parses',
                          {'correspondence': 'B1', 'grammar': gtext, 'request': req[:2500], 'model': str(rep)[:2500],
                           'impl_plain': plain_sx[:1500], 'impl_model': model_sx[:1500]})
    chk.obligation('B1: traced derivations: plain/build/erase of ObjModel.v vs real plain and model parses',
                   'correspondence', bad == 0)


# ------------------------------------------------------------------ R1: class synthesis histories
def mro_names(cls):
    out = []
    for c in cls.__mro__:
        if c is Node:
            break
        out.append(c.__name__)
    return out


def run_registry(chk: Check, mr: ModelRun):
    rng = chk.rng
    nh = 40 if chk.quick else 600
    reqs, reals = [], []
    viol = 0
    for h in range(nh):
        tag = f'{RUN}R{next(_seq)}x'
        pool = [f'{tag}{c}' for c in 'ABCD']
        hist = []
        for _ in range(rng.randint(1, 5)):
            k = rng.randint(1, 3)
            hist.append(rng.sample(pool, k))
        real = []
        declared_before: dict = {}
        for spec in hist:
            sem = ModelBuilderSemantics()
            node = sem._default('x', '::'.join(spec))
            got = mro_names(type(node))
            real.append(got)
            if got != spec:
                redeclared = any(s in declared_before for s in spec)
                sig = 'bases:name-redeclared-first-synthesis-wins' if redeclared else 'bases:other'
                viol += 1
                chk.violation(sig, f'rule annotated {"::".join(spec)} built an instance whose class chain is {got}',
                              {'oracle': 'declared base classes', 'history': hist, 'spec': spec, 'got': got})
            for i, s in enumerate(spec):
                declared_before.setdefault(s, spec[i:])
        reqs.append('(declare (' + ' '.join('(' + ' '.join(sx(n) for n in spec) + ')' for spec in hist) + '))')
        reals.append((hist, real))
        chk.case('reg:' + json.dumps(hist), nontrivial=len(hist) > 1)
        chk.count('R1.histories')
    bad = 0
    for (hist, real), rep in zip(reals, mr.ask(reqs)):
        model = [names(m) for m in rep] if rep != 'nil' else []
        if model != real:
            bad += 1
            chk.violation('corr:R1', 'class chains differ from the registry model', {'history': hist, 'impl': real, 'model': model})
    chk.obligation('R1: synthesis histories vs registry model', 'correspondence', bad == 0)
    # replay of the Coq witness C07_synth_declared_bases_refuted: A::B then A::C
    tag = f'{RUN}W{next(_seq)}x'
    a, b, c = tag + 'A', tag + 'B', tag + 'C'
    ModelBuilderSemantics()._default('x', f'{a}::{b}')
    got = mro_names(type(ModelBuilderSemantics()._default('x', f'{a}::{c}')))
    chk.obligation('witness replay: A::B then A::C keeps base B (C07_synth_declared_bases_refuted)', 'witness',
                   got == [a, b], str(got))
    if got != [a, c]:
        chk.violation('bases:name-redeclared-first-synthesis-wins', f'{a}::{c} after {a}::{b} has chain {got}',
                      {'oracle': 'declared base classes', 'history': [[a, b], [a, c]], 'got': got})


# ------------------------------------------------------------------ W1: walker classes, dispatch and use histories
# A history is a list of steps over ONE family of trees (the model parses of one grammar, synthesized and generated
# classes):  ('def', parent, mixin, {method name: recurse})  declares walker class number <position among defs> below a
# stock walker ('dfs' 'post' 'bfs' 'plain') or below an earlier class of the history (int);  ('use', class, tree, again)
# instantiates the class and walks the tree (twice with the same instance when `again`).  Classes are declared at the
# moment their step runs, i.e. possibly after their parents have been used.
# Oracle (independent of tatsu): the handler of a node is a function of (walker class, node class) only - the first
# class in the node's MRO for which the walker class has walk_<Name> / walk__<snake> / walk_<snake> (in this order),
# else the first of _walk__default _walk_default walk__default walk_default, else none - whatever was declared or
# walked before; the traversal orders are pre-order / post-order / level order over children() whoever handles.
STOCK = {'dfs': DepthFirstWalker, 'post': PostOrderDepthFirstWalker, 'bfs': BreadthFirstWalker}
DEFAULT_METHODS = ['_walk__default', '_walk_default', 'walk__default', 'walk_default']


def snake(name: str) -> str:
    """CamelCase -> snake_case written from the documentation (own implementation, not tatsu's pythonize_name)"""
    out = []
    for i, ch in enumerate(name):
        if i and ch.isupper():
            prev = name[i - 1]
            nxt = name[i + 1] if i + 1 < len(name) else ''
            if prev.islower() or prev.isdigit() or (nxt.islower() and prev != '_'):
                out.append('_')
        out.append(ch.lower())
    return ''.join(out)


def method_forms(clsname: str) -> list[str]:
    s = snake(clsname)
    return ['walk_' + clsname, 'walk__' + s, 'walk_' + s.lstrip('_')]


def node_orders(root):
    """pre-order, post-order, level order over children() (own traversals)"""
    pre, post = [], []

    def go(n):
        pre.append(n)
        for c in n.children():
            go(c)
        post.append(n)
    go(root)
    bfs, queue = [], [root]
    while queue:
        n = queue.pop(0)
        bfs.append(n)
        queue.extend(n.children())
    return {'dfs': pre, 'post': post, 'bfs': bfs}


class History:
    """runs a history with freshly declared walker classes and compares every use with the oracle"""

    def __init__(self, steps, trees, oracle=True):
        self.steps = steps
        self.trees = trees
        self.oracle = oracle          # False: only record the lookups for D1 (methods named after any class of the MRO)
        self.log: list = []
        self.classes: list = []       # (class, kind, own methods)
        self.failure = None           # (what, shape, detail) of the first failing use
        self.d1: list = []            # the history as the model sees it: declarations and lookups with real outcomes
        self.d1_valid = True
        self.visits: list = []

    def handler(self, owner, mname, recurse):
        log = self.log

        def h(self_, node, *args, **kwargs):
            log.append((owner, mname, node, kwargs.get('children')))
            if recurse:
                self_.walk_children(node)
            return node
        h.__name__ = mname
        return h

    def declare(self, parent, mixin, methods):
        idx = len(self.classes)
        if isinstance(parent, int):
            base, kind, _ = self.classes[parent]
        else:
            base, kind = (STOCK[parent] if parent in STOCK else NodeWalker), parent
        ns = {m: self.handler(idx, m, rec and kind == 'plain') for m, rec in methods.items()}
        name = f'{RUN}W{next(_seq)}'
        if mixin:
            mx = type(name + 'Mixin', (), ns)
            cls = types.new_class(name, (mx, base))
        else:
            cls = types.new_class(name, (base,), exec_body=lambda d: d.update(ns))
        self.classes.append((cls, kind, dict(methods)))
        return cls

    # -- oracle
    def methods_of(self, idx):
        """method name -> (declaring class of the history, recurse): nearest declaration along the walker's ancestry"""
        out: dict = {}
        chain = []
        i = idx
        while isinstance(i, int):
            chain.append(i)
            i = self.parents[i]
        for j in reversed(chain):
            for m, rec in self.classes[j][2].items():
                out[m] = (j, rec and self.classes[j][1] == 'plain')
        return out

    def resolve(self, methods, node):
        for c in type(node).__mro__:
            for m in method_forms(c.__name__):
                if m in methods:
                    return m, methods[m]
        for m in DEFAULT_METHODS:
            if m in methods:
                return m, methods[m]
        return None

    def expected(self, idx, root):
        methods = self.methods_of(idx)
        kind = self.classes[idx][1]
        out = []
        if kind == 'plain':
            self.visits = []

            def sim(n):
                self.visits.append(n)
                r = self.resolve(methods, n)
                if r is None:
                    return
                out.append((r[1][0], r[0], n, None))
                if r[1][1]:
                    for c in n.children():
                        sim(c)
            sim(root)
            return out, root
        orders = node_orders(root)
        self.visits = list(orders[kind])
        for n in orders[kind]:
            r = self.resolve(methods, n)
            if r is not None:
                # the post-order walker hands every handler the results for the node's children (here: the children)
                out.append((r[1][0], r[0], n, tuple(n.children()) if kind == 'post' else None))
        # the post-order walk yields the result for the root only; the others one result per node in visit order
        return out, ((root,) if kind == 'post' else tuple(orders[kind]))

    def run(self):
        self.parents = []
        ndef = 0
        for step in self.steps:
            if step[0] == 'def':
                _, parent, mixin, methods = step
                self.parents.append(parent)
                self.declare(parent, mixin, methods)
                self.d1.append(('decl', ndef))
                ndef += 1
                continue
            _, idx, ti, again = step
            cls, kind, _ = self.classes[idx]
            root = self.trees[ti]
            want, want_result = self.expected(idx, root)
            w = cls()
            for rnd in range(2 if again else 1):
                del self.log[:]
                try:
                    result = w.walk(root)
                except Exception as e:                      # noqa: BLE001
                    self.failure = (f'raises-{type(e).__name__}', kind, {'step': list(step), 'error': str(e)[:200]})
                    return self
                got = list(self.log)
                # D1: the lookups of this walk (one per visited node, in visit order) with the real outcome
                by_node = {}
                for g in got:
                    by_node.setdefault(id(g[2]), []).append(g[1])
                if any(len(v) > 1 for v in by_node.values()):
                    self.d1_valid = False
                self.d1.append(('look', idx, ti, [(type(n).__name__, by_node.get(id(n), [None])[0]) for n in self.visits]))
                bad = self.compare(kind, got, want, result, want_result) if self.oracle else None
                if bad:
                    shape, detail = bad
                    detail.update({'step': list(step), 'walker_kind': kind, 'second_walk_of_instance': rnd == 1})
                    self.failure = (shape, kind, detail)
                    return self
        return self

    def compare(self, kind, got, want, result, want_result):
        def ids(nodes):
            return [id(n) for n in nodes]
        gn, wn = ids(g[2] for g in got), ids(w[2] for w in want)
        if gn != wn:
            if sorted(gn) == sorted(wn):
                return 'order', {'got_classes': [type(g[2]).__name__ for g in got], 'want_classes': [type(w[2]).__name__ for w in want]}
            what = 'handles-too-few' if len(gn) < len(wn) else 'handles-too-many'
            if set(wn) - set(gn) and set(gn) - set(wn):
                what = 'handles-other-nodes'
            return what, {'got_classes': [type(g[2]).__name__ for g in got], 'want_classes': [type(w[2]).__name__ for w in want]}
        for g, w in zip(got, want):
            if (g[0], g[1]) != (w[0], w[1]):
                rel = 'same-method-name-of-another-class' if g[1] == w[1] else 'another-method-name'
                if g[1] in DEFAULT_METHODS:
                    rel += '-got-default'
                if w[1] in DEFAULT_METHODS:
                    rel += '-want-default'
                return 'wrong-handler:' + rel, {'node_class': type(g[2]).__name__, 'node_mro': [c.__name__ for c in type(g[2]).__mro__],
                                                'got': [g[0], g[1]], 'want': [w[0], w[1]]}
        if kind == 'post':
            for g, w in zip(got, want):
                if g[3] is None or ids(g[3]) != ids(w[3]):
                    return 'post-children-argument', {'node_class': type(g[2]).__name__}
        if kind == 'plain':
            if result is not want_result:
                return 'result', {}
        elif not isinstance(result, tuple) or ids(result) != ids(want_result):
            return 'result', {'got_len': len(result) if isinstance(result, tuple) else None, 'want_len': len(want_result)}
        return None


def gen_history(rng, universe, ntrees, kinds=('dfs', 'dfs', 'post', 'bfs', 'bfs', 'plain')):
    """universe: node class names of the trees (most derived first is not required) + Node"""
    steps: list = []
    defs: list = []                    # per class: (kind, method names)
    used: set = set()
    nsteps = rng.randint(5, 9)

    def methods_for(parent_methods, kind):
        ms: dict = {}
        for _ in range(rng.choice([0, 1, 1, 2, 2, 3])):
            target = rng.choice(universe)
            forms = method_forms(target)
            m = forms[rng.choice([0, 0, 0, 1, 1, 2])]
            ms[m] = rng.random() < 0.8
            if rng.random() < 0.1:     # a second spelling for the same class: the priority of the forms decides
                ms[rng.choice(forms)] = rng.random() < 0.8
        if parent_methods and rng.random() < 0.3:
            ms[rng.choice(sorted(parent_methods))] = rng.random() < 0.8      # override
        if rng.random() < 0.3:
            ms[rng.choice(DEFAULT_METHODS)] = rng.random() < 0.8
            if rng.random() < 0.2:
                ms[rng.choice(DEFAULT_METHODS)] = rng.random() < 0.8
        return ms

    def inherited(i):
        acc: set = set()
        while isinstance(i, int):
            acc |= set(defs[i][2])
            i = defs[i][1]
        return acc

    for s in range(nsteps):
        if not defs or rng.random() < 0.4:
            if defs and rng.random() < 0.65:
                # prefer a parent that has already been used: the subclass is born after its parent worked
                cands = [i for i in range(len(defs)) if i in used] or list(range(len(defs)))
                parent = rng.choice(cands)
                kind = defs[parent][0]
                pm = inherited(parent)
            else:
                parent = kind = rng.choice(kinds)
                pm = set()
            ms = methods_for(pm, kind)
            if not isinstance(parent, int) and not ms:
                ms = {'walk_Node': True}
            steps.append(('def', parent, rng.random() < 0.15, ms))
            defs.append((kind, parent, ms))
        else:
            idx = rng.choice([len(defs) - 1, rng.randrange(len(defs))])
            steps.append(('use', idx, rng.randrange(ntrees), rng.random() < 0.2))
            used.add(idx)
    if not any(s[0] == 'use' for s in steps):
        steps.append(('use', len(defs) - 1, 0, False))
    return steps


def shrink_history(steps, trees, shape):
    """greedy: drop steps / methods while the same failure shape remains"""
    def fails(st):
        try:
            f = History(st, trees).run().failure
        except Exception:                                   # noqa: BLE001  (invalid history after a removal)
            return False
        return f is not None and f[0] == shape

    def drop(st, i):
        """steps without step i; class indices above a removed def shift down; None when i is still referenced"""
        if st[i][0] == 'use':
            return st[:i] + st[i + 1:]
        k = sum(1 for s in st[:i] if s[0] == 'def')
        out = []
        for j, s in enumerate(st):
            if j == i:
                continue
            if s[0] == 'def':
                p = s[1]
                if isinstance(p, int):
                    if p == k:
                        return None
                    p = p - 1 if p > k else p
                out.append(('def', p, s[2], s[3]))
            else:
                if s[1] == k:
                    return None
                out.append(('use', s[1] - 1 if s[1] > k else s[1], s[2], s[3]))
        return out
    changed = True
    while changed:
        changed = False
        for i in range(len(steps) - 1, -1, -1):
            cand = drop(steps, i)
            if cand and fails(cand):
                steps, changed = cand, True
                break
        else:
            for i, s in enumerate(steps):
                if s[0] == 'use' and s[3]:
                    cand = steps[:i] + [('use', s[1], s[2], False)] + steps[i + 1:]
                    if fails(cand):
                        steps, changed = cand, True
                        break
                if s[0] != 'def':
                    continue
                if s[2]:
                    cand = steps[:i] + [('def', s[1], False, s[3])] + steps[i + 1:]
                    if fails(cand):
                        steps, changed = cand, True
                        break
                for m in sorted(s[3]):
                    cand = steps[:i] + [('def', s[1], s[2], {k: v for k, v in s[3].items() if k != m})] + steps[i + 1:]
                    if fails(cand):
                        steps, changed = cand, True
                        break
                if changed:
                    break
    return steps


def history_shape(steps):
    """shape class of a (shrunk) failing history for the signature"""
    feats = []
    defs = [s for s in steps if s[0] == 'def']
    seen_use: set = set()
    k = 0
    for s in steps:
        if s[0] == 'use':
            seen_use.add(s[1])
        else:
            if isinstance(s[1], int) and s[1] in seen_use:
                feats.append('subclass-declared-after-parent-walked')
            k += 1
    if len(defs) > 1 and not feats:
        feats.append('several-walker-classes')
    if any(s[0] == 'def' and s[2] for s in steps):
        feats.append('mixin')
    if any(s[0] == 'use' and s[3] for s in steps):
        feats.append('instance-reused')
    if len({s[2] for s in steps if s[0] == 'use'}) > 1 or sum(1 for s in steps if s[0] == 'use') > 1:
        feats.append('several-walks')
    return '+'.join(sorted(set(feats))) or 'single-class-single-walk'


def class_graph(root):
    """class name -> names of __bases__ for every class in the MRO of every node class of the tree; None when two
    classes share a name or a qualified name differs from the name (the cache key is __qualname__)"""
    g: dict = {}
    owner: dict = {}
    for n in node_orders(root)['dfs']:
        for c in type(n).__mro__:
            if owner.setdefault(c.__name__, c) is not c or c.__qualname__ != c.__name__:
                return None
            g[c.__name__] = [b.__name__ for b in c.__bases__]
    return g


def dispatch_request(h: History, graphs):
    """the history as a request to ObjModel.run_walkers and the real outcome of every lookup"""
    from tatsu.util import pythonize_name
    if not h.d1_valid:
        return None
    steps, real, used_graphs = [], [], {}
    for st in h.d1:
        if st[0] == 'decl':
            steps.append(f'(decl {st[1]})')
            continue
        _, idx, ti, looks = st
        if graphs[ti] is None:
            return None
        used_graphs[ti] = graphs[ti]
        for cname, mname in looks:
            steps.append(f'(look {idx} {ti} {sx(cname)})')
            real.append(mname)
    walkers = []
    for i, (cls, _, _) in enumerate(h.classes):
        ms = sorted(m for m in dir(cls) if m.startswith(('walk_', '_walk_')) and callable(getattr(cls, m, None)))
        walkers.append(f'({i} ({" ".join(sx(m) for m in ms)}))')
    cnames = sorted({c for g in used_graphs.values() for c in g})
    snk = ' '.join(f'({sx(c)} {sx(pythonize_name(c))})' for c in cnames)
    gs = ' '.join('(' + str(ti) + ' (' + ' '.join(f'({sx(c)} ({" ".join(sx(b) for b in bs)}))' for c, bs in g.items()) + '))'
                  for ti, g in used_graphs.items())
    return f'(dispatch 4000 ({snk}) ({" ".join(walkers)}) ({gs}) ({" ".join(steps)}))', real


def flush_dispatch(chk: Check, mr: ModelRun, batch):
    bad = 0
    replies = mr.ask([b[0] for b in batch]) if batch else []
    for (req, real, info), rep in zip(batch, replies):
        chk.count('D1.histories')
        chk.evaluations += 1
        if isinstance(rep, list) and rep and rep[0] in ('error', 'timeout'):
            bad += 1
            chk.violation('corr:D1:model-error', f'model error {rep}', dict(info, request=req[:3000]))
            continue
        model = [None if r == 'none' else (vlib.sx_str(r[1]) if r[1] != [] else '<out-of-fuel>') for r in rep]
        chk.count('D1.lookups', len(real))
        if model != real:
            bad += 1
            k = next(i for i, (a, b) in enumerate(zip(model, real)) if a != b) if len(model) == len(real) else -1
            chk.violation('corr:D1', 'walker dispatch of a declaration / walk history differs from ObjModel.run_walkers',
                          dict(info, correspondence='D1', first_difference=k,
                               impl=real[max(0, k - 3):k + 3], model=model[max(0, k - 3):k + 3], request=req[:4000]))
    chk.obligation('D1: walker declaration / lookup histories: real handlers vs ObjModel.run_walkers (cache, search order)',
                   'correspondence', bad == 0)


def witness_dispatch(chk: Check):
    """replay of C07_dispatch_multiple_inheritance_order: a synthesized P::Q node, walker with walk_Node and walk_BaseNode"""
    tag = f'{RUN}X{next(_seq)}x'
    node = ModelBuilderSemantics()._default('x', f'{tag}P::{tag}Q')
    one = ModelBuilderSemantics()._default('x', f'{tag}R')
    seen = []

    class W(NodeWalker):
        def walk_Node(self, n, *a, **k):
            seen.append('walk_Node')

        def walk_BaseNode(self, n, *a, **k):
            seen.append('walk_BaseNode')
    W().walk(node)
    W().walk(one)
    chk.obligation('witness replay: walk_BaseNode before walk_Node for a synthesized P::Q node, walk_Node for a plain P '
                   '(C07_dispatch_multiple_inheritance_order)', 'witness', seen == ['walk_BaseNode', 'walk_Node'], str(seen))


def declared_depth(cls):
    n = 0
    for c in cls.__mro__:
        if c is Node:
            break
        if c.__name__ not in ('ModelBase', 'SynthNode'):
            n += 1
    return n


def catch_all_probe(chk: Check, gc, wpool):
    """docs/models.rst: "If a walk method for a node class is not found, then a method for the class's bases is
    searched.  That makes is possible to write catch-all methods such as walk_Node ... walk_object" - a walker with both
    must hand every Node to walk_Node, however long the declared chain of the node's class is.  Returns whether a tree
    has a class with four or more declared classes below Node."""
    deep = False
    for text, root, family in wpool:
        log: list = []

        class CatchAll(DepthFirstWalker):
            def walk_Node(self, node, *args, **kwargs):
                log.append((node, 'walk_Node'))

            def walk_object(self, node, *args, **kwargs):
                log.append((node, 'walk_object'))
        CatchAll().walk(root)
        chk.count('W1.catch-all-probes')
        seen = set()
        for node, m in log:
            d = declared_depth(type(node))
            deep = deep or d >= 4
            if m != 'walk_Node' and isinstance(node, Node) and (d, family) not in seen:
                seen.add((d, family))
                chk.violation(f'walk-dispatch:catch-all:walk_object-before-walk_Node:{family}:declared-chain-of-{min(d, 4)}{"+" if d >= 4 else ""}',
                              f'a walker with walk_Node and walk_object hands a {family} node whose class has {d} declared '
                              f'classes below Node to walk_object',
                              {'oracle': 'W1 catch-all probe (docs/models.rst)', 'grammar': gc.text, 'input': text,
                               'node_class': type(node).__name__, 'node_mro': [c.__name__ for c in type(node).__mro__]})
    return deep


def run_dispatch(chk: Check, gc, wpool, nhist, d1_batch):
    """wpool: [(text, root, family)] model trees of the grammar gc (synthesized and generated classes)"""
    rng = chk.rng
    trees = [p[1] for p in wpool]
    names_: list = []
    for t in trees:
        for n in node_orders(t)['dfs']:
            for c in type(n).__mro__:
                if c is Node:
                    break
                if c.__name__ not in names_ and c.__name__ not in ('ModelBase', 'SynthNode'):
                    names_.append(c.__name__)
    universe = sorted(names_) + ['Node', 'Node']
    # (classes whose names are case variants of one another: every second method of a history is named after one of them)
    twins = [n for n in getattr(gc, 'twins', []) if n in names_]
    if len(twins) > 1:
        universe += twins * max(1, len(universe) // len(twins))
    graphs = [class_graph(t) for t in trees]
    deep = catch_all_probe(chk, gc, wpool)
    if rng.random() < 0.3 and not deep:
        # (with four or more declared classes below Node the catch-all probe above owns the walk_object question)
        universe.append('object')
    # every class of the MROs (BaseNode, SynthNode, ModelBase, JSONBase, AsJSONMixin, object ...): for these the order is
    # the code's own stack walk, checked against ObjModel.search only (D1), not against the nearest-first oracle
    wide = sorted({c for g in graphs if g for c in g})
    bad = 0
    for hi in range(nhist + 1):
        if hi == nhist:
            if not wide:
                break
            steps = gen_history(rng, wide, len(trees), kinds=('dfs', 'post', 'bfs'))
            h = History(steps, trees, oracle=False).run()
            chk.count('D1.histories-over-all-mro-classes')
        else:
            steps = gen_history(rng, universe, len(trees))
            h = History(steps, trees).run()
        dr = dispatch_request(h, graphs)
        if dr:
            d1_batch.append((dr[0], dr[1], {'grammar': gc.text, 'inputs': [p[0] for p in wpool],
                                            'tree_families': [p[2] for p in wpool], 'history': [list(s) for s in steps]}))
        else:
            chk.count('D1.skipped')
        chk.case('hist:' + gc.text + json.dumps(steps) + '|'.join(p[0] for p in wpool),
                 nontrivial=sum(1 for s in steps if s[0] == 'use') > 0 and sum(1 for s in steps if s[0] == 'def') > 1)
        chk.count('W1.histories')
        chk.count('W1.walks', sum(1 for s in steps if s[0] == 'use'))
        for s in steps:
            if s[0] == 'def':
                chk.count('W1.classes.' + (s[1] if isinstance(s[1], str) else 'derived'))
        if h.failure:
            bad += 1
            shape = h.failure[0]
            small = shrink_history(list(steps), trees, shape)
            f = History(small, trees).run().failure or h.failure
            chk.violation(f'walk-dispatch:{f[1]}:{f[0]}:{history_shape(small)}',
                          f'walker history: {f[0]} ({history_shape(small)})',
                          {'oracle': 'W1 walker dispatch / traversal histories', 'grammar': gc.text,
                           'inputs': [p[0] for p in wpool], 'tree_families': [p[2] for p in wpool],
                           'history': [list(s) for s in small], 'detail': f[2], 'unshrunk_history': [list(s) for s in steps]})
    return bad


def small_model_grammar(rng, tag):
    """a few typed rules (single names and chains `T`, `T::U0`, `T::U1::U0`) whose nodes nest through an optional and
    sit in the list of a typed start rule; -> (grammar text, sentences)"""
    n = rng.randint(2, 4)
    lines = [f'@@grammar :: {tag}', f'start::{tag}Doc = items:{{ item }}* $ ;',
             'item = ' + ' | '.join(f'r{i}' for i in range(n)) + ' ;']
    for i in range(n):
        chain = [f'{tag}T{i}'] + rng.choice([[], [], [f'{tag}U0'], [f'{tag}U1', f'{tag}U0']])
        lines.append(f"r{i}::{'::'.join(chain)} = '{i}' x:/[a-z]+/ [ '(' y:item ')' ] ;")

    def item(d):
        s = f'{rng.randrange(n)}{rng.choice(["a", "bc", "foo"])}'
        return s + (f'({item(d - 1)})' if d > 0 and rng.random() < 0.5 else '')
    texts = sorted({' '.join(item(2) for _ in range(rng.randint(1, 3))) for _ in range(3)}, key=len)
    return '\n'.join(lines) + '\n', texts


# ------------------------------------------------------------------ C1: concurrent first use of type names
# The property speaks of THE class of a name: class synthesis is keyed by name in a process-wide registry, and parsers
# run in threads (one compiled parser shared by the workers of a server, or one parser per worker).  Family: several
# threads meet type names that have never been synthesized at the same moment - own parsers, one parser with one
# semantics object per thread, one model-building parser for all; same or rotated input order; some classes (bases or
# leaves) already known; and the builder API called directly.  The interleaving is driven, not hoped for: the node
# base type given to the builders has an __init_subclass__ hook (a project base class that keeps track of its
# subclasses), and while a race is on the hook keeps the creating thread inside class creation until every other
# working thread has either finished or come to rest inside synthesize() - i.e. the second thread always arrives while
# the first is still creating the class.
# Oracle (no knowledge of how synthesize() synchronizes): per type name exactly one class is created, however many
# threads asked; every node of that name, in every thread's trees, is an instance of that one class, which is the class
# the registry answers with afterwards; nobody raises; each tree is what the property prescribes for the traced
# derivation (class names, declared MRO, attributes) and erases to the plain AST.
_GATE: list = [None]


class Gate:
    def __init__(self):
        self.created: list = []       # (class name, class) in creation order, all threads
        self.live: dict = {}          # thread ident -> still working
        self.longest_hold = 0.0

    @staticmethod
    def resting_place(tid):
        """where a thread is inside synthesize() (frame, instruction) or None when it is somewhere else"""
        f = sys._current_frames().get(tid)
        while f is not None:
            if f.f_code.co_name == 'synthesize':
                return (id(f), f.f_lasti)
            f = f.f_back
        return None

    def on_class(self, cls):
        me = threading.get_ident()
        self.created.append((cls.__name__, cls))
        t0 = time.perf_counter()
        last: dict = {}
        while time.perf_counter() - t0 < 1.0:
            settled = True
            for tid, alive in list(self.live.items()):
                if tid == me or not alive:
                    continue
                pos = self.resting_place(tid)
                if pos is None or last.get(tid) != pos:
                    settled = False
                last[tid] = pos
            if settled:
                break
            time.sleep(0.001)
        self.longest_hold = max(self.longest_hold, time.perf_counter() - t0)


class V7Hooked(Node):
    """a project's base node class that is told about every subclass"""

    def __init_subclass__(cls, **kwargs):
        super().__init_subclass__(**kwargs)
        gate = _GATE[0]
        if gate is not None:
            gate.on_class(cls)


HOOKED_MRO = ['V7Hooked'] + BASE_MRO


def race(jobs):
    """runs the callables, one thread each, released together; -> ([('ok', value) | ('raises', exc) | ('hangs',)], gate)"""
    gate = Gate()
    start = threading.Barrier(len(jobs))
    results: list = [('hangs',)] * len(jobs)

    def work(j):
        me = threading.get_ident()
        gate.live[me] = True
        try:
            start.wait(timeout=20)
            results[j] = ('ok', jobs[j]())
        except Exception as e:                              # noqa: BLE001
            results[j] = ('raises', e)
        finally:
            gate.live[me] = False
    threads = [threading.Thread(target=work, args=(j,), daemon=True) for j in range(len(jobs))]
    _GATE[0] = gate
    try:
        for t in threads:
            t.start()
        for t in threads:
            t.join(timeout=30)
    finally:
        _GATE[0] = None
    return results, gate


def registered_class(name):
    """the class the process-wide registry holds for a name that is known to exist (get-or-create gets)"""
    return synthesize(name, ())


def retag(gc):
    """the same grammar under class names that this process has never seen"""
    g2 = copy.copy(gc)
    g2.tag = f'{RUN}C{next(_seq)}x'
    g2.text = gc.text.replace(gc.tag, g2.tag)
    g2.read_declarations()
    return g2


FAILURE_PRIORITY = ['hangs', 'raises', 'class-created-more-than-once', 'known-class-created-again', 'two-classes-of-one-name',
                    'not-the-registered-class', 'not-below-the-registered-base', 'bases-differ-from-the-declared-chain',
                    'tree-differs-from-the-derivation', 'mirror']


def primary(fails):
    """the failure that names the signature: the first of FAILURE_PRIORITY among the failure kinds of a race"""
    return min(fails, key=lambda f: FAILURE_PRIORITY.index(f.split('-')[0] if f.startswith('raises') else f)) if fails else None


PARSE_ARRANGEMENTS = ['own-parsers', 'one-parser-own-semantics', 'one-model-parser']


def parse_race(gc0, texts, nthreads, arrangement, warm, rotate):
    """one race over a freshly named copy of the grammar; -> (sorted failure kinds, detail, evidence counters)"""
    gc = retag(gc0)
    fails: set = set()
    detail: dict = {'grammar': gc.text}
    plain_p = tatsu.compile(gc.text, name=gc.tag + 'p')
    if arrangement == 'own-parsers':
        parsers = [plain_p] + [tatsu.compile(gc.text, name=gc.tag + f'p{j}') for j in range(1, nthreads)]
    elif arrangement == 'one-parser-own-semantics':
        parsers = [plain_p] * nthreads
    else:
        parsers = [tatsu.compile(gc.text, name=gc.tag + 'm', basetype=V7Hooked)] * nthreads
    warm_names = [gc.tag + w for w in warm if gc.tag + w in gc.declared]
    for n in sorted(warm_names, key=lambda n: len(gc.ancestors(n))):
        ModelBuilderSemantics(basetype=V7Hooked)._default('x', '::'.join([n] + gc.ancestors(n)))
    known_before = set()
    for n in warm_names:
        known_before |= {n, *gc.ancestors(n)}

    def job(j):
        k = j % len(texts) if rotate else 0
        order = texts[k:] + texts[:k]
        sem = None if arrangement == 'one-model-parser' else ModelBuilderSemantics(basetype=V7Hooked)

        def run():
            return {t: (parsers[j].parse(t) if sem is None else parsers[j].parse(t, semantics=sem)) for t in order}
        return run
    results, gate = race([job(j) for j in range(nthreads)])
    created: dict = {}
    for n, c in gate.created:
        created.setdefault(n, []).append(c)
    for n, cs in created.items():
        if len(cs) > 1:
            fails.add('class-created-more-than-once')
            detail.setdefault('created', {})[n] = len(cs)
        if n in known_before:
            fails.add('known-class-created-again')
    seen: dict = {}                     # class name -> class objects met in the trees
    wants: dict = {}
    plains: dict = {}
    for t in texts:
        plains[t] = plain_p.parse(t)
        wants[t] = expect_from_marks(plain_p.parse(t, semantics=TraceSemantics()), gc.ancestors, base_mro=HOOKED_MRO)
    for j, r in enumerate(results):
        if r[0] == 'hangs':
            fails.add('hangs')
            continue
        if r[0] == 'raises':
            fails.add(f'raises-{type(r[1]).__name__}')
            detail.setdefault('errors', []).append(f'thread {j}: {r[1]!r}'[:300])
            continue
        for t, tree in r[1].items():
            nodes: list = []
            brute_nodes(tree, nodes, cross=True)
            for n in uniq(nodes):
                seen.setdefault(type(n).__name__, [])
                if not any(type(n) is c for c in seen[type(n).__name__]):
                    seen[type(n).__name__].append(type(n))
            if canon_model(tree) != wants[t]:
                fails.add('tree-differs-from-the-derivation')
                detail.setdefault('tree', {'thread': j, 'input': t, 'got': json.dumps(canon_model(tree), default=str)[:1200],
                                           'want': json.dumps(wants[t], default=str)[:1200]})
            if not conv_equal(erase_model(tree), plain_json(plains[t]), gc.builtin):
                fails.add('mirror')
    for name, classes in seen.items():
        if len(classes) > 1:
            fails.add('two-classes-of-one-name')
            detail.setdefault('classes_per_name', {})[name] = len(classes)
        reg = registered_class(name)
        if any(c is not reg for c in classes):
            fails.add('not-the-registered-class')
        for c in classes:
            for a in gc.ancestors(name):
                if not issubclass(c, registered_class(a)):
                    fails.add('not-below-the-registered-base')
    stats = {'classes': len(created), 'names-in-trees': len(seen), 'hold': gate.longest_hold}
    return sorted(fails), detail, stats


def gen_direct_race(rng):
    """a declared forest over six names and per thread a sequence of names to ask for (always with the whole chain)"""
    n = 6
    parent: list = []
    for i in range(n):
        parent.append(rng.randrange(i) if i and rng.random() < 0.7 else None)
    nthreads = rng.choice([2, 2, 3])
    asks = [[rng.randrange(n) for _ in range(rng.randint(1, 4))] for _ in range(nthreads)]
    if rng.random() < 0.6:              # everybody starts with the same name
        for a in asks:
            a[0] = asks[0][0]
    warm = [i for i in range(n) if rng.random() < 0.2]
    return {'parent': parent, 'asks': asks, 'warm': warm, 'shared_semantics': rng.random() < 0.3}


def direct_race(spec):
    tag = f'{RUN}Q{next(_seq)}x'
    parent = spec['parent']

    def chain(i):
        out = [i]
        while parent[out[-1]] is not None:
            out.append(parent[out[-1]])
        return [f'{tag}N{k}' for k in out]
    fails: set = set()
    detail: dict = {}
    known_before: set = set()
    for i in spec['warm']:
        ModelBuilderSemantics(basetype=V7Hooked)._default('x', '::'.join(chain(i)))
        known_before |= set(chain(i))
    shared = ModelBuilderSemantics(basetype=V7Hooked) if spec['shared_semantics'] else None

    def job(seq):
        sem = shared or ModelBuilderSemantics(basetype=V7Hooked)

        def run():
            out = []
            for i in seq:
                c = chain(i)
                if len(c) == 1 and i % 2:
                    out.append((i, synthesize(c[0], (V7Hooked,))))
                else:
                    out.append((i, type(sem._default('x', '::'.join(c)))))
            return out
        return run
    results, gate = race([job(seq) for seq in spec['asks']])
    created: dict = {}
    for n, c in gate.created:
        created.setdefault(n, []).append(c)
    for n, cs in created.items():
        if len(cs) > 1:
            fails.add('class-created-more-than-once')
            detail.setdefault('created', {})[n] = len(cs)
        if n in known_before:
            fails.add('known-class-created-again')
    seen: dict = {}
    for j, r in enumerate(results):
        if r[0] == 'hangs':
            fails.add('hangs')
        elif r[0] == 'raises':
            fails.add(f'raises-{type(r[1]).__name__}')
            detail.setdefault('errors', []).append(f'thread {j}: {r[1]!r}'[:300])
        else:
            for i, cls in r[1]:
                name = chain(i)[0]
                if not any(cls is c for c in seen.setdefault(name, [])):
                    seen[name].append(cls)
                if mro_names(cls) != chain(i) + ['V7Hooked']:
                    fails.add('bases-differ-from-the-declared-chain')
                    detail['chain'] = {'declared': chain(i), 'got': mro_names(cls)}
    for name, classes in seen.items():
        if len(classes) > 1:
            fails.add('two-classes-of-one-name')
        reg = registered_class(name)
        if any(c is not reg for c in classes):
            fails.add('not-the-registered-class')
        for c in classes:
            for a in c.__mro__[1:]:
                if a.__name__.startswith(tag) and a is not registered_class(a.__name__):
                    fails.add('not-below-the-registered-base')
    return sorted(fails), detail, {'classes': len(created), 'hold': gate.longest_hold}


def run_concurrent(chk: Check):
    rng = random.Random(f'C07-C1-{chk.seed}')       # own stream: the grammars of a seed stay what they were
    bad = 0
    nbig, nparse = (3, 9) if chk.quick else (12, 60)
    ndirect = 24 if chk.quick else 300
    longest = 0.0
    for i in range(nparse):
        arrangement = PARSE_ARRANGEMENTS[i % len(PARSE_ARRANGEMENTS)]
        if i < nbig:
            gc = GrammarCase(rng, next(_seq), None, forest=False)
            texts = sorted({gc.sentence(rng, rng.randint(1, 3)) for _ in range(3)}, key=len)
        else:
            # (an uncached compile of a ten-rule grammar costs 0.2 s: most races run on small grammars)
            gc = GrammarCase.__new__(GrammarCase)
            gc.tag, gc.builtin = f'{RUN}G{next(_seq)}x', 'str'
            gc.text, texts = small_model_grammar(rng, gc.tag)
            gc.read_declarations()
        nthreads = rng.choice([2, 2, 3])
        rotate = rng.random() < 0.4
        bases = sorted({n[len(gc.tag):] for n in gc.declared})
        warm = [b for b in bases if rng.random() < 0.25] if rng.random() < 0.5 else []
        try:
            fails, detail, stats = parse_race(gc, texts, nthreads, arrangement, warm, rotate)
        except Exception as e:                              # noqa: BLE001  (the setup of a race: compile / reference parses)
            bad += 1
            chk.violation(f'concurrent-first-use:{arrangement}:setup-raises-{type(e).__name__}',
                          f'setting up a race ({arrangement}) raises {type(e).__name__}: {e}'[:300],
                          {'oracle': 'C1 one class per type name under concurrent first use', 'grammar': gc.text,
                           'inputs': texts, 'arrangement': arrangement})
            continue
        longest = max(longest, stats['hold'])
        chk.case(f'race:{gc.text}|{texts}|{nthreads}|{arrangement}|{warm}|{rotate}', nontrivial=stats['classes'] > 0)
        chk.count('C1.parse-races')
        chk.count('C1.parse-races.' + arrangement)
        chk.count('C1.classes-created-during-races', stats['classes'])
        if fails:
            bad += 1
            # shrink: two threads, one input, nothing known before, same order - while the same failures remain
            best = (texts, nthreads, warm, rotate, detail)
            for cand in [(texts, 2, warm, rotate), (texts, 2, [], False)] + [([t], 2, [], False) for t in texts]:
                f2, d2, _ = parse_race(gc, *cand[:2], arrangement, *cand[2:])
                if primary(f2) == primary(fails):
                    best, fails = (*cand, d2), f2
            texts, nthreads, warm, rotate, detail = best
            chk.violation(f'concurrent-first-use:{arrangement}:{primary(fails)}',
                          f'{nthreads} threads building models of the same grammar at the same time ({arrangement}): '
                          + ', '.join(fails),
                          dict(detail, oracle='C1 one class per type name under concurrent first use', inputs=texts,
                               failures=fails,
                               threads=nthreads, arrangement=arrangement, classes_known_before=warm,
                               rotated_input_order=rotate, basetype='a Node subclass with an __init_subclass__ hook that '
                               'keeps the creating thread inside class creation until the other threads rest in synthesize()'))
    for _ in range(ndirect):
        spec = gen_direct_race(rng)
        fails, detail, stats = direct_race(spec)
        longest = max(longest, stats['hold'])
        chk.case('race-direct:' + json.dumps(spec), nontrivial=stats['classes'] > 0)
        chk.count('C1.direct-races')
        chk.count('C1.classes-created-during-races', stats['classes'])
        if fails:
            bad += 1
            small = dict(spec)
            for cand in [dict(spec, asks=[a[:1] for a in spec['asks'][:2]], warm=[]),
                         dict(spec, asks=[a[:1] for a in spec['asks'][:2]]), dict(spec, asks=spec['asks'][:2])]:
                f2, d2, _ = direct_race(cand)
                if primary(f2) == primary(fails):
                    small, detail, fails = cand, d2, f2
                    break
            kind = 'direct-shared-semantics' if small['shared_semantics'] else 'direct'
            chk.violation(f'concurrent-first-use:{kind}:{primary(fails)}',
                          f'{len(small["asks"])} threads asking the model builder for classes of the same names at the '
                          f'same time: ' + ', '.join(fails),
                          dict(detail, oracle='C1 one class per type name under concurrent first use', spec=small,
                               failures=fails,
                               unshrunk_spec=spec))
    chk.obligation('C1: concurrent first use of type names (threads x parsers x semantics objects, driven interleaving): '
                   'one class per name, the registered one, in every thread\'s tree; trees as prescribed', 'oracle', bad == 0)


# ------------------------------------------------------------------ K1: type containers over compile-call histories
# The classes of the generated model module reach the builder through a type container given to a call: typedefs=[module]
# (or a mapping), constructors=[classes], builderconfig=BuilderConfig(typedefs=..), semantics=ModelBuilderSemantics(
# typedefs=..) or the module's own <Name>ModelBuilderSemantics - at compile time or at parse time.  A project regenerates
# its model module while it lives: a new module object under the same name, or importlib.reload() of the rewritten file.
# Family: histories of such calls for ONE grammar text and parser name, over several generations of the module (same
# qualified names, new class objects), going forth and (where the old module object still exists) back, with
# asmodel=True and plain compiles in between.
# Oracle: every node of a step's tree is an instance of the class of that name in the container GIVEN TO THAT STEP
# (synthesized class for asmodel, no node at all for plain), and the tree equals the generated-class / synthesized /
# plain reference of the input - whatever was compiled before.
K1_COMPILE_HOWS = ['compile-typedefs', 'compile-typedefs-mapping', 'compile-constructors', 'compile-builderconfig',
                   'compile-semantics']
K1_PARSE_HOWS = ['parse-time-semantics', 'generated-semantics', 'api-parse-typedefs']
K1_PLAIN_HOWS = ['plain', 'api-parse-plain', 'parse-time-none']                     # no container: generation 0
K1_SYNTH_HOWS = ['asmodel', 'api-parse-asmodel']
# Layouts: `typedefs` is a LIST of containers (modules, mappings, classes used as namespaces) and may be combined with
# `constructors`.  Every step that hands a generation over through typedefs does it in one of these ways: 'one' (the
# module), 'split' (the classes of the generation partitioned over two or three mappings / namespace classes, in a random
# order), 'overlap' (the module and, before or after it, a mapping with some of its classes: a class reachable through
# two containers), 'mixed' (some classes through constructors=, the others through a typedefs mapping).  Written in the
# step as 'kind:seed' so that a shrunk history splits the classes the same way.
K1_LAYOUT_HOWS = ['compile-typedefs', 'compile-builderconfig', 'compile-semantics', 'parse-time-semantics',
                  'api-parse-typedefs']
K1_LAYOUTS = ['one', 'split', 'split', 'overlap', 'mixed']
_SCRATCH: list = []
_kcount = itertools.count()


def layout_containers(layout, mod, classes):
    """-> {'typedefs': [...]} or {'typedefs': [...], 'constructors': [...]} for the classes of one generation"""
    kind, _, seed = layout.partition(':')
    if kind == 'one':
        return {'typedefs': [mod]}
    rng = random.Random(f'C07-K1-layout-{seed}')
    names_ = sorted(classes)
    rng.shuffle(names_)

    def container(group):
        part = {n: classes[n] for n in group}
        if rng.random() < 0.5:
            return part
        # a class used as a namespace (types_defined_in looks at its __module__)
        return type('V7Part', (), {'__module__': mod.__name__, **part})
    if kind == 'split':
        nparts = min(len(names_), rng.choice([2, 2, 3]))
        cuts = sorted(rng.sample(range(1, len(names_)), nparts - 1))
        groups = [names_[a:b] for a, b in zip([0, *cuts], [*cuts, len(names_)])]
        return {'typedefs': [container(g) for g in groups]}
    some = names_[:rng.randint(1, max(1, len(names_) - 1))]
    if kind == 'overlap':
        tds = [mod, container(some)]
        if rng.random() < 0.5:
            tds.reverse()
        return {'typedefs': tds}
    if kind == 'mixed':
        return {'constructors': [classes[n] for n in some], 'typedefs': [container([n for n in names_ if n not in some])]}
    raise ValueError(layout)


def scratch_dir():
    if not _SCRATCH:
        d = Path(f'/var/tmp/verif-c07-{os.getpid()}')
        shutil.rmtree(d, ignore_errors=True)
        d.mkdir(parents=True)
        sys.path.insert(0, str(d))
        _SCRATCH.append(d)
        atexit.register(drop_scratch)
    return _SCRATCH[0]


def drop_scratch():
    for d in _SCRATCH:
        if str(d) in sys.path:
            sys.path.remove(str(d))
        shutil.rmtree(d, ignore_errors=True)
    del _SCRATCH[:]
    for name in [m for m in sys.modules if m.startswith(('verif_c07_model_', 'verif_c07_file_'))]:
        del sys.modules[name]


def gen_container_history(rng, flavour, primary_how):
    """(every uncached compile costs 0.05 - 0.2 s: one compile-time way per history, sometimes two, given generation 1
    and then generation 2; the parse-time ways and, after its first call, tatsu.parse() are cheap: every entry point
    that is given generation 1 is later given generation 2 and asked for a parse without any container)"""
    hows = [primary_how] + ([rng.choice(K1_COMPILE_HOWS)] if rng.random() < 0.4 else [])
    hows = list(dict.fromkeys(hows))
    api = rng.random() < 0.6

    def block(k):
        b = [('use', h, k) for h in hows] + [('use', rng.choice(['parse-time-semantics', 'generated-semantics']), k)]
        if api:
            b.append(('use', 'api-parse-typedefs', k))
            if k == 2 or rng.random() < 0.5:
                b.append(('use', rng.choice(['api-parse-plain', 'api-parse-asmodel']), 0))
        if rng.random() < 0.3:
            b.append(('use', rng.choice(['asmodel', 'plain']), 0))
        if k == 2:
            b.append(('use', 'parse-time-none', 0))
        rng.shuffle(b)
        return b
    steps = [('gen', 1), *block(1), ('gen', 2), *block(2)]
    if rng.random() < 0.5:
        if flavour == 'module-objects':
            steps.append(('use', primary_how, 1))               # the old module object is still there: back to it
        else:
            steps += [('gen', 3), ('use', primary_how, 3)]
    # (drawn after everything else: the histories of a seed keep their steps)
    for i, s_ in enumerate(steps):
        if s_[0] == 'use' and s_[1] in K1_LAYOUT_HOWS and s_[2] > 0:
            kind = rng.choice(K1_LAYOUTS)
            if kind != 'one':
                steps[i] = (*s_, f'{kind}:{rng.randrange(1000)}')
    return steps


def run_container_history(gc, src, steps, flavour, texts, refs, gp):
    """-> [(step index, how, failure kind, detail)]; fresh parser / module names per run (the compile cache is process-wide)"""
    from tatsu.objectmodel.builder import BuilderConfig
    uid = next(_seq)
    pname = f'{gc.tag}k{uid}'
    gtext = gc.text + f'# history {uid}\n'          # (a text the compile cache has never seen, whatever its key is)
    semname = f'{gc.tag}pModelBuilderSemantics'
    gens: dict = {}                     # generation -> (container module, {class name: class})
    state: dict = {'mod': None}
    keep: list = []
    out: list = []

    def make(k):
        body = src + f'\nGENERATION = {k}\n'
        if flavour == 'module-objects':
            modname = f'verif_c07_model_{gc.tag}k{uid}'
            mod = load_model_module(body, modname)
        else:
            modname = f'verif_c07_file_{gc.tag}k{uid}'
            (scratch_dir() / f'{modname}.py').write_text(body)
            if state['mod'] is None:
                importlib.invalidate_caches()
                mod = importlib.import_module(modname)
            else:
                mod = importlib.reload(state['mod'])
        state['mod'] = mod
        gens[k] = (mod, {n: c for n, c in vars(mod).items() if isinstance(c, type) and c.__module__ == modname})

    def parser_of(how, k, layout='one'):
        """the model-building parse of the step as a function of the input (compiled once per step)"""
        mod, classes = gens.get(k, (None, None))
        given = layout_containers(layout, mod, classes) if how in K1_LAYOUT_HOWS else None
        plain = gp                      # (compiled without builder options under another name)
        if how == 'parse-time-none':
            return plain.parse
        if how == 'plain':
            return tatsu.compile(gtext, name=pname).parse
        if how == 'asmodel':
            return tatsu.compile(gtext, name=pname, asmodel=True).parse
        if how == 'api-parse-plain':
            return lambda text: tatsu.parse(gtext, text, name=pname)
        if how == 'api-parse-asmodel':
            return lambda text: tatsu.parse(gtext, text, name=pname, asmodel=True)
        if how == 'compile-typedefs':
            return tatsu.compile(gtext, name=pname, **given).parse
        if how == 'compile-typedefs-mapping':
            return tatsu.compile(gtext, name=pname, typedefs=[dict(classes)]).parse
        if how == 'compile-constructors':
            return tatsu.compile(gtext, name=pname, constructors=list(classes.values())).parse
        if how == 'compile-builderconfig':
            return tatsu.compile(gtext, name=pname, builderconfig=BuilderConfig(**given)).parse
        if how == 'compile-semantics':
            keep.append(ModelBuilderSemantics(**given))
            return tatsu.compile(gtext, name=pname, semantics=keep[-1]).parse
        if how == 'parse-time-semantics':
            return lambda text: plain.parse(text, semantics=ModelBuilderSemantics(**given))
        if how == 'generated-semantics':
            return lambda text: plain.parse(text, semantics=classes[semname]())
        if how == 'api-parse-typedefs':
            return lambda text: tatsu.parse(gtext, text, name=pname, **given)
        raise ValueError(how)

    for si, step in enumerate(steps):
        if step[0] == 'gen':
            make(step[1])
            continue
        how, k = step[1], step[2]
        layout = step[3] if len(step) > 3 else 'one'
        how_label = how if layout == 'one' else f'{how}+{layout.partition(":")[0]}'
        parse = None
        for text in texts:
            try:
                parse = parse or parser_of(how, k, layout)
                tree = parse(text)
            except Exception as e:                          # noqa: BLE001
                out.append((si, how_label, f'raises-{type(e).__name__}', {'input': text, 'error': str(e)[:300], 'layout': layout}))
                break
            nodes: list = []
            brute_nodes(tree, nodes, cross=True)
            nodes = uniq(nodes)
            fail = None
            if how in K1_PLAIN_HOWS:
                if nodes or plain_json(tree) != refs['plain'][text]:
                    fail = 'plain-parse-builds-nodes' if nodes else 'tree-differs'
            elif how in K1_SYNTH_HOWS:
                if any(type(n) is not registered_class(type(n).__name__) for n in nodes if isinstance(n, Node)):
                    fail = 'nodes-not-of-the-synthesized-classes'
                elif canon_model(tree) != refs['synth'][text]:
                    fail = 'tree-differs'
            else:
                given = gens[k][1]
                for n in nodes:
                    cls = type(n)
                    if given.get(cls.__name__) is cls:
                        continue
                    other = [kk for kk, (_, cs) in gens.items() if cs.get(cls.__name__) is cls]
                    if other:
                        fail = 'nodes-of-an-earlier-generation' if other[0] < k else 'nodes-of-a-later-generation'
                    elif cls.__module__ == synthesize.__module__:
                        fail = 'nodes-of-synthesized-classes'
                    else:
                        fail = 'nodes-of-unknown-classes'
                    break
                if fail is None and canon_model(tree) != refs['generated'][text]:
                    fail = 'tree-differs'
            if fail:
                out.append((si, how_label, fail, {'input': text, 'generation_given': k, 'layout': layout}))
                break
    return out


def run_containers(chk: Check, rng, gc, src, texts, gp, gensem_cls):
    kn = next(_kcount)
    flavour = ('module-objects', 'reloaded-file-module', 'module-objects')[kn % 3]
    steps = gen_container_history(rng, flavour, K1_COMPILE_HOWS[kn % len(K1_COMPILE_HOWS)])
    texts = [texts[0], texts[-1]] if len(texts) > 1 else list(texts)
    refs: dict = {'plain': {}, 'synth': {}, 'generated': {}}
    try:
        for t in texts:
            refs['plain'][t] = plain_json(gp.parse(t))
            refs['synth'][t] = canon_model(gp.parse(t, semantics=ModelBuilderSemantics()))
            refs['generated'][t] = canon_model(gp.parse(t, semantics=gensem_cls()))
    except Exception:                                       # noqa: BLE001  (reported by O1)
        chk.count('K1.skipped-no-reference')
        return 0
    chk.count('K1.histories')
    chk.count('K1.histories.' + flavour)
    chk.count('K1.steps', sum(1 for s in steps if s[0] == 'use'))
    for s in steps:
        if s[0] == 'use':
            chk.count('K1.how.' + s[1])
            if s[1] in K1_LAYOUT_HOWS and s[2] > 0:
                chk.count('K1.layout.' + (s[3].partition(':')[0] if len(s) > 3 else 'one'))
    chk.case('containers:' + gc.text + json.dumps(steps) + flavour, nontrivial=True)
    failures = run_container_history(gc, src, steps, flavour, texts, refs, gp)
    reported = set()
    for si, how, fail, detail in failures:
        sig = f'containers:{flavour}:{how}:{fail}'
        if sig in reported:
            continue
        reported.add(sig)
        # shrink: the failing step alone, else after one earlier step (generations made as needed)
        def with_gens(use_steps):
            need = max([s[2] for s in use_steps] + [1])
            if flavour == 'module-objects':
                return [('gen', k) for k in range(1, need + 1)] + use_steps
            outs, cur = [], 0
            for s in use_steps:
                while cur < max(s[2], 1):
                    cur += 1
                    outs.append(('gen', cur))
                outs.append(s)
            return outs
        small = None
        before = [i for i in range(si) if steps[i][0] == 'use']
        how0 = how.split('+')[0]
        before.sort(key=lambda i: (steps[i][1] != how0, steps[i][1].split('-')[0] != how0.split('-')[0]))
        cands = [[steps[si]]] + [[steps[i], steps[si]] for i in before]
        for cand in cands[:8]:
            cs = with_gens(cand)
            if any((h, f) == (how, fail) for _, h, f, _ in run_container_history(gc, src, cs, flavour, texts, refs, gp)):
                small = cs
                break
        chk.violation(sig, f'model classes given through a type container ({how}, {flavour}): {fail}',
                      dict(detail, oracle='K1 nodes are instances of the classes given to the call', grammar=gc.text,
                           history=[list(s) for s in steps], failing_step=si,
                           minimal_history=[list(s) for s in small] if small else None,
                           note='("gen", k): the model module is generated again (new class objects under the same '
                                'qualified names); ("use", how, k): a model-building parse with generation k given'))
    return len(reported)


def run_containers_small(chk: Check):
    """K1 on small grammars (an uncached compile of a ten-rule grammar costs 0.2 s, of these 0.05 s)"""
    rng = random.Random(f'C07-K1s-{chk.seed}')
    bad = 0
    for _ in range(8 if chk.quick else 60):
        tag = f'{RUN}K{next(_seq)}x'
        text, texts = small_model_grammar(rng, tag)
        gc = types.SimpleNamespace(text=text, tag=tag)
        gp = tatsu.compile(text, name=tag + 'p')
        src = tatsu.to_python_model(text, name=tag + 'p')
        genmod = load_model_module(src, f'verif_c07_model_{tag}')
        chk.count('K1.small-grammars')
        bad += run_containers(chk, rng, gc, src, texts, gp, getattr(genmod, f'{tag}pModelBuilderSemantics'))
    return bad


# ------------------------------------------------------------------ U1: hand-written model classes
# The property speaks of "the class of that name".  Until here every class the check handed to a builder came from the
# generated model module, and every class name was `<tag>Word`: a name that exists in no other namespace.  A user who
# writes the model classes by hand (docs: typedefs=[module] / constructors=[...]) names them after the concepts of the
# language - Warning, Exception, slice, range, filter, print, Any, Node, Config ... - and such a name is ALSO a key of
# other namespaces the builder looks into or lives next to: the builtins (consulted for the converting type names),
# the globals of tatsu/objectmodel/synth.py (the process-wide synth registry IS that module's vars()), the globals of
# the builder module, and the classes synthesized earlier in the process.  Family: small grammars whose classes are
# written by hand in a module of their own (class attributes `x = None`, tatsu dataclasses, fields declared by a
# declared base), under names drawn from those namespaces, some left undeclared below a declared base (synthesized on
# top of a hand-written class), next to a builtin-typed token rule (the converting lookup is exercised by the same
# parse), handed over through every container / entry point.
# Oracle (from the property text, by class OBJECT, nothing about how the builder searches): walking the traced
# derivation and the model tree side by side, every typed reduction is an instance of exactly the class object
# declared under that name (or, for an undeclared name, of the registered synthesized class), the declared ancestors'
# class objects are in its MRO in chain order, its public attributes are the AST's keys with the AST's values,
# builtin-typed leaves are the converted values; erasing the nodes gives the plain AST; navigation by brute force.
U1_CONVERTERS = {'int', 'float', 'str', 'bool', 'tuple', 'bytes', 'bytearray', 'complex', 'frozenset', 'object'}
U1_SYNTH_GLOBALS = ['Any', 'types', 'threading', 'annotations', 'BaseNode', 'SynthNode', 'nodedataclass', 'synthesize',
                    'registered_synthetics']
U1_COMPILE_HOWS = ['compile-typedefs-module', 'compile-typedefs-mapping', 'compile-constructors',
                   'compile-typedefs-namespace', 'compile-builderconfig', 'compile-semantics']
U1_PARSE_HOWS = ['parse-time-semantics-typedefs', 'parse-time-semantics-constructors', 'module-own-semantics',
                 'api-parse-typedefs']
U1_NEEDS_ALL_DECLARED = {'compile-constructors', 'parse-time-semantics-constructors', 'module-own-semantics'}


def u1_name_pools():
    """class names that are also keys of another namespace the model builder looks into or lives in (read from the
    running code, sorted: deterministic for a given tree); only names that can head a class statement and that the
    grammar compiler leaves alone (mangle), and not the converting type names of the property text"""
    import keyword
    from tatsu.objectmodel import builder as buildermod
    from tatsu.objectmodel import synth as synthmod

    def usable(n):
        return (n.isidentifier() and not n.startswith('_') and not keyword.iskeyword(n) and not keyword.issoftkeyword(n)
                and mangle(n) == n and n not in U1_CONVERTERS)
    bt = vars(builtins)
    pools = {
        'builtin-exception-name': sorted(n for n, v in bt.items() if usable(n) and isinstance(v, type) and issubclass(v, BaseException)),
        'builtin-type-name': sorted(n for n, v in bt.items() if usable(n) and isinstance(v, type) and not issubclass(v, BaseException)),
        'builtin-function-name': sorted(n for n, v in bt.items() if usable(n) and isinstance(v, types.BuiltinFunctionType)),
        'synth-module-global': [n for n in U1_SYNTH_GLOBALS if n in vars(synthmod) and usable(n)],
        'builder-module-global': sorted(n for n, v in vars(buildermod).items()
                                        if usable(n) and n not in bt and n not in U1_SYNTH_GLOBALS
                                        and getattr(v, '__module__', '') != synthmod.__name__),
    }
    return {k: v for k, v in pools.items() if v}


class DeclCase:
    """one small grammar + the source of the hand-written module of its model classes"""

    def __init__(self, rng, tag, pools, k):
        self.tag = tag
        self.builtin = rng.choice(BUILTINS)
        nrules = rng.randint(2, 4)
        # -- names: every grammar has one or two names from the shared namespaces (the pool goes by k: every pool is
        # met in every run), one name synthesized earlier in the process, the rest are names of its own
        pool_names = sorted(pools)
        hazard = [pool_names[k % len(pool_names)]] + ([rng.choice(pool_names)] if rng.random() < 0.5 else [])
        self.pool_of: dict = {}
        fresh = itertools.count()

        def own():
            n = f'{tag}T{next(fresh)}'
            self.pool_of[n] = 'own-name'
            return n
        names_: list = []
        for p in hazard:
            cands = [n for n in pools[p] if n not in names_]
            n = rng.choice(cands)
            self.pool_of[n] = p
            names_.append(n)
        before = f'{tag}P0'
        self.pool_of[before] = 'synthesized-earlier-in-the-process'
        names_.append(before)
        self.presynth = [before]
        while len(names_) < nrules + 3:
            names_.append(own())
        rng.shuffle(names_)
        # -- declared forest (depth <= 2) over the names; a declared class has declared ancestors only; one or two
        # classes of own names may be left to synthesis below a declared class or below the base type
        self.parent: dict = {}
        depth: dict = {}
        for i, n in enumerate(names_):
            cands = [p for p in names_[:i] if depth[p] < 2]
            p = rng.choice(cands) if cands and rng.random() < 0.6 else None
            self.parent[n] = p
            depth[n] = 0 if p is None else depth[p] + 1
        leaves = [n for n in names_ if n not in self.parent.values() and self.pool_of[n] == 'own-name']
        leaves.sort(key=lambda n: self.parent[n] is None)          # (those below a declared class first)
        self.undeclared = set(leaves[:rng.choice([0, 0, 1, 2])])
        self.declared_names = [n for n in names_ if n not in self.undeclared]
        # -- rules: the start rule and r0.. build leaves-or-inner classes; every hazard name heads a rule when it can
        heads = [n for n in names_ if self.pool_of[n] != 'own-name'] + [n for n in names_ if self.pool_of[n] == 'own-name']
        doc = heads.pop(rng.randrange(len(heads))) if rng.random() < 0.3 else heads.pop()
        self.rule_class = {'start': doc}
        self.fields: dict = {doc: ['els']}
        lines = [f'@@grammar :: {tag}', f'start::{self.chain(doc)} = els:{{ item }}* $ ;',
                 'item = ' + ' | '.join(f'r{i}' for i in range(nrules)) + ' ;']
        self.bodies = []
        for i in range(nrules):
            c = heads[i]
            self.rule_class[f'r{i}'] = c
            body = rng.choice('AB')
            self.bodies.append(body)
            if body == 'A':
                lines.append(f"r{i}::{self.chain(c)} = '{i}' x:/[a-z]+/ [ '(' y:item ')' ] ;")
                self.fields[c] = ['x', 'y']
            else:
                lines.append(f"r{i}::{self.chain(c)} = '{i}' val:num '[' kids:{{ item }} ']' ;")
                self.fields[c] = ['val', 'kids']
        lines.append(f'num::{self.builtin} = /\\d+/ ;')
        rest = lines[3:]
        rng.shuffle(rest)
        self.text = '\n'.join(lines[:3] + rest) + '\n'
        self.nrules = nrules
        self.styles = {n: rng.choice(['class-attributes', 'class-attributes', 'dataclass', 'fields-of-declared-base'])
                       for n in self.declared_names}
        self.source = self.module_source()

    def ancestors(self, n):
        out = []
        while self.parent.get(n):
            n = self.parent[n]
            out.append(n)
        return out

    def chain(self, n):
        return '::'.join([n] + self.ancestors(n))

    def module_source(self):
        """what a user writes: one class statement per declared name, bases first"""
        out = ['from __future__ import annotations', 'from typing import Any as _Any',
               'from tatsu.objectmodel import Node as _Node, ModelBuilderSemantics as _Semantics, tatsudataclass as _dataclass',
               '', '']
        done: set = set()
        order = sorted(self.declared_names, key=lambda n: len(self.ancestors(n)))
        # (fields a class gets from a declared base: pushed up to the first declared ancestor, or kept when there is none)
        extra: dict = {n: [] for n in order}
        for n in order:
            if self.styles[n] == 'fields-of-declared-base' and self.parent.get(n):
                extra[self.parent[n]] += self.fields.get(n, [])
        for n in order:
            base = self.parent.get(n) or '_Node'
            fields = list(dict.fromkeys(extra[n] + (self.fields.get(n, [])
                                                    if not (self.styles[n] == 'fields-of-declared-base' and self.parent.get(n)) else [])))
            if self.styles[n] == 'dataclass':
                out += ['@_dataclass', f'class {n}({base}):'] + ([f'    {f}: _Any = None' for f in fields] or ['    pass'])
            else:
                out += [f'class {n}({base}):'] + ([f'    {f} = None' for f in fields] or ['    pass'])
            out += ['', '']
            done.add(n)
        out += [f'class _{self.tag}Semantics(_Semantics):',
                '    def __init__(self, constructors=None, **kwargs):',
                '        constructors = list(constructors or [])',
                '        constructors += _Semantics.types_defined_in(globals())',
                '        _Semantics.__init__(self, basetype=_Node, constructors=constructors, **kwargs)', '']
        return '\n'.join(out)

    def sentence(self, rng, depth):
        def item(d):
            i = rng.randrange(self.nrules)
            if self.bodies[i] == 'A':
                s = f'{i}{rng.choice(["a", "bc", "foo"])}'
                return s + (f'({item(d - 1)})' if d > 0 and rng.random() < 0.6 else '')
            inner = ' '.join(item(d - 1) for _ in range(rng.randint(0, 2))) if d > 0 else ''
            return f'{i}{rng.choice([0, 1, 7, 12])}[{inner}]'
        return ' '.join(item(depth) for _ in range(rng.randint(1, 3)))


def declared_failures(traced, model, dc: DeclCase, classes: dict) -> list:
    """[(failure kind, class name)] - the traced derivation and the model tree side by side"""
    from tatsu.objectmodel import synth as synthmod
    out: list = []

    def fail(kind, name):
        if (kind, name) not in out:
            out.append((kind, name))

    def go(t, m, under):
        if isinstance(t, Mark):
            chain = [mangle(s) for s in t.spec.split('::')]
            head = chain[0]
            if head in dc.parent or head in classes:
                want = classes.get(head)
                if not isinstance(m, BaseNode):
                    what = 'builtin-object' if type(m).__module__ == 'builtins' else 'not-a-node'
                    fail(f'typed-rule-gives-{what}-instead-of-' + ('the-declared-class' if want else 'a-synthesized-class'), head)
                    return
                cls = type(m)
                if want is not None:
                    if cls is not want:
                        other = ('a-synthesized-class' if cls.__module__ == synthmod.__name__
                                 else 'a-builtin' if cls.__module__ == 'builtins' else 'another-class')
                        fail(f'node-of-{other}-instead-of-the-declared-class', head)
                elif cls.__name__ != head or cls.__module__ != synthmod.__name__ or cls is not registered_class(head):
                    fail('node-not-of-the-registered-synthesized-class', head)
                # declared ancestors: their class objects, in chain order, in the MRO
                mro = list(cls.__mro__)
                pos = 0
                for a in dc.ancestors(head):
                    wa = classes.get(a)
                    idx = [i for i, c in enumerate(mro) if (c is wa if wa is not None else c.__name__ == a)]
                    if not idx or idx[0] <= pos:
                        fail('declared-base-class-not-in-the-mro', head)
                        break
                    pos = idx[0]
                inner = t.ast
                if isinstance(inner, Mapping):
                    got = {k: v for k, v in vars(m).items()
                           if not k.startswith('_') and k not in ('ast', 'ctx', 'parseinfo')}
                    if set(inner) - set(got) or any(got[k] is not None for k in set(got) - set(inner)):
                        fail('attributes-are-not-the-named-elements', head)
                        return
                    for k in inner:
                        go(inner[k], got[k], head)
                else:
                    go(inner, vars(m).get('ast'), head)
                return
            # a builtin type name converts the value
            fn = vars(builtins)[head]
            try:
                val = fn(t.ast)
            except Exception:                               # noqa: BLE001
                return
            if type(m) is not type(val) or m != val:
                fail('builtin-typed-leaf-not-converted', head)
            return
        if isinstance(t, Mapping):
            if not isinstance(m, Mapping) or isinstance(m, BaseNode) or set(t) != set(m):
                fail('value-differs-from-the-ast', under)
                return
            for k in t:
                go(t[k], m[k], under)
            return
        if isinstance(t, (list, tuple)):
            if not isinstance(m, (list, tuple)) or len(t) != len(m):
                fail('value-differs-from-the-ast', under)
                return
            for a, b in zip(t, m):
                go(a, b, under)
            return
        if type(t) is not type(m) or t != m:
            fail('value-differs-from-the-ast', under)
    go(traced, model, '<top>')
    return out


def run_declared(chk: Check):
    from tatsu.objectmodel.builder import BuilderConfig
    rng = random.Random(f'C07-U1-{chk.seed}')       # own stream, after everything else of the grammar streams
    pools = u1_name_pools()
    ngram = 10 if chk.quick else 120
    bad = 0
    reported: set = set()
    for k in range(ngram):
        tag = f'{RUN}U{next(_seq)}x'
        dc = DeclCase(rng, tag, pools, k)
        texts = sorted({dc.sentence(rng, rng.randint(0, 2)) for _ in range(4 if chk.quick else 8)}, key=lambda t: (len(t), t))
        chk.count('U1.grammars')
        for n in dc.declared_names:
            chk.count('U1.declared.' + dc.pool_of[n])
            chk.count('U1.style.' + dc.styles[n])
        chk.count('U1.undeclared-below-declared', sum(1 for n in dc.undeclared if dc.parent.get(n)))
        chk.count('U1.undeclared', len(dc.undeclared))
        chk.count('U1.rules-typed-with-a-shared-namespace-name',
                  sum(1 for c in dc.rule_class.values() if dc.pool_of[c] not in ('own-name',)))

        def violation(how, kind, name, text, extra=None):
            pool = dc.pool_of.get(name, 'builtin-converter' if name in vars(builtins) else None)
            if pool is None:
                # (no single class to blame: the shared namespaces the names of the grammar's rule classes come from)
                pool = '+'.join(sorted({dc.pool_of[c] for c in dc.rule_class.values()} - {'own-name'})) or 'own-names'
            sig = f'declared:{pool}:{how}:{kind}'
            if sig in reported:
                return
            reported.add(sig)
            chk.violation(sig, f'hand-written model classes ({how}): {kind} - class {name!r} ({pool})',
                          dict(extra or {}, oracle='U1 nodes are instances of the hand-written classes given to the call',
                               grammar=dc.text, model_module=dc.source, input=text, class_name=name, way=how,
                               undeclared=sorted(dc.undeclared)))
        try:
            gp = tatsu.compile(dc.text, name=tag + 'p')
            mod = load_model_module(dc.source, f'verif_c07_model_decl_{tag}')
        except Exception as e:                              # noqa: BLE001
            bad += 1
            violation('setup', f'raises-{type(e).__name__}', '<none>', '', {'error': str(e)[:300]})
            continue
        classes = {n: vars(mod)[n] for n in dc.declared_names}
        for n in dc.presynth:
            # the process has met the name before: a parse without containers synthesized a class for it
            ModelBuilderSemantics()._default({'x': 'a'}, n)
        everything = not dc.undeclared
        # (an uncached compile costs 0.1 - 0.2 s: a compile-time way for every second grammar in the quick tier, in turn;
        # tatsu.parse() compiles too)
        hows = rng.sample(U1_PARSE_HOWS[:3], 2) + (['api-parse-typedefs'] if rng.random() < 0.25 else [])
        if k % 2 == 0 or not chk.quick:
            hows.insert(0, U1_COMPILE_HOWS[(k // 2 + chk.seed) % len(U1_COMPILE_HOWS)])
        hows = [h for h in hows if everything or h not in U1_NEEDS_ALL_DECLARED]
        if not hows:
            hows = ['parse-time-semantics-typedefs']
        keep: list = []

        def parser_of(how):
            namespace = type('V7Models', (), {'__module__': mod.__name__, **classes})
            if how == 'compile-typedefs-module':
                return tatsu.compile(dc.text, name=tag + 'c', typedefs=[mod]).parse
            if how == 'compile-typedefs-mapping':
                return tatsu.compile(dc.text, name=tag + 'c', typedefs=[dict(classes)]).parse
            if how == 'compile-typedefs-namespace':
                return tatsu.compile(dc.text, name=tag + 'c', typedefs=[namespace]).parse
            if how == 'compile-constructors':
                return tatsu.compile(dc.text, name=tag + 'c', constructors=list(classes.values())).parse
            if how == 'compile-builderconfig':
                return tatsu.compile(dc.text, name=tag + 'c', builderconfig=BuilderConfig(typedefs=[mod])).parse
            if how == 'compile-semantics':
                keep.append(ModelBuilderSemantics(typedefs=[dict(classes)]))
                return tatsu.compile(dc.text, name=tag + 'c', semantics=keep[-1]).parse
            if how == 'parse-time-semantics-typedefs':
                return lambda text: gp.parse(text, semantics=ModelBuilderSemantics(typedefs=[mod]))
            if how == 'parse-time-semantics-constructors':
                return lambda text: gp.parse(text, semantics=ModelBuilderSemantics(constructors=list(classes.values())))
            if how == 'module-own-semantics':
                return lambda text: gp.parse(text, semantics=vars(mod)[f'_{tag}Semantics']())
            if how == 'api-parse-typedefs':
                return lambda text: tatsu.parse(dc.text, text, name=tag + 'a', typedefs=[namespace, {}])
            raise ValueError(how)
        for how in hows:
            chk.count('U1.how.' + how)
            parse = None
            for text in texts:
                try:
                    plain = gp.parse(text)
                    traced = gp.parse(text, semantics=TraceSemantics())
                except Exception:                           # noqa: BLE001  (the generator writes sentences of the grammar)
                    chk.count('U1.inputs.rejected-by-plain-parse')
                    continue
                chk.case(f'declared:{dc.text}\n{dc.source}\n{how}\n{text}', nontrivial=len(text) > 3)
                chk.count('U1.inputs')
                try:
                    parse = parse or parser_of(how)
                    m = parse(text)
                except Exception as e:                      # noqa: BLE001
                    bad += 1
                    violation(how, f'raises-{type(e).__name__}', '<none>', text, {'error': str(e)[:300]})
                    break
                fails = declared_failures(traced, m, dc, classes)
                # (the side-by-side walk ties the model tree to the derivation; the derivation erases to the plain AST.
                # erase_model() is not used here: a dataclass node carries the None-valued fields of its declared bases)
                if plain_json(strip_conv(erase_marks(traced))) != plain_json(plain):
                    fails.append(('derivation-does-not-erase-to-the-plain-ast', '<none>'))
                if not fails:
                    fails += [(f'nav-{f}', '<none>') for f in check_navigation(m, 'declared')]
                for kind, name in fails:
                    bad += 1
                    violation(how, kind, name, text)
                if fails:
                    break
    chk.obligation('U1: hand-written model classes under names that other namespaces also hold (builtins, synth / builder '
                   'module globals, names synthesized earlier), declared / dataclass / inherited fields, undeclared classes '
                   'below declared ones, every container and entry point: nodes are instances of the declared classes',
                   'oracle', bad == 0 and chk.dist.get('U1.rules-typed-with-a-shared-namespace-name', 0) > 0)


# ------------------------------------------------------------------ T1 constants
def constants(chk: Check, mr: ModelRun):
    model = sorted(names(mr.ask(['(basekeys)'])[0]))
    real = sorted(k for k in BaseNode._basenode_keys() if not k.startswith('_'))
    chk.obligation('T1: public names of vars(BaseNode) = ObjModel.basekeys', 'translator', model == real, f'{real} vs {model}')
    from tatsu.objectmodel import node as nodemod
    import inspect
    src = inspect.getsource(nodemod.Node._cached_children)
    shape = all(s in src for s in ("case Node()", "case Mapping()", "name.startswith('_')", "value is None",
                                   "case bytes() | str()", "case Iterable()", "self.__pub__()"))
    chk.obligation('T2: Node._cached_children has the modelled case order', 'translator', shape)


def main():
    chk = Check(PID)
    for old in vlib.REPLAYS.glob(f'{PID}-{chk.seed}-*.json'):
        old.unlink()
    chk.rule = ('N1: random trees of synthesized / dataclass / plain Node instances holding lists, tuples, dicts, None, '
                'strings, _private and BaseNode-member-named attributes, vars() order != field order; O1/N2/B1: generated '
                'grammars (start/item/pair/group/num/word/neg/opt/wrap/tup with random annotations: none, single, A::B, '
                'A::B::C, builtin int/float/str/bool/tuple; named, unnamed, override and named-list bodies) x generated '
                'sentences; H1: forest grammars over the same rules - every typed rule\'s class and the rule-less classes '
                'B1 B2 Root Mid form one random forest (depth <= 4; rule classes below rule classes, shared rule-less bases), '
                'every rule writes a prefix of its class\'s chain (whole, class::base, bare, in between; at least one chain '
                'stops at a class whose base is declared elsewhere), two rules may build one class, rule order shuffled; '
                'one grammar per risky attribute/class name (dict members, ast, Node properties, BaseNode '
                'members, children, _private, synth-module globals); R1: random declaration histories over 4 names; '
                'W1/D1: per grammar, random histories of walker class declarations (below DepthFirst/PostOrder/BreadthFirst/'
                'NodeWalker or below an earlier, possibly already used, class; mixins; walk_<Class> / walk__<snake> / '
                'walk_<snake> for the grammar classes, their declared bases and Node, overrides, two spellings for one class, '
                'the four default names) interleaved with walks over synthesized-class and generated-class trees of the '
                'grammar (instances reused), plus D1-only histories with methods named after every class of the MRO. '
                'C1: races of 2-3 threads over freshly named copies of generated grammars (ten-rule and small ones): each '
                'thread its own parser, or one parser and a ModelBuilderSemantics per thread, or one model-building parser '
                '(one semantics object) for all; same or rotated input order; a random subset of the classes known before; '
                'and direct races on ModelBuilderSemantics._default / synthesize over a random declared forest of six names '
                '(random ask sequences per thread, own or shared semantics); the base type has an __init_subclass__ hook that '
                'keeps the creating thread inside class creation until the others rest in synthesize() or are done. '
                'K1: per selected grammar (ten-rule and small ones) one history over generations 1..3 of its generated '
                'model module (flavours: a new module object under the same name / the rewritten file reloaded): one or '
                'two compile-time ways (typedefs=[module], typedefs=[mapping], constructors=, builderconfig=, semantics=) '
                'given generation 1, later generation 2 (sometimes back to 1, or on to 3), parse-time semantics, the '
                'module\'s own semantics class, tatsu.parse(typedefs=), and asmodel / plain / tatsu.parse without a '
                'container in between, all under one parser name and grammar text; every typedefs step hands the classes '
                'over in one of the layouts one / split over 2-3 mappings or namespace classes / module + overlapping '
                'mapping / constructors + typedefs. '
                'L1: 6 (thorough 60) lexical-type grammars after the others: token rules tint tdec tword tflag typed '
                'int/float/str/bool, a class or nothing (every second grammar int+float+bool), class-typed wrappers w0 w1 w2 '
                'over 1-4 token rules (bare, override, named group), pair / seq / start around them, full chains X, X::Base, '
                'X::Mid::Root, two or three classes named by case variants of one stem, sentences over small token pools '
                '(0 1 2 7 10, 0.0 1.0 2.0 2.5 10.0, ?t ?); W1 method universe weighted towards the twin names. '
                'U1: 10 (thorough 120) small grammars (start + 2-4 rules with named elements, two bodies, one '
                'int/float/str/bool-typed token rule) whose classes are hand-written in an exec\'d module: names from the '
                'pools builtin exception / type / function names (read from vars(builtins), minus the converting type names), '
                'synth-module globals, builder-module globals (every pool in every run), one name synthesized earlier in the '
                'process, own names; a declared forest of depth <= 2 written as full chains; styles `x = None` / tatsu '
                'dataclass / fields declared by the declared base; 0-2 own-name leaves left undeclared (synthesized below a '
                'declared class); handed over by compile(typedefs=[module | mapping | namespace class]), constructors=, '
                'builderconfig=, semantics=, parse-time ModelBuilderSemantics(typedefs= | constructors=), the module\'s own '
                'semantics subclass, tatsu.parse(typedefs=). '
                'Non-trivial: more than one node / input longer than 3 chars / history longer than 1; distinct by content hash.')
    chk.trusted += ['the canonicaliser Canon (Python object graph -> ObjModel.value, same case order as Node._cached_children)',
                    'oracle tables: iteration order of the Python set `pub.keys() - vars(BaseNode).keys()` per node '
                    '(evaluated with the same expression), builtin constructors int/float/str/bool/tuple as finite tables',
                    'the TatSu parser itself (C01) for producing derivations; TraceSemantics marks annotated reductions',
                    'not modelled: dataclass machinery, BoundCallable argument binding, parseinfo/ctx',
                    'W1 oracle (own Python code): snake(), method_forms(), nearest-class resolution over type(node).__mro__, '
                    'own pre/post/level-order traversals over children(); D1 oracle tables: util.pythonize_name per class '
                    'name, dir(walker class) callables named walk_*/_walk_*, __bases__ of the node classes',
                    'H1 oracle (own Python code, implementation-only: the model generator is not modelled in Coq): the chains '
                    'read back from the grammar text, declared base = successor of a name in any chain, ancestors by '
                    'following it; generated classes found by name in the exec\'d module, compared through __mro__/__bases__',
                    'C1 scheduler (own Python code): V7Hooked.__init_subclass__ + Gate - holds a thread that is creating a '
                    'class until sys._current_frames() shows every other working thread at rest inside a function named '
                    'synthesize (same instruction on two polls 1 ms apart) or finished, at most 1 s; it decides the '
                    'interleaving only, the verdict comes from the classes of the nodes, the answers of synthesize(name, ()) '
                    'and the count of classes the hook saw',
                    'K1 oracle (own Python code): the classes of a generation are vars(module) entries whose __module__ is the '
                    'module name; the module file lives under /var/tmp/verif-c07-<pid> for the reload flavour; '
                    'layout_containers() partitions them over mappings and namespace classes (type(..) with the module name)',
                    'L1 generator (own Python code): LexCase, case_variants(); its verdicts come from the O1 / W1 / D1 / B1 / K1 '
                    'oracles; mixed_equal_scalars() only counts coverage',
                    'U1 (own Python code): DeclCase writes the grammar and the source of the hand-written module (exec\'d under '
                    'a verif_c07_model_decl_ name); declared_failures() walks the TraceSemantics derivation and the model tree '
                    'side by side and compares class OBJECTS (declared: vars(module)[name]; undeclared: synthesize(name, ())), '
                    'MRO positions of the declared ancestors, public vars() against the AST keys (None-valued extra fields '
                    'allowed: inherited declarations), builtin-typed leaves against the builtin applied to the matched text']
    chk.assumptions += ['setord is a permutation of its input minus vars(BaseNode) names (Python set semantics)',
                        'vars(node) keys are distinct (dict) and node identities in a tree are distinct (tree-shaped) for the exactly-once statements',
                        'parent pointers are those present after children() has run on the parent (the code assigns them lazily there)',
                        'forest grammars declare one base per class name (consistent chains); their synthesized classes are '
                        'declared once with the whole chain before the first parse (first synthesis wins: D14a, tested by R1), and a '
                        'generated class may carry the None-valued fields it inherits from the class of another rule',
                        'C1: a race is two or three threads started together on one never-seen set of class names; only '
                        'interleavings in which the later threads arrive during the first thread\'s class creation are driven',
                        'U1: the hand-written module declares every named element of a rule as an attribute of the rule\'s class '
                        'or of a declared base (BaseNode.__post_init__ fills declared attributes only), a declared class has '
                        'declared ancestors only, and chains are written in full',
                        'walker classes get no new walk_ methods after their class statement (no monkeypatching): [has w] is fixed; '
                        'C07_dispatch_cache_transparent assumes that same-named node classes resolve alike (cache keyed by __qualname__)']
    st = chk.coq()
    ok, out = vlib.build_modelrun('ObjModel')
    chk.obligation('modelrun_ObjModel builds', 'build', ok, out[-500:])
    if ok:
        mr = ModelRun('ObjModel')
        constants(chk, mr)
        run_tree_tie(chk, mr)
        run_registry(chk, mr)
        try:
            run_grammars(chk, mr)
            run_declared(chk)
            run_concurrent(chk)
        finally:
            drop_scratch()
    chk.exhaustive = False
    return chk.finish()


if __name__ == '__main__':
    sys.exit(main())
