"""C05 - a cut commits within its documented scope and nowhere else."""
from __future__ import annotations

import sys
from pathlib import Path

sys.path.insert(0, str(Path(__file__).resolve().parent.parent))
import vlib
from vlib import Check, ModelRun
import enginelib as E
import enginegen as G
import enginerun as R

PID = 'C05'


def place_cuts(rng, e, p=0.35):
    """Insert cuts at random points of sequences (and turn single elements into `x ~`)."""
    k = E.kind(e)
    if k == 'seq':
        out = []
        for x in e[1]:
            out.append(place_cuts(rng, x, p))
            if rng.random() < p:
                out.append('cut')
        return ('seq', out)
    if k == 'choice':
        return ('choice', [place_cuts(rng, x, p) for x in e[1]])
    if k in ('group', 'skipgroup', 'opt', 'skipto'):
        return (k, place_cuts(rng, e[1], p))
    if k == 'rep':
        return ('rep', e[1], e[2] if e[2] is None else place_cuts(rng, e[2], p / 2), e[3], place_cuts(rng, e[4], p))
    if k == 'assoc':
        return ('assoc', e[1], place_cuts(rng, e[2], p / 2), place_cuts(rng, e[3], p))
    if k == 'look':
        return ('look', e[1], place_cuts(rng, e[2], p))
    if k == 'named':
        return ('named', e[1], e[2], place_cuts(rng, e[3], p))
    if k == 'over':
        return ('over', e[1], place_cuts(rng, e[2], p))
    if k in ('tok', 'pat') and rng.random() < p / 3:
        return ('seq', [e, 'cut'])
    return e


def failing_after_cut_inputs(rng, g, n):
    """Sentences of the grammar truncated / substituted at every lexeme boundary: inputs that fail right after a cut."""
    out = []
    for _ in range(n):
        lex = G.sample_sentence(rng, g, g['rules'][0][2])
        if not lex:
            continue
        i = rng.randrange(len(lex) + 1)
        r = rng.random()
        if r < 0.4:
            lex2 = lex[:i]
        elif r < 0.8:
            lex2 = lex[:i] + [rng.choice(['z', 'b', ',', '9', 'c'])] + lex[i + 1:]
        else:
            lex2 = lex[:i] + [rng.choice(['a', 'x', '+'])] + lex[i:]
        out.append(G.join_lexemes(rng, lex2, gaps=(' ', ' ', '  '))[:48])
    return out


def shard_e1(col, shard, ngrammars, ninputs):
    mr = ModelRun('Engine')
    rng = col.rng
    cases = []
    for gi in range(ngrammars):
        g = G.gen_grammar(rng, G.GenCfg(cuts=0.0, skipto=0.01, consts=0.01, assoc=0.02), depth=rng.choice([2, 3, 3]))
        g['rules'] = [(n, d, place_cuts(rng, e)) for n, d, e in g['rules']]
        ncut = sum(1 for _, _, e in g['rules'] for x in E.walk(e) if x == 'cut')
        col.count('cuts.per-grammar', ncut)
        texts = [t[:48] for t in G.gen_inputs(rng, g, ninputs // 2)] + failing_after_cut_inputs(rng, g, ninputs - ninputs // 2)
        for t in texts:
            cases.append(R.Case(g, t))
            if gi % 3 == 0:      # the commit must not depend on memo settings
                cases.append(R.Case(g, t, None, E.Settings(prune_memos_on_cut=False)))
                cases.append(R.Case(g, t, None, E.Settings(memoization=False, prune_memos_on_cut=rng.choice([None, False]))))
    # optionals / groups whose inline body can match nothing but holds cuts behind nullable constructs
    for _ in range(max(2, ngrammars // 3)):
        nb = gen_nullable_body(rng)
        wrap = rng.choice(['opt', 'group', 'optopt'])
        body = ('opt', nb) if wrap == 'opt' else ('group', nb) if wrap == 'group' else ('opt', ('opt', nb))
        post = rng.choice([[], [('tok', 'a')], [('tok', 'b'), ('tok', 'c')], ['eof']])
        g = {'rules': [('start', [], ('seq', [body] + post))], 'directives': {}, 'keywords': []}
        col.count('family.nullable-body-' + wrap)
        for t in [t[:40] for t in G.gen_inputs(rng, g, 6)] + failing_after_cut_inputs(rng, g, 8):
            cases.append(R.Case(g, t))
    # outer choices whose earlier alternative holds an inner construct with cuts in its options (the last included) and then fails
    from props.c02 import cut_scope_grammar
    from props.c02 import CUT_WRAPS
    per_shard = max(2, ngrammars // 2)
    for i in range(per_shard):
        # every kind of scope in turn (all shards together cover each kind several times), not a lottery
        g, texts = cut_scope_grammar(rng, wrap=CUT_WRAPS[(shard * per_shard + i) % len(CUT_WRAPS)])
        col.count('family.cut-scope')
        for t in texts:
            cases.append(R.Case(g, t, tag='cut-scope'))
    R.differential(col, mr, cases, 'E1cut')
    # generated parsers implement the same scopes with their own runtime (ctx.group / ctx.optional / ChoiceContext): success and
    # failure must agree with the model on the cut-scope family and on a sample of the rest
    import tatsu  # noqa: F401
    for c in cases:
        if c.tag != 'cut-scope' and rng.random() > 0.1:
            continue
        m = R.compile_grammar(c.g)
        if isinstance(m, tuple):
            continue
        io, _ = R.impl_outcome(c, m)
        go, _ = R.gen_outcome(c)
        col.count('genparser.compared')
        if isinstance(go, tuple) and go and io[0] in ('ok', 'fail') and go[0] in ('ok', 'fail', 'exc') and go[0] != io[0]:
            col.violation(f'oracle:generated-parser-cut-scope:{io[0]}-vs-{go[0]}',
                          'the generated parser and the model disagree on success / failure of a grammar with cuts',
                          {'oracle': 'generated parser vs model.parse (cut scopes)', 'case': c.describe(), 'model.parse': io, 'generated': go})
    if cases:
        col.sample(cases[len(cases) // 3].describe())


# ---- docs/syntax.rst equivalences: [x] == x | () ; {x} == B = x B | () ; {x}+ == x {x}   (acceptance)
def gen_nullable_body(rng):
    """a body that can match nothing but contains cuts behind nullable constructs"""
    toks = ['a', 'b', 'c', ',']
    a, b, z = rng.sample(toks, 3)
    return rng.choice([
        ('seq', [('rep', False, None, False, ('seq', [('tok', a), 'cut', ('tok', b)])), ('rep', False, None, False, ('tok', z))]),
        ('choice', [('seq', [('tok', a), 'cut', ('tok', b)]), 'void']),
        ('seq', [('opt', ('seq', [('tok', a), 'cut', ('tok', b)])), ('opt', ('tok', z))]),
        ('rep', False, ('tok', ','), False, ('seq', [('tok', a), 'cut', ('tok', b)])),
    ])


def gen_body(rng):
    """a body that surely consumes input, with cuts inside"""
    toks = ['a', 'b', 'c', ',']
    n = rng.randint(1, 3)
    es = []
    for i in range(n):
        r = rng.random()
        if r < 0.7:
            es.append(('tok', rng.choice(toks)))
        elif r < 0.85:
            es.append(('choice', [('seq', [('tok', rng.choice(toks)), 'cut', ('tok', rng.choice(toks))]), ('tok', rng.choice(toks))]))
        else:
            es.append(('opt', ('seq', [('tok', rng.choice(toks)), 'cut', ('tok', rng.choice(toks))])))
        if rng.random() < 0.5:
            es.append('cut')
    if not G.surely_consumes(('seq', es)):
        es.insert(0, ('tok', rng.choice(toks)))
    return ('seq', es)


def shard_docs(col, shard, n):
    import tatsu
    from tatsu.exceptions import FailedParse
    rng = col.rng

    def accepts(gtext, t):
        try:
            m = R._compiled.get(gtext) or tatsu.compile(gtext)
            R._compiled[gtext] = m
            m.parse(t)
            return 'ok'
        except FailedParse:
            return 'fail'
        except RecursionError:
            return 'recursion'
        except Exception as e:  # noqa
            return type(e).__name__

    for it in range(n):
        x = gen_body(rng)
        pre = rng.choice([[], [('tok', 'x')]])
        post = rng.choice([[], [('tok', 'a')], [('tok', 'b'), ('tok', 'c')]])
        xt = E.to_text(x, 'top')
        pre_t = ' '.join(E.to_text(p, 'seq') for p in pre)
        post_t = ' '.join(E.to_text(p, 'seq') for p in post)
        forms = {
            'optional': (f"start = {pre_t} [{xt}] {post_t} $ ;", f"start = {pre_t} ({xt} | ()) {post_t} $ ;"),
            'closure': (f"start = {pre_t} {{{xt}}} {post_t} $ ;", f"start = {pre_t} bb {post_t} $ ;\nbb = {xt} bb | () ;"),
            'positive': (f"start = {pre_t} {{{xt}}}+ {post_t} $ ;", f"start = {pre_t} ({xt}) {{{xt}}} {post_t} $ ;"),
        }
        gx = {'rules': [('start', [], x)]}
        for name, (ga, gb) in forms.items():
            texts = set()
            for _ in range(6):
                reps = rng.choice([0, 1, 2, 3]) if name != 'optional' else rng.choice([0, 1])
                lex = [l for p in pre for l in G.sample_sentence(rng, gx, p)]
                src_g, src_e = gx, x
                for _r in range(reps):
                    lex += G.sample_sentence(rng, src_g, src_e)
                # a partial last iteration: fail right after a cut
                if rng.random() < 0.6:
                    part = G.sample_sentence(rng, src_g, src_e)
                    lex += part[:rng.randrange(len(part) + 1)]
                lex += [l for p in post for l in G.sample_sentence(rng, gx, p)]
                if rng.random() < 0.2 and lex:
                    lex[rng.randrange(len(lex))] = rng.choice(['a', 'b', 'c', ','])
                texts.add(' '.join(lex))
            for t in sorted(texts):
                ra, rb = accepts(ga, t), accepts(gb, t)
                col.case(['docs', name, ga, t], nontrivial=bool(t))
                col.count(f'docs.{name}.{ra}')
                if ra != rb:
                    col.violation(f'oracle:docs-equivalence:{name}:{ra}-vs-{rb}',
                                  f'docs/syntax.rst equivalence for {name} broken w.r.t. cuts: {ra} vs {rb}',
                                  {'oracle': 'docs/syntax.rst cut-scope equivalences', 'form': name, 'grammar': ga,
                                   'equivalent': gb, 'text': t, 'outcome': ra, 'equivalent_outcome': rb})


def main():
    chk = Check(PID)
    chk.rule = ('E1cut: random grammars with cuts inserted after every kind of element at random (options, optionals, closure and '
                'join bodies and separators, groups, rule bodies) x sentences of the grammar and inputs that fail right after a lexeme '
                '(truncation / substitution at every boundary); docs: the three cut-scope equivalences of docs/syntax.rst checked on the '
                'implementation for random bodies containing cuts. Non-trivial: non-empty input; distinct by (grammar, input).')
    chk.trusted += ['oracles per case from the real Python (re, unicode predicates, resolved ParserConfig, lrec flags)',
                    'scope decision: a plain group is transparent to cuts (the implementation agrees; docs name option, optional, repetition, rule)']
    chk.coq()
    ok, out = vlib.build_modelrun('Engine')
    chk.obligation('modelrun_Engine builds', 'build', ok, out[-500:])
    if ok:
        if chk.quick:
            vlib.run_sharded(chk, shard_e1, 14, extra=(10, 12))
            vlib.run_sharded(chk, shard_docs, 14, extra=(12,))
        else:
            vlib.run_sharded(chk, shard_e1, 28, extra=(60, 16))
            vlib.run_sharded(chk, shard_docs, 28, extra=(80,))
        chk.obligation('E1cut: cut-dense grammars, implementation vs model', 'correspondence',
                       not any(v['signature'].startswith('E1cut') for v in chk.violations))
        chk.obligation('generated parsers commit in the same scopes as the model (success / failure)', 'oracle',
                       not any(v['signature'].startswith('oracle:generated-parser') for v in chk.violations))
        chk.obligation('docs/syntax.rst cut-scope equivalences (implementation only)', 'oracle',
                       not any(v['signature'].startswith('oracle:docs') for v in chk.violations))
    return chk.finish()


if __name__ == '__main__':
    sys.exit(main())
