"""C08 - bad input and bad grammars are reported as TatSu errors at valid positions."""
from __future__ import annotations

import contextlib
import io
import sys
from pathlib import Path

sys.path.insert(0, str(Path(__file__).resolve().parent.parent))
import vlib
from vlib import Check, ModelRun, sx
import enginelib as E
import enginegen as G
import enginerun as R

PID = 'C08'
ALPHA = ['1', '_', '+', '-', '.', 'e', 'a', '²', '٣', ' ', 'T', 'r', 'u']
WORDS = ['true', 'True', 'false', 'False', 'tru', 'falsey']


# ------------------------------------------------------------------ M1: matchers, exhaustive
def shard_matchers(col, shard_i, nshards, maxlen):
    from tatsu.input import cursor as C
    mr = ModelRun('Matchers')
    strings = [s for i, s in enumerate(vlib.all_strings(''.join(ALPHA[:10]), maxlen)) if i % nshards == shard_i]
    rng = col.rng
    for _ in range(200):
        strings.append(''.join(rng.choice(ALPHA + WORDS) for _ in range(rng.randint(1, 4))))
    reqs, meta = [], []

    class Cur:  # the minimal cursor the module-level match functions need
        def __init__(self, s, pos, namechars):
            self.textstr, self.pos, self.namechars = s, pos, namechars

        def goto(self, p):
            self.pos = max(0, min(len(self.textstr), p))

    for s in strings:
        chars = set(s)
        dec = ' '.join(str(ord(c)) for c in chars if c.isdecimal())
        alp = ' '.join(str(ord(c)) for c in chars if c.isalpha())
        aln = ' '.join(str(ord(c)) for c in chars if c.isalnum())
        for pos in range(len(s) + 1):
            for kind, fn in (('uint', C.matchuint), ('int', C.matchint), ('float', C.matchfloat), ('name', C.matchname), ('bool', C.matchbool)):
                nch = '-' if (kind == 'name' and len(s) % 2) else ''
                cur = Cur(s, pos, set(nch))
                try:
                    v = fn(cur)
                    impl = None if v is None else (cur.pos - pos, v)
                except Exception as e:  # noqa
                    impl = ('raises', type(e).__name__)
                reqs.append(f'(m {kind} ({dec}) ({alp}) ({aln}) {sx(nch)} {sx(s[pos:])})')
                meta.append((s, pos, kind, impl))
    replies = mr.ask(reqs)
    for (s, pos, kind, impl), rep in zip(meta, replies):
        col.case(['m', s, pos, kind], nontrivial=len(s) > pos)
        col.count('matcher.' + kind + ('.match' if isinstance(impl, tuple) and impl[0] != 'raises' else '.none' if impl is None else '.raises'))
        if isinstance(impl, tuple) and impl[0] == 'raises':
            col.violation(f'oracle:matcher-raises:{kind}:{impl[1]}', f'@{kind} raises {impl[1]} instead of failing',
                          {'oracle': 'matchers never raise', 'text': s, 'pos': pos, 'kind': kind, 'exception': impl[1]})
            continue
        model = None if rep == 'none' else int(rep[1])
        mval = (rep[2] == '1') if (kind == 'bool' and rep != 'none') else None
        ilen = None if impl is None else impl[0]
        if model != ilen or (kind == 'bool' and impl is not None and impl[1] != mval):
            col.violation(f'M1:{kind}', f'@{kind} differs from Matchers.v',
                          {'correspondence': 'M1 matchers', 'text': s, 'pos': pos, 'kind': kind, 'impl': str(impl), 'model': str(rep)})
        if impl is not None and not (0 < impl[0] <= len(s) - pos):
            col.violation(f'oracle:matcher-bounds:{kind}', 'a match is empty or leaves the text',
                          {'oracle': 'match bounds', 'text': s, 'pos': pos, 'kind': kind, 'impl': str(impl)})


# ------------------------------------------------------------------ engine-level robustness oracle
UNI = ['a', 'b', '1', ' ', '\n', '\r', '\r\n', '\t', '\x00', '\x0b', '\x1c', '²', '٣', ' ', 'é', '\U0001f600', ',', '+', 'x', 'if',
       'true', '-', '_', '.', '"', "'", '\\', '(', ')']


EOL = ('call', '$->')      # the end-of-line expression; enginelib's printer writes the name of a call verbatim


def with_metas(rng, e):
    k = E.kind(e)
    if k == 'pat' and not G.surely_consumes(e) and rng.random() < 0.25:
        return EOL      # $-> may succeed without consuming (at the end of the text): it only ever stands for an element that may too,
        #                 so the generator's guarantee (no left recursion, no unbounded recursion) is kept
    if k in ('tok', 'pat') and rng.random() < 0.25:
        return ('meta', rng.choice(['int', 'uint', 'float', 'bool', 'name']))
    if k in ('seq', 'choice'):
        xs = [with_metas(rng, x) for x in e[1]]
        if k == 'seq' and rng.random() < 0.08:
            xs.insert(rng.randint(0, len(xs)), EOL)     # an extra element never removes consumption
        return (k, xs)
    if k in ('group', 'skipgroup', 'opt', 'skipto'):
        return (k, with_metas(rng, e[1]))
    if k == 'rep':
        return ('rep', e[1], e[2], e[3], with_metas(rng, e[4]))
    if k == 'look':
        return ('look', e[1], with_metas(rng, e[2]))
    if k == 'named':
        return ('named', e[1], e[2], with_metas(rng, e[3]))
    if k == 'over':
        return ('over', e[1], with_metas(rng, e[2]))
    return e


def check_failure(col, exc, text, where, case):
    """A reported failure carries a position inside the text whose line/col/text agree, and renders."""
    from tatsu.exceptions import FailedParse
    if not isinstance(exc, FailedParse):
        return
    try:
        pos = exc.pos
        msg = str(exc)
        info = exc.info if hasattr(exc, 'info') else None
    except Exception as e:  # noqa
        col.violation(f'oracle:failure-does-not-render:{where}:{type(e).__name__}', 'a reported failure cannot be rendered',
                      {'oracle': 'message renders', 'case': case, 'exception': repr(e)})
        return
    if not (0 <= pos <= len(text)):
        col.violation(f'oracle:failure-position-out-of-text:{where}', f'failure position {pos} outside the text (len {len(text)})',
                      {'oracle': 'failure position', 'case': case, 'pos': pos})
    if info is not None:
        try:
            line_ok = 0 <= info.line and info.col >= 0 and info.start <= min(pos, max(0, len(text) - 1) if text else 0) <= max(info.end, info.start)
            lines = text.splitlines(True)
            text_ok = (not lines) or info.text == (lines[min(info.line, len(lines) - 1)] if info.line < len(lines) else info.text)
        except Exception as e:  # noqa
            line_ok, text_ok = False, False
        if not (line_ok and text_ok):
            col.violation(f'oracle:failure-lineinfo-inconsistent:{where}', 'line/column/source line of a failure disagree with its position',
                          {'oracle': 'failure lineinfo', 'case': case, 'pos': pos, 'info': str(info)[:300]})


# ---- rule shapes: everything the rule header of the grammar language accepts, on EVERY rule (the start rule included) ----
DECORATORS = ['name', 'isname', 'nomemo', 'nostak']
RULE_PARAMS = ['(A)', '(A, b=1)', '[A]', '(b=1)', '::A', "('x', 2)", '(A::B)']
DEF_TOKENS = ['=', '=', ':', ':=', '::=']


def shape_rules(rng, g):
    """Decorators (@name @isname @nomemo @nostak, alone and combined), rule parameters, the alternative definition
    tokens, an @override re-definition and a based rule (`ext < base`), each on rules chosen at random."""
    rules = g['rules']
    shapes = [{} for _ in rules]
    if rng.random() < 0.6:
        for i, (n, d, e) in enumerate(rules):
            if rng.random() < 0.45:
                rules[i] = (n, list(d) + rng.sample(DECORATORS, rng.choice([1, 1, 2])), e)
            if rng.random() < 0.2:
                shapes[i]['params'] = rng.choice(RULE_PARAMS)
            if rng.random() < 0.15 and shapes[i].get('params') != '::A':
                shapes[i]['def'] = rng.choice(DEF_TOKENS)
        if rng.random() < 0.15:
            n, d, e = rules[-1]      # the last rule calls no later rule: re-defining it with a leaf keeps the grammar well-founded
            rules.append((n, ['override'] + rng.sample(DECORATORS, rng.choice([0, 0, 1])), rng.choice([('tok', 'a'), ('pat', r'[a-z]+'), ('pat', 'x*')])))
            shapes.append({})
        if rng.random() < 0.15:
            base = rules[-1][0]
            rules.append(('ext', rng.sample(DECORATORS, rng.choice([0, 0, 1])), rng.choice([('tok', 'b'), ('opt', ('tok', ',')), 'eof'])))
            shapes.append({'base': base})
        if any('name' in d or 'isname' in d for _, d, _ in rules) and rng.random() < 0.6:
            g['keywords'] = rng.sample(['if', 'x', 'a', 'true', 'ab'], 2)
    g['shapes'] = shapes
    return g


# ---- scanner configuration: the three skipping patterns, each with the ways it can match the EMPTY string ----
WS_POOL = ['[ ]*', r'\s*', 'x*', r'\s+', r'[ \t]+', r'[\s,]*', r'(\s)*', '(?:)', r'(?m)^', r'\b', '', None]
COMMENTS_POOL = [r'/\*(?:.|\n)*?\*/', r'\(\*((?:.|\n)*?)\*\)', r'(?:/\*(?:.|\n)*?\*/)?', r'(?s)/\*.*?\*/|', r'(/\*\*/)*', r'/\*(.*?)\*/', r'(?=/)', '']
EOL_POOL = ['#.*', r'#[^\n]*', '(?m)#.*$', r'#([^\n]*)', r'(?:#[^\n]*)?', '(#.*)?', '#*', '(?m)$', '(?=#)', r'//.*|#.*', r'(?://|#)([^\n]*)', '']
COMMENT_BITS = ['#', '# ', '//', '/*', '*/', '/**/', '(*', '*)', '#\n']


def scanner_settings(rng, directive=False):
    st = {}
    if rng.random() < 0.5:
        st['whitespace'] = rng.choice(WS_POOL)
    if rng.random() < 0.6:
        st['comments'] = rng.choice(COMMENTS_POOL)
    if rng.random() < 0.6:
        st['eol_comments'] = rng.choice(EOL_POOL)
    if rng.random() < 0.2:
        st['nameguard'] = rng.random() < 0.5
    if rng.random() < 0.2:
        st['ignorecase'] = rng.random() < 0.6
    if rng.random() < 0.15:
        st['namechars'] = rng.choice(['-', '_-', '$', '+'])
    if directive:
        st = {k: v for k, v in st.items() if not (k in ('comments', 'eol_comments') and not v)}
    return st


def engine_settings(rng, g):
    st = {}
    if rng.random() < 0.15:
        st['memoization'] = False
    if rng.random() < 0.15:
        st['left_recursion'] = False
    if rng.random() < 0.25 and len(g['rules']) > 1:
        st['start'] = rng.choice(g['rules'][1:])[0]
    if rng.random() < 0.08:
        # the console tracer renders the rule stack, the position and the lookahead line at every event
        st.update(trace=True, colorize=rng.random() < 0.5)
        if rng.random() < 0.5:
            st['trace_filename'] = True
        if rng.random() < 0.3:
            st['trace_length'] = rng.choice([0, 1, 8])
    return st


def render(g):
    """Grammar text with the rule shapes and all directives (enginelib.grammar_text prints plain `name = exp ;` rules only)."""
    out = []
    for name, value in g.get('directives', {}).items():
        if name in ('whitespace', 'comments', 'eol_comments'):
            if value is None:
                out.append(f'@@{name} :: None')
            elif '/' in value:
                assert '"' not in value
                out.append(f'@@{name} :: ?"{value}"')
            else:
                out.append(f'@@{name} :: /{value}/')
        elif name == 'namechars':
            out.append(f"@@namechars :: '{value}'")
        else:
            out.append(f'@@{name} :: {value}')
    if g.get('keywords'):
        out.append('@@keyword :: ' + ' '.join(g['keywords']))
    shapes = g.get('shapes') or [{} for _ in g['rules']]
    for (name, decorators, e), sh in zip(g['rules'], shapes):
        for d in decorators:
            out.append('@' + d)
        head = name + sh.get('params', '') + (' < ' + sh['base'] if sh.get('base') else '')
        out.append(f'{head} {sh.get("def", "=")} {E.to_text(e, "top")} ;')
    return '\n'.join(out) + '\n'


_models: dict = {}
_parsers: dict = {}


def compile_text(txt):
    import tatsu
    if txt not in _models:
        try:
            m = R.with_timeout(lambda: tatsu.compile(txt, name='G'), 20)
            if isinstance(m, tuple):
                m = ('compile-timeout', '')
        except RecursionError:
            m = ('compile-recursion', '')
        except Exception as e:  # noqa
            m = ('compile-error', type(e).__name__, str(e)[:200])
        _models[txt] = m
    return _models[txt]


def generated_parser(txt):
    """An instance of the parser class generated from the grammar text (the other way the property's parses are run)."""
    import tatsu
    if txt not in _parsers:
        try:
            src = R.with_timeout(lambda: tatsu.to_python_sourcecode(txt, name='G'), 30)
            if isinstance(src, tuple):
                res = ('codegen-timeout', '')
            else:
                ns: dict = {}
                exec(compile(src, '<generated G>', 'exec'), ns)
                res = ns['GParser']()
        except RecursionError:
            res = ('codegen-recursion', '')
        except Exception as e:  # noqa
            res = ('codegen-error', type(e).__name__, str(e)[:200])
        _parsers[txt] = res
    return _parsers[txt]


def run_variant(target, text, v, seconds=5):
    """One parse; v = {'input': 'text'|'textlines'|'buffer', 'input_cfg': {..}, 'parse_kw': {..}}. -> (class, exception)"""
    from tatsu.exceptions import TatSuException
    from tatsu.input.buffer import Buffer
    from tatsu.input.textlines import TextLines

    def run():
        try:
            if v['input'] == 'text':
                inp = text
            else:
                inp = (Buffer if v['input'] == 'buffer' else TextLines)(text, **v.get('input_cfg', {}))
            with contextlib.redirect_stderr(io.StringIO()):     # the trace goes to stderr
                target.parse(inp, **v.get('parse_kw', {}))
            return ('ok', None)
        except TatSuException as e:
            return ('tatsu', e)
        except RecursionError as e:
            return ('recursion', e)
        except Exception as e:  # noqa
            return ('foreign', e)
    return R.with_timeout(run, seconds)


def variant_class(v):
    """The shape class of a parse configuration, for signatures: which settings travel by which channel, and which of the
    skipping patterns can match the empty string."""
    import re as _re
    parts = []
    for chan in ('input_cfg', 'parse_kw'):
        for k in sorted(v.get(chan, {})):
            if k == 'parseinfo':
                continue
            val = v[chan][k]
            tag = k
            if k in ('whitespace', 'comments', 'eol_comments'):
                tag += '~empty' if (isinstance(val, str) and val and _re.compile(val).match('') is not None) else ''
            parts.append(('in.' if chan == 'input_cfg' else 'kw.') + tag)
    return ','.join(parts)


def shrink_variant(target, text, v, same, budget=12):
    """Drop settings (and shorten the text) while the same outcome class / exception type stays."""
    changed = True
    while changed and budget > 0:
        changed = False
        for chan in ('input_cfg', 'parse_kw'):
            for k in sorted(v.get(chan, {})):
                if budget <= 0:
                    break
                vv = dict(v)
                vv[chan] = {a: b for a, b in v[chan].items() if a != k}
                budget -= 1
                if same(target, text, vv):
                    v, changed = vv, True
        for t in ('', text[:len(text) // 2], text[len(text) // 2:]):
            if budget > 0 and len(t) < len(text):
                budget -= 1
                if same(target, t, v):
                    text, changed = t, True
                    break
    return text, v


def shrink_shapes(g, tname, text, v, same, budget=24):
    """Drop decorators, parameters, definition tokens, the @override / based rules and directives one at a time while the
    failure stays the same; -> (grammar, its text, its compiled model / generated parser)."""
    import copy

    def build(gg):
        txt = render(gg)
        t = compile_text(txt)
        if not isinstance(t, tuple) and tname == 'generated':
            t = generated_parser(txt)
        return None if isinstance(t, tuple) else (txt, t)

    best = (g, render(g), None)
    plain = {'rules': [(n, [], e) for (n, d, e), sh in zip(g['rules'], g['shapes']) if 'override' not in d and not sh.get('base')],
             'directives': {}, 'keywords': []}
    plain['shapes'] = [{} for _ in plain['rules']]
    if render(plain) != best[1]:        # first everything at once: most failures of a configuration do not depend on the rule headers
        budget -= 1
        built = build(plain)
        if built is not None and same(built[1], text, v):
            return (plain, built[0], built[1])
    changed = True
    while changed and budget > 0:
        changed = False
        g0 = best[0]
        cands = []
        for i, (n, d, e) in enumerate(g0['rules']):
            for x in d:
                if x != 'override':
                    cands.append(('deco', i, x))
            sh = g0['shapes'][i]
            for key in ('params', 'def'):
                if key in sh:
                    cands.append(('shape', i, key))
            if 'override' in d or sh.get('base'):
                cands.append(('rule', i, None))
        cands += [('directive', None, k) for k in g0.get('directives', {})] + ([('keywords', None, None)] if g0.get('keywords') else [])
        for what, i, x in cands:
            if budget <= 0:
                break
            gg = copy.deepcopy(best[0])
            if what == 'deco':
                n, d, e = gg['rules'][i]
                gg['rules'][i] = (n, [y for y in d if y != x], e)
            elif what == 'shape':
                del gg['shapes'][i][x]
            elif what == 'rule':
                del gg['rules'][i]
                del gg['shapes'][i]
            elif what == 'directive':
                del gg['directives'][x]
            else:
                gg['keywords'] = []
            if render(gg) == best[1]:
                continue
            budget -= 1
            built = build(gg)
            if built is not None and same(built[1], text, v):
                best = (gg, built[0], built[1])
                changed = True
                break
    return best


def judge(col, target, tname, g, gtext, text, v, lrec=False):
    out = run_variant(target, text, v)
    kind = v['input'] if v['input'] != 'textlines' else 'textlines-object'
    col.count(f'engine.{tname}.{kind}.{out[0]}')
    if out[0] in ('ok',):
        return
    if lrec and out[0] in ('recursion', 'foreign'):
        # a left-recursive grammar (only the mutated texts can be one): deep recursion, and what an interpreter-level
        # RecursionError leaves behind while it unwinds, is outside the property
        col.count(f'engine.{tname}.left-recursive-grammar-exempt')
        return
    where = kind if tname == 'model' else f'{tname}:{kind}'
    if out[0] == 'tatsu':
        check_failure(col, out[1], text, where, {'grammar': gtext, 'text': text, 'variant': repr(v)})
        return
    cls = out[0]
    excname = type(out[1]).__name__ if out[1] is not None else 'timeout'
    hang = cls == 'timeout'

    def same(tg, t, vv):
        o = run_variant(tg, t, vv, 2)
        return o[0] == cls and (hang or type(o[1]).__name__ == excname)
    stext, sv = shrink_variant(target, text, v, same, budget=6 if hang else 14)
    sgtext, gclass = gtext, ''
    if g is not None:
        sg, sgtext, starget = shrink_shapes(g, tname, stext, sv, same, budget=4 if hang else 24)
        gclass = grammar_class(sg)
        if starget is not None and not hang:
            stext, sv = shrink_variant(starget, stext, sv, same, budget=8)
    case = {'grammar': sgtext, 'text': stext, 'target': tname, 'variant': repr(sv),
            'original': {'grammar': gtext, 'text': text, 'variant': repr(v)}}
    vc = variant_class(sv)
    tail = (':' + vc if vc else '') + (':' + gclass if gclass else '')
    if hang:
        col.hangs = getattr(col, 'hangs', 0) + 1
        col.violation(f'oracle:hang:{where}{tail}', 'a parse does not terminate', {'oracle': 'no hang', 'case': case})
    elif cls == 'foreign':
        col.violation(f'oracle:foreign-exception:{where}:{excname}{tail}', f'parse raised {excname}, not a TatSu error',
                      {'oracle': 'only TatSu exceptions', 'case': case, 'exception': repr(out[1])[:300]})
    elif cls == 'recursion':
        col.violation(f'oracle:recursion:{where}{tail}', 'unbounded recursion on a non-left-recursive grammar',
                      {'oracle': 'bounded recursion', 'case': case})


def grammar_class(g):
    """Shape class of the rule headers, for signatures (empty for plain grammars)."""
    sh = g.get('shapes') or []
    tags = set()
    for i, ((n, d, e), s) in enumerate(zip(g['rules'], sh)):
        for x in d:
            tags.add(('start@' if i == 0 else '@') + x)
        if s.get('params'):
            tags.add('params')
        if s.get('base'):
            tags.add('based')
    return '+'.join(sorted(tags))


def gen_text(rng, comments):
    pool = UNI + COMMENT_BITS * 2 if comments else UNI
    return ''.join(rng.choice(pool) for _ in range(rng.randint(0, 8)))


def shard_engine(col, shard_i, ngrammars, ninputs):
    rng = col.rng
    for gi in range(ngrammars):
        g = G.gen_grammar(rng, G.GenCfg(), depth=rng.choice([2, 3]))
        g['rules'] = [(n, d, with_metas(rng, e)) for n, d, e in g['rules']]
        shape_rules(rng, g)
        r = rng.random()
        if r < 0.15:
            g['directives']['whitespace'] = rng.choice(['[ ]*', r'\s*', 'x*'])     # patterns that can match empty
        elif r < 0.35:
            g['directives'].update(scanner_settings(rng, directive=True))
        if rng.random() < 0.1:
            g['directives']['eol_comments'] = rng.choice(['#.*', '(?m)#.*$'])
        for name in ('left_recursion', 'memoization', 'parseinfo'):
            if rng.random() < 0.05:
                g['directives'][name] = rng.choice(['True', 'False'])
        gtext = render(g)
        gclass = grammar_class(g)
        for t in (gclass.split('+') if gclass else ['plain']):
            col.count('grammar.shape.' + t)
        m = compile_text(gtext)
        if isinstance(m, tuple):
            col.count('grammar.' + m[0])
            if m[0] in ('compile-timeout', 'compile-recursion') or (m[0] == 'compile-error' and m[1] not in TATSU_NAMES()):
                col.violation(f'oracle:compile:{m[0]}:{m[1] if len(m) > 1 else ""}', 'compiling a generated grammar raised a foreign exception / hung',
                              {'oracle': 'compile raises only TatSu errors', 'grammar': gtext, 'outcome': m})
            continue
        col.count('grammar.compiled')
        p = None
        if rng.random() < 0.5:
            p = generated_parser(gtext)
            if isinstance(p, tuple):
                col.count('generated.' + p[0])
                if p[0] != 'codegen-error' or p[1] not in TATSU_NAMES():
                    col.violation(f'oracle:codegen:{p[0]}:{p[1]}:{gclass}', 'generating the parser of a grammar that compiles raised a foreign exception / hung',
                                  {'oracle': 'only TatSu exceptions', 'grammar': gtext, 'outcome': p})
                p = None
        commenty = any(k in g['directives'] for k in ('comments', 'eol_comments'))
        for k in range(ninputs):
            if getattr(col, 'hangs', 0) >= 2:
                # every further hang costs its full deadline: two shrunk reports per shard are kept, the check has failed anyway
                col.count('engine.stopped-after-two-hangs')
                return
            text = gen_text(rng, commenty and rng.random() < 0.7)
            if k == 0:
                text = ''
            variants = [{'input': kind, 'parse_kw': {'parseinfo': pinfo}} for kind in ('text', 'buffer') for pinfo in (False, True)]
            # configurations: scanner settings handed to the input object / to parse(), engine settings, another start rule
            ctext = gen_text(rng, True) if k else ''
            extra = []
            for kind in ('buffer', 'textlines', 'text'):
                st = scanner_settings(rng)
                kw = dict(engine_settings(rng, g), parseinfo=rng.random() < 0.5)
                if kind == 'text':
                    kw.update(st)
                    extra.append({'input': kind, 'parse_kw': kw})
                else:
                    extra.append({'input': kind, 'input_cfg': st, 'parse_kw': kw})
            for v in variants:
                col.case(['eng', gtext, text, repr(v)], nontrivial=bool(text))
                judge(col, m, 'model', g, gtext, text, v)
            for v in extra:
                col.case(['eng', gtext, ctext, repr(v)], nontrivial=bool(ctext))
                judge(col, m, 'model', g, gtext, ctext, v)
            if p is not None:
                for v, t in ((rng.choice(variants), text), (rng.choice(extra), ctext)):
                    col.case(['gen', gtext, t, repr(v)], nontrivial=bool(t))
                    judge(col, p, 'generated', g, gtext, t, v)


_TN = None


def TATSU_NAMES():
    global _TN
    if _TN is None:
        import tatsu.exceptions as X
        _TN = {n for n in dir(X) if isinstance(getattr(X, n), type) and issubclass(getattr(X, n), X.TatSuException)}
    return _TN


def mutate(rng, s):
    if not s:
        return s
    r = rng.random()
    i = rng.randrange(len(s))
    if r < 0.3:
        return s[:i] + s[i + 1:]
    if r < 0.6:
        return s[:i] + rng.choice("'\"/\\(){}[]|~@:=;$&!+*?<>.,#%`^-_ \n\t0aZ²\x00") + s[i:]
    if r < 0.8 and len(s) > 1:
        j = min(len(s) - 1, i + 1)
        return s[:i] + s[j] + s[i] + s[j + 1:]
    return s[:i] + rng.choice("'\"/\\(){}[]|~@:=;") + s[i + 1:]


_mutated_ok: dict = {}


def shard_compile(col, shard_i, n):
    import tatsu
    from tatsu.exceptions import TatSuException
    rng = col.rng
    for _ in range(n):
        g = G.gen_grammar(rng, G.GenCfg(), depth=rng.choice([2, 3]))
        if rng.random() < 0.3:
            g['rules'] = [(nm, ['name'] if rng.random() < 0.2 else d, e) for nm, d, e in g['rules']]
            g['keywords'] = ['if', 'then']
        if rng.random() < 0.4:
            g['rules'] = [(nm, d, with_metas(rng, e)) for nm, d, e in g['rules']]
            shape_rules(rng, g)
            if rng.random() < 0.5:
                g['directives'].update(scanner_settings(rng, directive=True))
        text = render(g)
        for _k in range(rng.randint(1, 3)):
            text = mutate(rng, text)
        col.case(['compile', text], nontrivial=True)

        def run():
            try:
                _mutated_ok[text] = tatsu.compile(text, name='M')
                return ('ok', None)
            except TatSuException as e:
                return ('tatsu', e)
            except RecursionError as e:
                return ('recursion', e)
            except Exception as e:  # noqa
                return ('foreign', e)
        out = R.with_timeout(run, 10)
        col.count('compile.' + out[0])
        if out[0] == 'ok' and text in _mutated_ok:
            # a grammar text near the language that IS accepted: parsing with it is held to the same standard
            m = _mutated_ok.pop(text)
            try:
                lrec = any(getattr(r, 'is_lrec', False) for r in m.rules)
            except Exception:  # noqa
                lrec = False
            for t in ('', ''.join(rng.choice(UNI + COMMENT_BITS) for _ in range(rng.randint(1, 8)))):
                for v in ({'input': 'text', 'parse_kw': {}}, {'input': 'buffer', 'parse_kw': {'parseinfo': True}}):
                    col.case(['mutated-parse', text, t, repr(v)], nontrivial=bool(t))
                    judge(col, m, 'mutated', None, text, t, v, lrec=lrec)
        if out[0] in ('timeout', 'foreign', 'recursion'):
            small = text
            exname = type(out[1]).__name__ if out[0] != 'timeout' else 'timeout'
            col.violation(f'oracle:compile-{out[0]}:{exname}', f'compiling a grammar text ended in {exname}, not a TatSu error',
                          {'oracle': 'compile raises only TatSu errors', 'grammar': small, 'exception': repr(out[1])[:300] if out[1] else None})
        elif out[0] == 'tatsu':
            check_failure(col, out[1], text, 'compile', {'grammar': text})


# ---- a reference to an undefined rule, in every syntactic position, must be reported when the grammar is compiled ----
UNDEF_POSITIONS = {
    'sequence-element': "start = 'a' missing 'b' ;",
    'first-element': "start = missing 'b' ;",
    'choice-option': "start = 'a' | missing ;",
    'optional': "start = 'a' [missing] ;",
    'closure': "start = {missing} ;",
    'positive-closure': "start = {missing}+ ;",
    'join-element': "start = ','%{missing} ;",
    'join-separator': "start = missing%{'a'} ;",
    'positive-join-separator': "start = missing%{'a'}+ ;",
    'gather-separator': "start = missing.{'a'} ;",
    'positive-gather-separator': "start = missing.{'a'}+ ;",
    'left-join-separator': "start = missing<{'a'}+ ;",
    'right-join-separator': "start = missing>{'a'}+ ;",
    'lookahead': "start = &missing 'a' ;",
    'negative-lookahead': "start = !missing 'a' ;",
    'named': "start = n:missing ;",
    'named-list': "start = n+:missing ;",
    'override': "start = 'a' @:missing ;",
    'group': "start = ('a' missing) ;",
    'skip-group': "start = (?: missing) 'a' ;",
    'skip-to': "start = ->missing ;",
    'second-rule': "start = r ;\nr = 'a' missing ;",
    'rule-include': "start = >missing 'a' ;",
    'based-rule': "start = b ;\nb < missing = 'a' ;",
    'nested': "start = {['a' | (&'b' ','%{n:missing})]} ;",
}


def shard_undefined(col, shard_i):
    import tatsu
    from tatsu.exceptions import GrammarError, TatSuException
    for where, g in UNDEF_POSITIONS.items():
        col.case(['undefined-rule', where], nontrivial=True)
        col.count('undefined.positions')
        try:
            m = tatsu.compile(g, name='U')
            outcome = 'compiles'
        except GrammarError:
            outcome = 'GrammarError'
        except TatSuException as e:
            outcome = 'tatsu:' + type(e).__name__
        except Exception as e:  # noqa
            outcome = 'foreign:' + type(e).__name__
        # GrammarError is the documented report; another TatSu parse error of the grammar text (rule include / based rule
        # are resolved while the text is read) is a report too
        if outcome == 'compiles' or outcome.startswith('foreign:'):
            col.violation(f'oracle:undefined-rule-not-reported:{where}:{outcome}',
                          f'a grammar that refers to an undefined rule ({where}) is not rejected by tatsu.compile: {outcome}',
                          {'oracle': 'undefined rule references are reported at compile time', 'grammar': g, 'outcome': outcome})


def main():
    chk = Check(PID)
    chk.rule = ('M1: the five character-level matchers on ALL strings over {1 _ + - . e a superscript-2 arabic-3 space} up to length 4 (quick) / 5 '
                '(thorough) at every position, implementation vs Matchers.v; engine: random grammars with @meta expressions and $->, rule headers in '
                'every accepted shape (decorators @name/@isname/@nomemo/@nostak alone and combined on any rule incl. the start rule, rule parameters, '
                ': := ::= definitions, @override re-definitions, based rules) and directives (whitespace/comments/eol_comments patterns from pools '
                'that include every way of matching the EMPTY string, nameguard, ignorecase, namechars, left_recursion, memoization, parseinfo) x '
                'unicode texts (controls, CR/LF/CRLF, LS, non-decimal digits, astral, comment openers/closers) x {str, TextLines object, legacy Buffer '
                'object} x {parseinfo} x scanner settings handed to the input object or to parse() x engine settings (memoization, left_recursion, '
                'start=<another rule>, the console tracer) x {model.parse, the generated parser class (one reused instance)}; compile: generated grammar texts (plain and '
                'with rule shapes / directives) with 1-3 random insertions/deletions/transpositions, and parses with the mutated texts that are '
                'accepted. Checked: exception class, hang, recursion, failure position/line info, message renders. Failing configurations are shrunk '
                '(settings dropped, text halved) before the signature is taken.')
    chk.trusted += ['Python int()/float() accept the literals [+-]?D(_?D)* with D = str.isdecimal (checked on every matched slice by M1)',
                    'unicode predicates are oracles per string; the engine-level and compile-level parts are implementation oracles']
    chk.coq()
    ok, out = vlib.build_modelrun('Matchers')
    chk.obligation('modelrun_Matchers builds', 'build', ok, out[-500:])
    if ok:
        if chk.quick:
            vlib.run_sharded(chk, shard_matchers, 14, extra=(14, 4))
            vlib.run_sharded(chk, shard_engine, 14, extra=(60, 8))
            vlib.run_sharded(chk, shard_compile, 14, extra=(60,))
            vlib.run_sharded(chk, shard_undefined, 1, procs=1)
        else:
            vlib.run_sharded(chk, shard_matchers, 28, extra=(28, 5))
            vlib.run_sharded(chk, shard_engine, 28, extra=(150, 10))
            vlib.run_sharded(chk, shard_compile, 28, extra=(400,))
            vlib.run_sharded(chk, shard_undefined, 1, procs=1)
        chk.obligation('M1: matchers vs Matchers.v (exhaustive small scope)', 'correspondence',
                       not any(v['signature'].startswith('M1') for v in chk.violations))
        chk.obligation('no foreign exception / hang / unbounded recursion; failures at valid positions (implementation only)', 'oracle',
                       not any(v['signature'].startswith('oracle:') for v in chk.violations))
        if not chk.quick:
            chk.exhaustive = True
    return chk.finish()


if __name__ == '__main__':
    sys.exit(main())
