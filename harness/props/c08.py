"""C08 - bad input and bad grammars are reported as TatSu errors at valid positions."""
from __future__ import annotations

import contextlib
import io
import sys
from pathlib import Path

sys.path.insert(0, str(Path(__file__).resolve().parent.parent))
import vlib
from vlib import Check, ModelRun, sx
import enginelib as E
import enginegen as G
import enginerun as R

PID = 'C08'
ALPHA = ['1', '_', '+', '-', '.', 'e', 'a', '²', '٣', ' ', 'T', 'r', 'u']
WORDS = ['true', 'True', 'false', 'False', 'tru', 'falsey']


# ------------------------------------------------------------------ M1: matchers, exhaustive
def shard_matchers(col, shard_i, nshards, maxlen):
    from tatsu.input import cursor as C
    mr = ModelRun('Matchers')
    strings = [s for i, s in enumerate(vlib.all_strings(''.join(ALPHA[:10]), maxlen)) if i % nshards == shard_i]
    rng = col.rng
    for _ in range(200):
        strings.append(''.join(rng.choice(ALPHA + WORDS) for _ in range(rng.randint(1, 4))))
    reqs, meta = [], []

    class Cur:  # the minimal cursor the module-level match functions need
        def __init__(self, s, pos, namechars):
            self.textstr, self.pos, self.namechars = s, pos, namechars

        def goto(self, p):
            self.pos = max(0, min(len(self.textstr), p))

    for s in strings:
        chars = set(s)
        dec = ' '.join(str(ord(c)) for c in chars if c.isdecimal())
        alp = ' '.join(str(ord(c)) for c in chars if c.isalpha())
        aln = ' '.join(str(ord(c)) for c in chars if c.isalnum())
        for pos in range(len(s) + 1):
            for kind, fn in (('uint', C.matchuint), ('int', C.matchint), ('float', C.matchfloat), ('name', C.matchname), ('bool', C.matchbool)):
                nch = '-' if (kind == 'name' and len(s) % 2) else ''
                cur = Cur(s, pos, set(nch))
                try:
                    v = fn(cur)
                    impl = None if v is None else (cur.pos - pos, v)
                except Exception as e:  # noqa
                    impl = ('raises', type(e).__name__)
                reqs.append(f'(m {kind} ({dec}) ({alp}) ({aln}) {sx(nch)} {sx(s[pos:])})')
                meta.append((s, pos, kind, impl))
    replies = mr.ask(reqs)
    for (s, pos, kind, impl), rep in zip(meta, replies):
        col.case(['m', s, pos, kind], nontrivial=len(s) > pos)
        col.count('matcher.' + kind + ('.match' if isinstance(impl, tuple) and impl[0] != 'raises' else '.none' if impl is None else '.raises'))
        if isinstance(impl, tuple) and impl[0] == 'raises':
            col.violation(f'oracle:matcher-raises:{kind}:{impl[1]}', f'@{kind} raises {impl[1]} instead of failing',
                          {'oracle': 'matchers never raise', 'text': s, 'pos': pos, 'kind': kind, 'exception': impl[1]})
            continue
        model = None if rep == 'none' else int(rep[1])
        mval = (rep[2] == '1') if (kind == 'bool' and rep != 'none') else None
        ilen = None if impl is None else impl[0]
        if model != ilen or (kind == 'bool' and impl is not None and impl[1] != mval):
            col.violation(f'M1:{kind}', f'@{kind} differs from Matchers.v',
                          {'correspondence': 'M1 matchers', 'text': s, 'pos': pos, 'kind': kind, 'impl': str(impl), 'model': str(rep)})
        if impl is not None and not (0 < impl[0] <= len(s) - pos):
            col.violation(f'oracle:matcher-bounds:{kind}', 'a match is empty or leaves the text',
                          {'oracle': 'match bounds', 'text': s, 'pos': pos, 'kind': kind, 'impl': str(impl)})


# ------------------------------------------------------------------ engine-level robustness oracle
UNI = ['a', 'b', '1', ' ', '\n', '\r', '\r\n', '\t', '\x00', '\x0b', '\x1c', '²', '٣', ' ', 'é', '\U0001f600', ',', '+', 'x', 'if',
       'true', '-', '_', '.', '"', "'", '\\', '(', ')']


EOL = ('call', '$->')      # the end-of-line expression; enginelib's printer writes the name of a call verbatim


def with_metas(rng, e):
    k = E.kind(e)
    if k == 'pat' and not G.surely_consumes(e) and rng.random() < 0.25:
        return EOL      # $-> may succeed without consuming (at the end of the text): it only ever stands for an element that may too,
        #                 so the generator's guarantee (no left recursion, no unbounded recursion) is kept
    if k in ('tok', 'pat') and rng.random() < 0.25:
        return ('meta', rng.choice(['int', 'uint', 'float', 'bool', 'name']))
    if k in ('seq', 'choice'):
        xs = [with_metas(rng, x) for x in e[1]]
        if k == 'seq' and rng.random() < 0.08:
            xs.insert(rng.randint(0, len(xs)), EOL)     # an extra element never removes consumption
        return (k, xs)
    if k in ('group', 'skipgroup', 'opt', 'skipto'):
        return (k, with_metas(rng, e[1]))
    if k == 'rep':
        return ('rep', e[1], e[2], e[3], with_metas(rng, e[4]))
    if k == 'look':
        return ('look', e[1], with_metas(rng, e[2]))
    if k == 'named':
        return ('named', e[1], e[2], with_metas(rng, e[3]))
    if k == 'over':
        return ('over', e[1], with_metas(rng, e[2]))
    return e


def check_failure(col, exc, text, where, case):
    """A reported failure carries a position inside the text whose line/col/text agree, and renders."""
    from tatsu.exceptions import FailedParse
    if not isinstance(exc, FailedParse):
        return
    try:
        pos = exc.pos
        msg = str(exc)
        info = exc.info if hasattr(exc, 'info') else None
    except Exception as e:  # noqa
        col.violation(f'oracle:failure-does-not-render:{where}:{type(e).__name__}', 'a reported failure cannot be rendered',
                      {'oracle': 'message renders', 'case': case, 'exception': repr(e)})
        return
    if not (0 <= pos <= len(text)):
        col.violation(f'oracle:failure-position-out-of-text:{where}', f'failure position {pos} outside the text (len {len(text)})',
                      {'oracle': 'failure position', 'case': case, 'pos': pos})
    if info is not None:
        try:
            line_ok = 0 <= info.line and info.col >= 0 and info.start <= min(pos, max(0, len(text) - 1) if text else 0) <= max(info.end, info.start)
            lines = text.splitlines(True)
            text_ok = (not lines) or info.text == (lines[min(info.line, len(lines) - 1)] if info.line < len(lines) else info.text)
        except Exception as e:  # noqa
            line_ok, text_ok = False, False
        if not (line_ok and text_ok):
            col.violation(f'oracle:failure-lineinfo-inconsistent:{where}', 'line/column/source line of a failure disagree with its position',
                          {'oracle': 'failure lineinfo', 'case': case, 'pos': pos, 'info': str(info)[:300]})


# ---- rule shapes: everything the rule header of the grammar language accepts, on EVERY rule (the start rule included) ----
DECORATORS = ['name', 'isname', 'nomemo', 'nostak']
RULE_PARAMS = ['(A)', '(A, b=1)', '[A]', '(b=1)', '::A', "('x', 2)", '(A::B)']
DEF_TOKENS = ['=', '=', ':', ':=', '::=']


def shape_rules(rng, g):
    """Decorators (@name @isname @nomemo @nostak, alone and combined), rule parameters, the alternative definition
    tokens, an @override re-definition and a based rule (`ext < base`), each on rules chosen at random."""
    rules = g['rules']
    shapes = [{} for _ in rules]
    if rng.random() < 0.6:
        for i, (n, d, e) in enumerate(rules):
            if rng.random() < 0.45:
                rules[i] = (n, list(d) + rng.sample(DECORATORS, rng.choice([1, 1, 2])), e)
            if rng.random() < 0.2:
                shapes[i]['params'] = rng.choice(RULE_PARAMS)
            if rng.random() < 0.15 and shapes[i].get('params') != '::A':
                shapes[i]['def'] = rng.choice(DEF_TOKENS)
        if rng.random() < 0.15:
            n, d, e = rules[-1]      # the last rule calls no later rule: re-defining it with a leaf keeps the grammar well-founded
            rules.append((n, ['override'] + rng.sample(DECORATORS, rng.choice([0, 0, 1])), rng.choice([('tok', 'a'), ('pat', r'[a-z]+'), ('pat', 'x*')])))
            shapes.append({})
        if rng.random() < 0.15:
            base = rules[-1][0]
            rules.append(('ext', rng.sample(DECORATORS, rng.choice([0, 0, 1])), rng.choice([('tok', 'b'), ('opt', ('tok', ',')), 'eof'])))
            shapes.append({'base': base})
        if any('name' in d or 'isname' in d for _, d, _ in rules) and rng.random() < 0.6:
            g['keywords'] = rng.sample(['if', 'x', 'a', 'true', 'ab'], 2)
    g['shapes'] = shapes
    return g


# ---- scanner configuration: the three skipping patterns, each with the ways it can match the EMPTY string ----
WS_POOL = ['[ ]*', r'\s*', 'x*', r'\s+', r'[ \t]+', r'[\s,]*', r'(\s)*', '(?:)', r'(?m)^', r'\b', '', None]
COMMENTS_POOL = [r'/\*(?:.|\n)*?\*/', r'\(\*((?:.|\n)*?)\*\)', r'(?:/\*(?:.|\n)*?\*/)?', r'(?s)/\*.*?\*/|', r'(/\*\*/)*', r'/\*(.*?)\*/', r'(?=/)', '']
EOL_POOL = ['#.*', r'#[^\n]*', '(?m)#.*$', r'#([^\n]*)', r'(?:#[^\n]*)?', '(#.*)?', '#*', '(?m)$', '(?=#)', r'//.*|#.*', r'(?://|#)([^\n]*)', '']
COMMENT_BITS = ['#', '# ', '//', '/*', '*/', '/**/', '(*', '*)', '#\n']


def scanner_settings(rng, directive=False):
    st = {}
    if rng.random() < 0.5:
        st['whitespace'] = rng.choice(WS_POOL)
    if rng.random() < 0.6:
        st['comments'] = rng.choice(COMMENTS_POOL)
    if rng.random() < 0.6:
        st['eol_comments'] = rng.choice(EOL_POOL)
    if rng.random() < 0.2:
        st['nameguard'] = rng.random() < 0.5
    if rng.random() < 0.2:
        st['ignorecase'] = rng.random() < 0.6
    if rng.random() < 0.15:
        st['namechars'] = rng.choice(['-', '_-', '$', '+'])
    if directive:
        st = {k: v for k, v in st.items() if not (k in ('comments', 'eol_comments') and not v)}
    return st


def engine_settings(rng, g):
    st = {}
    if rng.random() < 0.15:
        st['memoization'] = False
    if rng.random() < 0.15:
        st['left_recursion'] = False
    if rng.random() < 0.25 and len(g['rules']) > 1:
        st['start'] = rng.choice(g['rules'][1:])[0]
    if rng.random() < 0.08:
        # the console tracer renders the rule stack, the position and the lookahead line at every event
        st.update(trace=True, colorize=rng.random() < 0.5)
        if rng.random() < 0.5:
            st['trace_filename'] = True
        if rng.random() < 0.3:
            st['trace_length'] = rng.choice([0, 1, 8])
    return st


def render(g):
    """Grammar text with the rule shapes and all directives (enginelib.grammar_text prints plain `name = exp ;` rules only)."""
    out = []
    for name, value in g.get('directives', {}).items():
        if name in ('whitespace', 'comments', 'eol_comments'):
            if value is None:
                out.append(f'@@{name} :: None')
            elif '/' in value:
                assert '"' not in value
                out.append(f'@@{name} :: ?"{value}"')
            else:
                out.append(f'@@{name} :: /{value}/')
        elif name == 'namechars':
            out.append(f"@@namechars :: '{value}'")
        else:
            out.append(f'@@{name} :: {value}')
    if g.get('keywords'):
        out.append('@@keyword :: ' + ' '.join(g['keywords']))
    shapes = g.get('shapes') or [{} for _ in g['rules']]
    for (name, decorators, e), sh in zip(g['rules'], shapes):
        for d in decorators:
            out.append('@' + d)
        head = name + sh.get('params', '') + (' < ' + sh['base'] if sh.get('base') else '')
        out.append(f'{head} {sh.get("def", "=")} {E.to_text(e, "top")} ;')
    return '\n'.join(out) + '\n'


_models: dict = {}
_parsers: dict = {}


def compile_text(txt):
    import tatsu
    if txt not in _models:
        try:
            m = R.with_timeout(lambda: tatsu.compile(txt, name='G'), 20)
            if isinstance(m, tuple):
                m = ('compile-timeout', '')
        except RecursionError:
            m = ('compile-recursion', '')
        except Exception as e:  # noqa
            m = ('compile-error', type(e).__name__, str(e)[:200])
        _models[txt] = m
    return _models[txt]


def generated_parser(txt):
    """An instance of the parser class generated from the grammar text (the other way the property's parses are run)."""
    import tatsu
    if txt not in _parsers:
        try:
            src = R.with_timeout(lambda: tatsu.to_python_sourcecode(txt, name='G'), 30)
            if isinstance(src, tuple):
                res = ('codegen-timeout', '')
            else:
                ns: dict = {}
                exec(compile(src, '<generated G>', 'exec'), ns)
                res = ns['GParser']()
        except RecursionError:
            res = ('codegen-recursion', '')
        except Exception as e:  # noqa
            res = ('codegen-error', type(e).__name__, str(e)[:200])
        _parsers[txt] = res
    return _parsers[txt]


def run_variant(target, text, v, seconds=5):
    """One parse; v = {'input': 'text'|'textlines'|'buffer', 'input_cfg': {..}, 'parse_kw': {..}}. -> (class, exception)"""
    from tatsu.exceptions import TatSuException
    from tatsu.input.buffer import Buffer
    from tatsu.input.textlines import TextLines

    def run():
        try:
            if v['input'] == 'text':
                inp = text
            else:
                inp = (Buffer if v['input'] == 'buffer' else TextLines)(text, **v.get('input_cfg', {}))
            with contextlib.redirect_stderr(io.StringIO()):     # the trace goes to stderr
                target.parse(inp, **v.get('parse_kw', {}))
            return ('ok', None)
        except TatSuException as e:
            return ('tatsu', e)
        except RecursionError as e:
            return ('recursion', e)
        except Exception as e:  # noqa
            return ('foreign', e)
    return R.with_timeout(run, seconds)


def variant_class(v):
    """The shape class of a parse configuration, for signatures: which settings travel by which channel, and which of the
    skipping patterns can match the empty string."""
    import re as _re
    parts = []
    for chan in ('input_cfg', 'parse_kw'):
        for k in sorted(v.get(chan, {})):
            if k == 'parseinfo':
                continue
            val = v[chan][k]
            tag = k
            if k in ('whitespace', 'comments', 'eol_comments'):
                tag += '~empty' if (isinstance(val, str) and val and _re.compile(val).match('') is not None) else ''
            parts.append(('in.' if chan == 'input_cfg' else 'kw.') + tag)
    return ','.join(parts)


def shrink_variant(target, text, v, same, budget=12):
    """Drop settings (and shorten the text) while the same outcome class / exception type stays."""
    changed = True
    while changed and budget > 0:
        changed = False
        for chan in ('input_cfg', 'parse_kw'):
            for k in sorted(v.get(chan, {})):
                if budget <= 0:
                    break
                vv = dict(v)
                vv[chan] = {a: b for a, b in v[chan].items() if a != k}
                budget -= 1
                if same(target, text, vv):
                    v, changed = vv, True
        for t in ('', text[:len(text) // 2], text[len(text) // 2:]):
            if budget > 0 and len(t) < len(text):
                budget -= 1
                if same(target, t, v):
                    text, changed = t, True
                    break
    return text, v


def shrink_shapes(g, tname, text, v, same, budget=24):
    """Drop decorators, parameters, definition tokens, the @override / based rules and directives one at a time while the
    failure stays the same; -> (grammar, its text, its compiled model / generated parser)."""
    import copy

    def build(gg):
        txt = render(gg)
        t = compile_text(txt)
        if not isinstance(t, tuple) and tname == 'generated':
            t = generated_parser(txt)
        return None if isinstance(t, tuple) else (txt, t)

    best = (g, render(g), None)
    plain = {'rules': [(n, [], e) for (n, d, e), sh in zip(g['rules'], g['shapes']) if 'override' not in d and not sh.get('base')],
             'directives': {}, 'keywords': []}
    plain['shapes'] = [{} for _ in plain['rules']]
    if render(plain) != best[1]:        # first everything at once: most failures of a configuration do not depend on the rule headers
        budget -= 1
        built = build(plain)
        if built is not None and same(built[1], text, v):
            return (plain, built[0], built[1])
    changed = True
    while changed and budget > 0:
        changed = False
        g0 = best[0]
        cands = []
        for i, (n, d, e) in enumerate(g0['rules']):
            for x in d:
                if x != 'override':
                    cands.append(('deco', i, x))
            sh = g0['shapes'][i]
            for key in ('params', 'def'):
                if key in sh:
                    cands.append(('shape', i, key))
            if 'override' in d or sh.get('base'):
                cands.append(('rule', i, None))
        cands += [('directive', None, k) for k in g0.get('directives', {})] + ([('keywords', None, None)] if g0.get('keywords') else [])
        for what, i, x in cands:
            if budget <= 0:
                break
            gg = copy.deepcopy(best[0])
            if what == 'deco':
                n, d, e = gg['rules'][i]
                gg['rules'][i] = (n, [y for y in d if y != x], e)
            elif what == 'shape':
                del gg['shapes'][i][x]
            elif what == 'rule':
                del gg['rules'][i]
                del gg['shapes'][i]
            elif what == 'directive':
                del gg['directives'][x]
            else:
                gg['keywords'] = []
            if render(gg) == best[1]:
                continue
            budget -= 1
            built = build(gg)
            if built is not None and same(built[1], text, v):
                best = (gg, built[0], built[1])
                changed = True
                break
    return best


def judge(col, target, tname, g, gtext, text, v, lrec=False):
    out = run_variant(target, text, v)
    kind = v['input'] if v['input'] != 'textlines' else 'textlines-object'
    col.count(f'engine.{tname}.{kind}.{out[0]}')
    if out[0] in ('ok',):
        return
    if lrec and out[0] in ('recursion', 'foreign'):
        # a left-recursive grammar (only the mutated texts can be one): deep recursion, and what an interpreter-level
        # RecursionError leaves behind while it unwinds, is outside the property
        col.count(f'engine.{tname}.left-recursive-grammar-exempt')
        return
    where = kind if tname == 'model' else f'{tname}:{kind}'
    if out[0] == 'tatsu':
        check_failure(col, out[1], text, where, {'grammar': gtext, 'text': text, 'variant': repr(v)})
        return
    cls = out[0]
    excname = type(out[1]).__name__ if out[1] is not None else 'timeout'
    hang = cls == 'timeout'

    def same(tg, t, vv):
        o = run_variant(tg, t, vv, 2)
        return o[0] == cls and (hang or type(o[1]).__name__ == excname)
    stext, sv = shrink_variant(target, text, v, same, budget=6 if hang else 14)
    sgtext, gclass = gtext, ''
    if g is not None:
        sg, sgtext, starget = shrink_shapes(g, tname, stext, sv, same, budget=4 if hang else 24)
        gclass = grammar_class(sg)
        if starget is not None and not hang:
            stext, sv = shrink_variant(starget, stext, sv, same, budget=8)
    case = {'grammar': sgtext, 'text': stext, 'target': tname, 'variant': repr(sv),
            'original': {'grammar': gtext, 'text': text, 'variant': repr(v)}}
    vc = variant_class(sv)
    tail = (':' + vc if vc else '') + (':' + gclass if gclass else '')
    if hang:
        col.hangs = getattr(col, 'hangs', 0) + 1
        col.violation(f'oracle:hang:{where}{tail}', 'a parse does not terminate', {'oracle': 'no hang', 'case': case})
    elif cls == 'foreign':
        col.violation(f'oracle:foreign-exception:{where}:{excname}{tail}', f'parse raised {excname}, not a TatSu error',
                      {'oracle': 'only TatSu exceptions', 'case': case, 'exception': repr(out[1])[:300]})
    elif cls == 'recursion':
        col.violation(f'oracle:recursion:{where}{tail}', 'unbounded recursion on a non-left-recursive grammar',
                      {'oracle': 'bounded recursion', 'case': case})


def grammar_class(g):
    """Shape class of the rule headers, for signatures (empty for plain grammars)."""
    sh = g.get('shapes') or []
    tags = set()
    for i, ((n, d, e), s) in enumerate(zip(g['rules'], sh)):
        for x in d:
            tags.add(('start@' if i == 0 else '@') + x)
        if s.get('params'):
            tags.add('params')
        if s.get('base'):
            tags.add('based')
    return '+'.join(sorted(tags))


def gen_text(rng, comments):
    pool = UNI + COMMENT_BITS * 2 if comments else UNI
    return ''.join(rng.choice(pool) for _ in range(rng.randint(0, 8)))


def shard_engine(col, shard_i, ngrammars, ninputs):
    rng = col.rng
    for gi in range(ngrammars):
        g = G.gen_grammar(rng, G.GenCfg(), depth=rng.choice([2, 3]))
        g['rules'] = [(n, d, with_metas(rng, e)) for n, d, e in g['rules']]
        shape_rules(rng, g)
        r = rng.random()
        if r < 0.15:
            g['directives']['whitespace'] = rng.choice(['[ ]*', r'\s*', 'x*'])     # patterns that can match empty
        elif r < 0.35:
            g['directives'].update(scanner_settings(rng, directive=True))
        if rng.random() < 0.1:
            g['directives']['eol_comments'] = rng.choice(['#.*', '(?m)#.*$'])
        for name in ('left_recursion', 'memoization', 'parseinfo'):
            if rng.random() < 0.05:
                g['directives'][name] = rng.choice(['True', 'False'])
        gtext = render(g)
        gclass = grammar_class(g)
        for t in (gclass.split('+') if gclass else ['plain']):
            col.count('grammar.shape.' + t)
        m = compile_text(gtext)
        if isinstance(m, tuple):
            col.count('grammar.' + m[0])
            if m[0] in ('compile-timeout', 'compile-recursion') or (m[0] == 'compile-error' and m[1] not in TATSU_NAMES()):
                col.violation(f'oracle:compile:{m[0]}:{m[1] if len(m) > 1 else ""}', 'compiling a generated grammar raised a foreign exception / hung',
                              {'oracle': 'compile raises only TatSu errors', 'grammar': gtext, 'outcome': m})
            continue
        col.count('grammar.compiled')
        p = None
        if rng.random() < 0.5:
            p = generated_parser(gtext)
            if isinstance(p, tuple):
                col.count('generated.' + p[0])
                if p[0] != 'codegen-error' or p[1] not in TATSU_NAMES():
                    col.violation(f'oracle:codegen:{p[0]}:{p[1]}:{gclass}', 'generating the parser of a grammar that compiles raised a foreign exception / hung',
                                  {'oracle': 'only TatSu exceptions', 'grammar': gtext, 'outcome': p})
                p = None
        commenty = any(k in g['directives'] for k in ('comments', 'eol_comments'))
        for k in range(ninputs):
            if getattr(col, 'hangs', 0) >= 2:
                # every further hang costs its full deadline: two shrunk reports per shard are kept, the check has failed anyway
                col.count('engine.stopped-after-two-hangs')
                return
            text = gen_text(rng, commenty and rng.random() < 0.7)
            if k == 0:
                text = ''
            variants = [{'input': kind, 'parse_kw': {'parseinfo': pinfo}} for kind in ('text', 'buffer') for pinfo in (False, True)]
            # configurations: scanner settings handed to the input object / to parse(), engine settings, another start rule
            ctext = gen_text(rng, True) if k else ''
            extra = []
            for kind in ('buffer', 'textlines', 'text'):
                st = scanner_settings(rng)
                kw = dict(engine_settings(rng, g), parseinfo=rng.random() < 0.5)
                if kind == 'text':
                    kw.update(st)
                    extra.append({'input': kind, 'parse_kw': kw})
                else:
                    extra.append({'input': kind, 'input_cfg': st, 'parse_kw': kw})
            for v in variants:
                col.case(['eng', gtext, text, repr(v)], nontrivial=bool(text))
                judge(col, m, 'model', g, gtext, text, v)
            for v in extra:
                col.case(['eng', gtext, ctext, repr(v)], nontrivial=bool(ctext))
                judge(col, m, 'model', g, gtext, ctext, v)
            if p is not None:
                for v, t in ((rng.choice(variants), text), (rng.choice(extra), ctext)):
                    col.case(['gen', gtext, t, repr(v)], nontrivial=bool(t))
                    judge(col, p, 'generated', g, gtext, t, v)


_TN = None


def TATSU_NAMES():
    global _TN
    if _TN is None:
        import tatsu.exceptions as X
        _TN = {n for n in dir(X) if isinstance(getattr(X, n), type) and issubclass(getattr(X, n), X.TatSuException)}
    return _TN


def mutate(rng, s):
    if not s:
        return s
    r = rng.random()
    i = rng.randrange(len(s))
    if r < 0.3:
        return s[:i] + s[i + 1:]
    if r < 0.6:
        return s[:i] + rng.choice("'\"/\\(){}[]|~@:=;$&!+*?<>.,#%`^-_ \n\t0aZ²\x00") + s[i:]
    if r < 0.8 and len(s) > 1:
        j = min(len(s) - 1, i + 1)
        return s[:i] + s[j] + s[i] + s[j + 1:]
    return s[:i] + rng.choice("'\"/\\(){}[]|~@:=;") + s[i + 1:]


_mutated_ok: dict = {}


def shard_compile(col, shard_i, n):
    import tatsu
    from tatsu.exceptions import TatSuException
    rng = col.rng
    for _ in range(n):
        g = G.gen_grammar(rng, G.GenCfg(), depth=rng.choice([2, 3]))
        if rng.random() < 0.3:
            g['rules'] = [(nm, ['name'] if rng.random() < 0.2 else d, e) for nm, d, e in g['rules']]
            g['keywords'] = ['if', 'then']
        if rng.random() < 0.4:
            g['rules'] = [(nm, d, with_metas(rng, e)) for nm, d, e in g['rules']]
            shape_rules(rng, g)
            if rng.random() < 0.5:
                g['directives'].update(scanner_settings(rng, directive=True))
        text = render(g)
        for _k in range(rng.randint(1, 3)):
            text = mutate(rng, text)
        col.case(['compile', text], nontrivial=True)

        def run():
            try:
                _mutated_ok[text] = tatsu.compile(text, name='M')
                return ('ok', None)
            except TatSuException as e:
                return ('tatsu', e)
            except RecursionError as e:
                return ('recursion', e)
            except Exception as e:  # noqa
                return ('foreign', e)
        out = R.with_timeout(run, 10)
        col.count('compile.' + out[0])
        if out[0] == 'ok' and text in _mutated_ok:
            # a grammar text near the language that IS accepted: parsing with it is held to the same standard
            m = _mutated_ok.pop(text)
            try:
                lrec = any(getattr(r, 'is_lrec', False) for r in m.rules)
            except Exception:  # noqa
                lrec = False
            for t in ('', ''.join(rng.choice(UNI + COMMENT_BITS) for _ in range(rng.randint(1, 8)))):
                for v in ({'input': 'text', 'parse_kw': {}}, {'input': 'buffer', 'parse_kw': {'parseinfo': True}}):
                    col.case(['mutated-parse', text, t, repr(v)], nontrivial=bool(t))
                    judge(col, m, 'mutated', None, text, t, v, lrec=lrec)
        if out[0] in ('timeout', 'foreign', 'recursion'):
            small = text
            exname = type(out[1]).__name__ if out[0] != 'timeout' else 'timeout'
            col.violation(f'oracle:compile-{out[0]}:{exname}', f'compiling a grammar text ended in {exname}, not a TatSu error',
                          {'oracle': 'compile raises only TatSu errors', 'grammar': small, 'exception': repr(out[1])[:300] if out[1] else None})
        elif out[0] == 'tatsu':
            check_failure(col, out[1], text, 'compile', {'grammar': text})


# ---- a reference to an undefined rule, in every syntactic position, must be reported when the grammar is compiled ----
UNDEF_POSITIONS = {
    'sequence-element': "start = 'a' missing 'b' ;",
    'first-element': "start = missing 'b' ;",
    'choice-option': "start = 'a' | missing ;",
    'optional': "start = 'a' [missing] ;",
    'closure': "start = {missing} ;",
    'positive-closure': "start = {missing}+ ;",
    'join-element': "start = ','%{missing} ;",
    'join-separator': "start = missing%{'a'} ;",
    'positive-join-separator': "start = missing%{'a'}+ ;",
    'gather-separator': "start = missing.{'a'} ;",
    'positive-gather-separator': "start = missing.{'a'}+ ;",
    'left-join-separator': "start = missing<{'a'}+ ;",
    'right-join-separator': "start = missing>{'a'}+ ;",
    'lookahead': "start = &missing 'a' ;",
    'negative-lookahead': "start = !missing 'a' ;",
    'named': "start = n:missing ;",
    'named-list': "start = n+:missing ;",
    'override': "start = 'a' @:missing ;",
    'group': "start = ('a' missing) ;",
    'skip-group': "start = (?: missing) 'a' ;",
    'skip-to': "start = ->missing ;",
    'second-rule': "start = r ;\nr = 'a' missing ;",
    'rule-include': "start = >missing 'a' ;",
    'based-rule': "start = b ;\nb < missing = 'a' ;",
    'nested': "start = {['a' | (&'b' ','%{n:missing})]} ;",
}


def shard_undefined(col, shard_i):
    import tatsu
    from tatsu.exceptions import GrammarError, TatSuException
    for where, g in UNDEF_POSITIONS.items():
        col.case(['undefined-rule', where], nontrivial=True)
        col.count('undefined.positions')
        try:
            m = tatsu.compile(g, name='U')
            outcome = 'compiles'
        except GrammarError:
            outcome = 'GrammarError'
        except TatSuException as e:
            outcome = 'tatsu:' + type(e).__name__
        except Exception as e:  # noqa
            outcome = 'foreign:' + type(e).__name__
        # GrammarError is the documented report; another TatSu parse error of the grammar text (rule include / based rule
        # are resolved while the text is read) is a report too
        if outcome == 'compiles' or outcome.startswith('foreign:'):
            col.violation(f'oracle:undefined-rule-not-reported:{where}:{outcome}',
                          f'a grammar that refers to an undefined rule ({where}) is not rejected by tatsu.compile: {outcome}',
                          {'oracle': 'undefined rule references are reported at compile time', 'grammar': g, 'outcome': outcome})


# ------------------------------------------------------------------ lexical families
# Grammar TEXTS whose regular expressions / constants are written the ways people write them (the IR printer only ever writes
# single-line /../ patterns from a fixed pool and four constants): regexes with layout in front of / behind them, spanning lines
# (verbose), with inline flags in every position, with raw control characters, quotes, slashes, wide characters, valid escapes and
# the usual slips (stray parenthesis, bad flag, bad escape ...), in every regex syntax and every place a regex can stand (pattern
# element in several contexts, @@whitespace / @@comments / @@eol_comments), in grammar texts with LF / CRLF / CR line ends; and
# constants that are EVALUATED (interpolation, expressions, re-evaluated literals, unsafe / broken expressions) over captured
# values of every type (str incl. characters outside ASCII / Latin-1 / the BMP, int, float, bool, list, None, nested AST).
EOLS = ['\n', '\n', '\n', '\r\n', '\r\n', '\r']
RX_PIECES = [r'\d+', r'[a-z]+', r'[0-9]+', r'(?:[.][0-9]+)?', r'\w+', r'x*', r'[ab]', r'(a)(b)?', r'[^,\s]+', r'a|b', r'\bab', r'e\d+', r'(?:a|b)+', r'[.]']
RX_LEADS = [' ', '  ', '\t', '\n', '\n    ', ' \n\t', '\x0c']
RX_FLAGS = ['i', 'x', 's', 'm', 'a', 'u', 'ix', 'ms', 'L', 'z', '-i', 'i-s', 'ia', '']
RX_CTRL = ['\r', '\r', '\t', '\x0b', '\x0c', '\x08', '\x07', '\x00', '\x1c', '\x1b', '\x7f', '\x85', '\u2028', '\xa0']
RX_EXTRA = {
    'break': [')', '(', '[', 'a{2,1}', r'\q', '(?P<n>a)(?P<n>b)', '(?<=a*)b', r'(a)\2', '(?P=nope)', 'a**', '(?#c', '(?', '(?P<1>a)', '[z-a]',
              r'\N{nope}', '(?i', r'\x1', '\\', '*', '+?+', '(?<a', '[[:alpha:]', r'\8', '(?(1)a|b|c)', '{,'],
    'quote': ["'", '"', '[\'"]', r"\'", r'\"', '\'"\'', '"\'"', "''" + "'", '""' + '"', r"\\'", r'[^"]*', "'?", "\"'\"'\""],
    'slash': [r'\/', r'[\/]', r'\\\/', '/'],
    'wide': ['[а-я]+', 'ł', '世', '\U0001f600?', 'é', '[\u0300-\u036f]*', 'ß', '\ufeff?'],
    'escape': [r'\n', r'\r', r'\t', r'\\', r'\x41', r'\u0041', r'\N{BULLET}', r'\.', r'\Z', r'\A', r'\r?\n', r'[\r\n]+', r'\ ', r'\-', r'\#', r'\\\\', r'\0', r'\07'],
    'brace': ['{', '}', 'a{2}', '{n}', '{{', 'a{,2}', '{0}'],
    'group': ['(?P<n>a)', '(?P<n>a)(?P=n)', r'(a)\1', '(?:)', '()', '(?=a)', '(?!b)', '(?<=a)', '(?i:a)', '(?-i:a)', '(?s-i:.)', '(?>a)', 'a*+', '(?(1)a|b)'],
    'comment': ['(?#note)', '# tail', ' # tail', '(?# a / b )'],
}
RX_SLOTS = ['pattern', 'pattern', 'pattern', 'named', 'choice', 'skipto', 'lookahead', 'join', 'twice', 'whitespace', 'comments', 'eol_comments',
            'whitespace-string', 'token']
RX_SYNTAX = ['/', '/', '?"', "?'", '?/']


def re_unescaped(txt, ch):
    import re as _re
    return _re.search(r'(?<!\\)(?:\\\\)*' + _re.escape(ch), txt) is not None


def gen_rx_spec(rng):
    rx = {'pieces': [rng.choice(RX_PIECES) for _ in range(rng.choice([1, 2, 2, 3]))], 'lead': '', 'trail': '', 'flag': None, 'verbose': False, 'extra': []}
    if rng.random() < 0.3:
        rx['lead'] = rng.choice(RX_LEADS)
    if rng.random() < 0.15:
        rx['trail'] = rng.choice(RX_LEADS)
    if rng.random() < 0.45:
        rx['flag'] = (rng.choice(['start', 'start', 'mid', 'end']), rng.choice(RX_FLAGS))
    if rng.random() < 0.3:
        rx['verbose'] = True
        if rng.random() < 0.7:
            rx['flag'] = (rng.choice(['start', 'start', 'start', 'mid']), rng.choice(['x', 'x', 'ix', 'xs']))
    for _ in range(rng.choice([0, 0, 1, 1, 2])):
        kind = rng.choice(['ctrl', 'ctrl'] + sorted(RX_EXTRA))
        if kind == 'ctrl':
            ch = rng.choice(RX_CTRL)
            piece = rng.choice(['[ %s]*', '%s?', '%s', '[^%s]', '(?:%s|,)']) % ch
        else:
            piece = rng.choice(RX_EXTRA[kind])
        rx['extra'].append((kind, piece, rng.randint(0, 3)))
    spec = {'fam': 'regex', 'rx': rx, 'slot': rng.choice(RX_SLOTS), 'eol': rng.choice(EOLS)}
    txt = rx_text(rx, spec['eol'])
    ok = [s for s in ('/', '?"', "?'", '?/')
          if not ((s in ('/', '?/') and re_unescaped(txt, '/')) or (s in ('?"', "?'") and (s[1] in txt or '\n' in txt or '\r' in txt)))]
    spec['syntax'] = rng.choice(ok) if ok and rng.random() < 0.8 else rng.choice(RX_SYNTAX)
    return spec


def rx_text(rx, eol):
    pieces = list(rx['pieces'])
    for _kind, piece, at in rx['extra']:
        pieces.insert(min(at, len(pieces)), piece)
    flag = rx.get('flag')
    ftxt = '' if not flag else ('(?' + flag[1] + ')')
    if flag and flag[0] == 'mid':
        pieces.insert(max(1, len(pieces) // 2), ftxt)
    if flag and flag[0] == 'end':
        pieces.append(ftxt)
    head = ftxt if flag and flag[0] == 'start' else ''
    if rx['verbose']:
        body = ''.join(f'\n    {p}' + ('   # part' if i % 2 == 0 else '') for i, p in enumerate(pieces)) + '\n'
    else:
        body = ''.join(pieces)
    # the line breaks of the layout are those of the grammar text (a CRLF file has a CR inside its multi-line expressions)
    return rx['lead'].replace('\n', eol) + head + body.replace('\n', eol) + rx['trail'].replace('\n', eol)


def rx_quote(txt, syntax):
    if syntax == '/':
        return '/' + txt + '/'
    if syntax == '?/':
        return '?/' + txt + '/?'
    if syntax == "'":
        return "'" + txt + "'"
    return syntax + txt + syntax[1]


def regex_spec_text(spec):
    eol = spec['eol']
    slot = spec['slot']
    q = rx_quote(rx_text(spec['rx'], eol), "'" if slot in ('whitespace-string', 'token') else spec['syntax'])
    lines = ['@@grammar :: L']
    if slot in ('whitespace', 'comments', 'eol_comments', 'whitespace-string'):
        lines += [f'@@{slot.split("-")[0]} :: {q}', "start = {/\\w+/ | ',' | '.'}+ $ ;"]
    elif slot in ('pattern', 'token'):      # token: the same text as a string literal (escapes are evaluated, quotes end it)
        lines += ['start = {item}+ $ ;', '', f"item = {q} | ',' ;"]
    elif slot == 'named':
        lines += [f"start = ','.{{n+:{q}}}+ $ ;"]
    elif slot == 'choice':
        lines += [f"start = {{{q} 'b' | 'c' {q} | /./}} $ ;"]
    elif slot == 'skipto':
        lines += [f"start = ->{q} {{/./}} $ ;"]
    elif slot == 'lookahead':
        lines += [f"start = {{!{q} /./ | &{q} 'a'}}+ $ ;"]
    elif slot == 'join':
        lines += [f"start = {q}%{{/\\w/}}+ $ ;"]
    else:   # twice: the same expression in two rules (the compiled-pattern caches see it twice)
        lines += ['start = {a | b}+ $ ;', f'a = {q} ;', f"b = '!' {q} ;"]
    return eol.join(lines) + eol


def regex_spec_class(spec, excname=None):
    import re as _re
    import warnings
    rx = spec['rx']
    eoltag = [] if spec['eol'] == '\n' else ['eol=' + ('crlf' if spec['eol'] == '\r\n' else 'cr')]
    raw = rx_text(rx, spec['eol'])

    def valid(s):
        with warnings.catch_warnings():
            warnings.simplefilter('ignore')
            try:
                _re.compile(s)
                return True
            except Exception:  # noqa
                return False
    if spec['slot'] == 'whitespace-string' and valid(raw) and excname == 'error':
        # re.error itself escaped: the expression is invalid once the escapes of the string literal are evaluated
        return '+'.join([spec['slot'], 'invalid-regex-after-escapes'] + eoltag)
    if spec['slot'] != 'token' and not valid(raw):
        # an expression that Python's re rejects as written: which slip makes it invalid does not matter for the class
        return '+'.join([spec['slot'], 'invalid-regex' + ('-valid-when-stripped' if valid(raw.strip()) else '')] + eoltag)
    tags = [spec['slot'], 'syntax' + (spec['syntax'] if spec['slot'] not in ('whitespace-string', 'token') else "'")]
    if rx['lead']:
        tags.append('lead-nl' if '\n' in rx['lead'] else 'lead')
    if rx['trail']:
        tags.append('trail')
    if rx['flag']:
        tags.append('flag-' + rx['flag'][0] + ('' if set(rx['flag'][1]) <= set('imsxau') and rx['flag'][1] else '-odd'))
    if rx['verbose']:
        tags.append('multiline')
    for kind, piece, _ in rx['extra']:
        if kind != 'ctrl':
            tags.append(kind)
        else:
            ch = max(c for c in piece if ord(c) < 32 or ord(c) >= 127)
            # the characters str.splitlines() breaks at, beyond the ones Python source code breaks at, are one class
            tags.append('ctrl-linesep' if ch in '\x1c\x1d\x1e\x85\u2028\u2029' else 'ctrl-%02x' % ord(ch))
    return '+'.join(list(dict.fromkeys(tags)) + eoltag)


def regex_spec_reductions(spec):
    import copy
    rx = spec['rx']

    def var(**kw):
        s = copy.deepcopy(spec)
        for k, v in kw.items():
            if k in s['rx']:
                s['rx'][k] = v
            else:
                s[k] = v
        return s
    if spec['eol'] != '\n':
        yield var(eol='\n')
    for i in range(len(rx['extra'])):
        yield var(extra=rx['extra'][:i] + rx['extra'][i + 1:])
    if rx['verbose']:
        yield var(verbose=False)
    if rx['flag']:
        yield var(flag=None)
    if rx['lead']:
        yield var(lead='')
    if rx['trail']:
        yield var(trail='')
    if len(rx['pieces']) > 1:
        yield var(pieces=rx['pieces'][:1])
    if spec['slot'] not in ('pattern', 'whitespace-string', 'token'):
        yield var(slot='pattern')
    if spec['syntax'] != '/':
        yield var(syntax='/')


RX_TEXT_BITS = ['a', 'b', 'ab', '1', '42', '2.5', 'e7', ' ', '  ', ',', '.', '\n', '\r', '\r\n', '\t', 'x', "'", '"', '/', '!', 'c', 'é', 'я', 'ł', '世', '#', '# c\n', '/*', '*/',
                '\x0b', '\x0c', '\x00', '\x1c', '\x85', '\u2028', '{', '(']

# ---- evaluated constants
CAP_KINDS = {
    'word': (r'§:/\w+/', None), 'nonspace': (r'§:/\S+/', None), 'line': (r'§:/[^\n]*/', None), 'dot': ('§:/./', None),
    'int': ('§:@int', ['42', '-7', '0', '٣', '1_0']), 'float': ('§:@float', ['2.5', '1e3', '-.5', '7']), 'bool': ('§:@bool', ['true', 'False', 'true']),
    'name': ('§:@name', None), 'tok': ("§:'a'", ['a']), 'list': (r'§+:/\w/', None), 'closure': (r'§:{/[^\s,]/}', None), 'opt': (r'[§:/\d+/]', ['', '7', '12']),
    'rule': ('§:sub', None), 'rules': ('§:{sub}+', None), 'group': (r'§:(/\w/ /\w/)', None),
}
WIDE_WORDS = ['world', 'x', 'a', 'ab1', 'señor', 'é', 'ÿ', 'мир', '世界', 'ałb', 'ł', '\U0001f600', 'a\u0301', 'ǅ', 'ﬁ', '٣', '²', 'İ', 'ß', '\u0100', 'nn', 'n', 'm', 'v',
              'True', 'None', '42', '0x1F', 'a' * 12, 'я' * 10]
EXPR_WORDS = ['{n}', '{m}', '{n}{n}', 'n+n', '1/0', '{', '}', "'", '"', '{n!r}', 'n*2', '[n]', '(n)', "'a'", '"{n}"', '{{n}}', '{nope}', '__import__', 'n.x', '()', 'n,',
              '`', '\\', '\\n', '{n:{n}}', "'{m}'", '1e999', '-', '...', 'lambda:n', '#', '{n.x}', '{n[0]}', 'я+1', '{я}', '世()']
CONST_TEMPLATES = [
    ('fstr', '{§N}'), ('fstr', 'hello {§N}'), ('fstr', '{§N}{§M}'), ('fstr', '{§N} and {§M}!'), ('fstr-conv', '{§N!r}'), ('fstr-conv', '{§N!a}'), ('fstr-fmt', '{§N:>5}'),
    ('fstr-fmt-bad', '{§N:d}'), ('fstr-index', '{§N[0]}'), ('fstr-attr', '{§N.x}'), ('fstr-missing', '{nope}'), ('fstr-expr', '{§N + §M}'), ('fstr-call', '{len(§N)}'),
    ('fstr-nested', '{§N:{§M}}'), ('fstr-escaped', '{{§N}}'), ('fstr-eq', '{§N=}'),
    ('expr-name', '§N'), ('expr-name', '§M'), ('expr-add', '§N + §M'), ('expr-mul', '§N * 2'), ('expr-len', 'len(§N)'), ('expr-int', 'int(§N)'), ('expr-float', 'float(§N)'),
    ('expr-div0', '1/0'), ('expr-div0', '1 % 0'), ('expr-index', '§N[5]'), ('expr-method', '§N.upper()'), ('expr-key', '§N["k"]'), ('expr-list', '[§N, §M]'), ('expr-tuple', '(§N, §M)'),
    ('expr-cond', '§N if §N else §M'), ('expr-cmp', '§N < 3'), ('expr-neg', '-§N'), ('expr-str', 'str(§N)'), ('expr-ord', 'ord(§N)'), ('expr-chr', 'chr(1114112)'),
    ('expr-sorted', 'sorted(§N)'), ('expr-dict', 'dict(§N)'), ('expr-set', '{§N}.pop()'), ('expr-max', 'max(§N)'), ('expr-sum', 'sum(§N)'), ('expr-repr', 'repr(§N)'),
    ('expr-enc', '§N.encode("ascii")'), ('expr-fmt', '"%d" % §N'), ('expr-format', '"{0.x}".format(§N)'), ('expr-join', '",".join(§N)'), ('expr-undefined', 'nope'),
    ('unsafe', "__import__('os')"), ('unsafe', '().__class__'), ('unsafe', 'lambda: 0'), ('unsafe', 'open("x")'), ('unsafe', '§N.__class__'), ('unsafe', 'exit()'),
    ('unsafe', 'ValueError'), ('unsafe', 'type(§N)'),
    ('broken', '{'), ('broken', '}'), ('broken', '{§N'), ('broken', '{}'), ('broken', '"abc'), ('broken', "it's"), ('broken', '1 +'), ('broken', '{§N!z}'), ('broken', '§N §M'),
    ('broken', '\\'), ('broken', '{§N:'), ('broken', ')'),
    ('literal', '42'), ('literal', "'q'"), ('literal', '0x1F'), ('literal-inf', '1e999'), ('literal-inf', '-1e999'), ('literal', 'None'), ('literal', 'True'), ('literal', '[1, 2]'), ('literal', ''),
    ('literal', '   '), ('literal', '-0.0'), ('literal', '1_0'), ('literal', 'k'),
    ('reeval', "'{§N}'"), ('reeval', '"§N"'), ('reeval', "'§N + §M'"), ('reeval', '"\'§N\'"'), ('reeval', "'1/0'"), ('reeval', '"{§N}{§M}"'),
]
CONST_FORMS = ['plain', 'plain', 'plain', 'triple', 'triple-lines', 'named', 'alert', 'over', 'named-list']
CONST_PLACES = ['seq', 'seq', 'seq', 'closure', 'subrule', 'option', 'optional', 'lookahead']


def gen_const_spec(rng):
    names = ['n', 'm']
    caps = [(names[i], rng.choice(sorted(CAP_KINDS))) for i in range(rng.choice([1, 1, 2]))]
    consts = [(rng.choice(CONST_FORMS), ) + rng.choice(CONST_TEMPLATES) for _ in range(rng.choice([1, 1, 2, 3]))]
    return {'fam': 'const', 'caps': caps, 'consts': consts, 'place': rng.choice(CONST_PLACES), 'eol': rng.choice(EOLS)}


def const_spec_text(spec):
    eol = spec['eol']
    caps = spec['caps']
    n = caps[0][0] if caps else 'n'
    m = caps[-1][0] if caps else 'm'
    capt = ' '.join(CAP_KINDS[k][0].replace('§', nm) for nm, k in caps)
    parts = []
    for form, _cls, tpl in spec['consts']:
        t = tpl.replace('§N', n).replace('§M', m)
        if form == 'triple':
            c = '```' + t + '```'
        elif form == 'triple-lines':
            c = '```' + eol + '        ' + t + eol + '    ```'
        else:
            c = '`' + t + '`'
        parts.append({'named': 'v:' + c, 'named-list': 'v+:' + c, 'alert': '^' + c, 'over': '@:' + c}.get(form, c))
    ct = ' '.join(parts)
    place = spec['place']
    lines = ['@@grammar :: L']
    if place == 'seq':
        lines.append(f'start = {capt} {ct} $ ;')
    elif place == 'closure':
        lines.append(f"start = {{{capt} {ct} [',']}}+ $ ;")
    elif place == 'subrule':
        lines += [f'start = {capt} tail $ ;', f'tail = {ct} ;']
    elif place == 'option':
        lines.append(f"start = {capt} ({ct} 'z' | {ct}) $ ;")
    elif place == 'optional':
        lines.append(f'start = {capt} [{ct}] {{/./}} $ ;')
    else:
        lines.append(f'start = {capt} &({ct}) {ct} $ ;')
    if any(k in ('rule', 'rules') for _, k in caps):
        lines.append(r'sub = x:/\w/ y:[/\d/] ;')
    return eol.join(lines) + eol


def const_spec_class(spec, excname=None):
    return ('caps=' + '+'.join(sorted({k for _, k in spec['caps']})) + ';consts=' + '+'.join(sorted({f + ':' + c for f, c, _ in spec['consts']}))
            + ';' + spec['place'] + ('' if spec['eol'] == '\n' else ';eol=' + ('crlf' if spec['eol'] == '\r\n' else 'cr')))


def const_spec_reductions(spec):
    import copy

    def var(**kw):
        s = copy.deepcopy(spec)
        s.update(kw)
        return s
    if spec['eol'] != '\n':
        yield var(eol='\n')
    for i in range(len(spec['consts'])):
        if len(spec['consts']) > 1:
            yield var(consts=spec['consts'][:i] + spec['consts'][i + 1:])
    for i in range(len(spec['caps'])):
        yield var(caps=spec['caps'][:i] + spec['caps'][i + 1:])
    if spec['place'] != 'seq':
        yield var(place='seq')
    for i, (f, c, t) in enumerate(spec['consts']):
        if f != 'plain':
            yield var(consts=spec['consts'][:i] + [('plain', c, t)] + spec['consts'][i + 1:])


def const_text(rng, spec):
    words = []
    for _nm, k in spec['caps']:
        samples = CAP_KINDS[k][1]
        r = rng.random()
        if samples is not None and r < 0.8:
            words.append(rng.choice(samples))
        elif r < 0.75:
            words.append(rng.choice(WIDE_WORDS))
        else:
            words.append(rng.choice(EXPR_WORDS))
    # KNOWN (probed by shard_const_probes, one fixed case per shape): a captured text that interpolates a capture again ('{n}..') is
    # evaluated over and over by constant(); the texts of this class are left to the probes because every one of them costs a deadline
    words = [w if not self_referential(w) else unrefer(w) for w in words]
    text = ' '.join(words)
    r = rng.random()
    if r < 0.1:
        text += rng.choice([' z', ',', ' ', '\n', ' я', ' {q}'])
    elif r < 0.2:
        text = ''.join(rng.choice(UNI + WIDE_WORDS[:12]) for _ in range(rng.randint(0, 5)))
    return text


def self_referential(word):
    """The word, evaluated as a constant expression, reads a capture (n, m, v) again - and is not just that name."""
    import re as _re
    return word not in ('n', 'm', 'v') and _re.search(r'(?<![\w.])[nmv](?!\w)', word) is not None


def unrefer(word):
    import re as _re
    return _re.sub(r'(?<![\w.])[nmv](?!\w)', 'q', word)


CONST_PROBES = {
    # name: (grammar, text)  - the constant's value is the INPUT text, which constant() evaluates again until it stops changing
    'input-text-grows': ("start = n:/\\S+/ `{n}` $ ;\n", '{n}{n}'),
    'input-text-grows-by-one': ("start = n:/\\S+/ `{n}` $ ;\n", '{n}x'),
    'input-text-cycles': ("start = n:/\\S+/ `{n}` $ ;\n", '{{n}}'),
}


def shard_const_probes(col, shard_i):
    name = sorted(CONST_PROBES)[shard_i]
    gtext, text = CONST_PROBES[name]
    out = compile_outcome(gtext)
    col.case(['const-probe', name], nontrivial=True)
    if out[0] != 'ok':
        col.violation(f'oracle:const-probe-does-not-compile:{name}', 'a probe grammar does not compile', {'grammar': gtext, 'outcome': out[0]})
        return
    res = run_variant(out[1], text, {'input': 'text', 'parse_kw': {}}, 3)
    col.count(f'const-probe.{name}.{res[0]}')
    if res[0] == 'tatsu':
        check_failure(col, res[1], text, 'const-probe', {'grammar': gtext, 'text': text})
    elif res[0] != 'ok':
        col.violation(f'oracle:{"hang" if res[0] == "timeout" else res[0]}:const-probe:{name}', 'a parse does not terminate / raises a foreign exception',
                      {'oracle': 'no hang', 'case': {'grammar': gtext, 'text': text}, 'outcome': res[0], 'exception': repr(res[1])[:200]})


def text_class(text):
    tags = []
    if not text:
        tags.append('empty')
    if any(ord(c) > 255 for c in text):
        tags.append('wide')
    elif any(ord(c) > 127 for c in text):
        tags.append('latin1')
    if any(ord(c) < 32 or ord(c) == 127 for c in text):
        tags.append('ctrl')
    if any(c in text for c in '{}'):
        tags.append('braces')
    return '+'.join(tags) or 'ascii'


SPEC_TEXTS: dict = {}
SPEC_FAMILIES = {'regex': (regex_spec_text, regex_spec_class, regex_spec_reductions), 'const': (const_spec_text, const_spec_class, const_spec_reductions)}


def compile_outcome(txt, seconds=10):
    import tatsu
    from tatsu.exceptions import TatSuException

    def run():
        try:
            return ('ok', tatsu.compile(txt, name='G'))
        except TatSuException as e:
            return ('tatsu', e)
        except RecursionError as e:
            return ('recursion', e)
        except Exception as e:  # noqa
            return ('foreign', e)
    return R.with_timeout(run, seconds)


def spec_target(spec, tname):
    txt = SPEC_FAMILIES[spec['fam']][0](spec)
    out = compile_outcome(txt, 5)
    if out[0] != 'ok':
        return txt, None
    t = out[1]
    if tname == 'generated':
        t = generated_parser(txt)
        if isinstance(t, tuple):
            return txt, None
    return txt, t


def shrink_spec(spec, same, budget):
    """Drop the features of a lexical spec one at a time while `same(spec)` holds."""
    gram_text, _, reductions = SPEC_FAMILIES[spec['fam']]
    regen = SPEC_TEXTS.get(spec['fam'])

    def to_text(sp):
        return (gram_text(sp), regen(sp) if regen else None)
    changed = True
    while changed and budget > 0:
        changed = False
        cur = to_text(spec)
        for cand in reductions(spec):
            if budget <= 0:
                break
            if to_text(cand) == cur:
                continue
            budget -= 1
            if same(cand):
                spec, changed = cand, True
                break
    return spec


def judge_spec(col, spec, gtext, target, tname, text, v, seconds=5):
    fam = spec['fam']
    out = run_variant(target, text, v, seconds)
    kind = v['input'] if v['input'] != 'textlines' else 'textlines-object'
    col.count(f'{fam}.{tname}.{kind}.{out[0]}')
    if out[0] == 'ok':
        return
    where = f'{fam}:{tname}:{kind}'
    if out[0] == 'tatsu':
        check_failure(col, out[1], text, where, {'grammar': gtext, 'text': text, 'variant': repr(v)})
        return
    cls = out[0]
    excname = type(out[1]).__name__ if out[1] is not None else 'timeout'
    hang = cls == 'timeout'

    def same(tg, t, vv):
        o = run_variant(tg, t, vv, 2)
        return o[0] == cls and (hang or type(o[1]).__name__ == excname)
    stext, sv = shrink_variant(target, text, v, same, budget=6 if hang else 14)

    regen = SPEC_TEXTS.get(fam)      # families whose text is a function of the spec: a reduced spec is tried on ITS text

    def same_spec(cand):
        _, tg = spec_target(cand, tname)
        return tg is not None and same(tg, regen(cand) if regen else stext, sv)
    sspec = shrink_spec(spec, same_spec, 4 if hang else 20)
    sgtext, starget = spec_target(sspec, tname)
    if regen and sspec is not spec:
        stext = regen(sspec)
    if starget is not None and not hang:
        stext, sv = shrink_variant(starget, stext, sv, same, budget=8)
    case = {'grammar': sgtext, 'text': stext, 'target': tname, 'variant': repr(sv), 'original': {'grammar': gtext, 'text': text, 'variant': repr(v)}}
    if regen:       # long texts: the replay keeps the spec the text is made from (SPEC_TEXTS[fam](spec)) and the shrunk text's head
        case.update(text=stext[:300], text_length=len(stext), spec=sspec)
        case['original'].update(text=text[:300], text_length=len(text), spec=spec)
    vc = variant_class(sv)
    tail = ':' + SPEC_FAMILIES[fam][1](sspec) + ':text=' + text_class(stext) + (':' + vc if vc else '')
    if hang:
        col.hangs = getattr(col, 'hangs', 0) + 1
        col.violation(f'oracle:hang:{where}{tail}', 'a parse does not terminate', {'oracle': 'no hang', 'case': case})
    elif cls == 'foreign':
        col.violation(f'oracle:foreign-exception:{where}:{excname}{tail}', f'parse raised {excname}, not a TatSu error',
                      {'oracle': 'only TatSu exceptions', 'case': case, 'exception': repr(out[1])[:300]})
    else:
        col.violation(f'oracle:recursion:{where}{tail}', 'unbounded recursion on a non-left-recursive grammar', {'oracle': 'bounded recursion', 'case': case})


def shard_lexical(col, shard_i, nspecs, ninputs):
    rng = col.rng
    for si in range(nspecs):
        fam = 'regex' if si % 2 == 0 else 'const'
        spec = gen_rx_spec(rng) if fam == 'regex' else gen_const_spec(rng)
        to_text, to_class, _ = SPEC_FAMILIES[fam]
        gtext = to_text(spec)
        for t in to_class(spec).replace(';', '+').replace('caps=', '').replace('consts=', '').split('+'):
            col.count(f'{fam}.feature.' + t)
        col.case(['lexical-compile', gtext], nontrivial=True)
        out = compile_outcome(gtext)
        col.count(f'{fam}.compile.' + out[0])
        if out[0] == 'tatsu':
            check_failure(col, out[1], gtext, f'{fam}:compile', {'grammar': gtext})
            continue
        if out[0] != 'ok':
            cls = out[0]
            excname = type(out[1]).__name__ if out[1] is not None else 'timeout'

            def same_spec(cand, cls=cls, excname=excname):
                o = compile_outcome(to_text(cand), 3)
                return o[0] == cls and (cls == 'timeout' or type(o[1]).__name__ == excname)
            sspec = shrink_spec(spec, same_spec, 3 if cls == 'timeout' else 30)
            col.violation(f'oracle:compile-{cls}:{fam}:{excname}:{to_class(sspec, excname)}', f'compiling a grammar text ended in {excname}, not a TatSu error',
                          {'oracle': 'compile raises only TatSu errors', 'grammar': to_text(sspec), 'original': gtext, 'exception': repr(out[1])[:300] if out[1] else None})
            continue
        m = out[1]
        p = None
        if rng.random() < 0.35:
            p = generated_parser(gtext)
            if isinstance(p, tuple):
                col.count(f'{fam}.generated.' + p[0])
                if p[0] != 'codegen-error' or p[1] not in TATSU_NAMES():
                    def same_gen(cand, p=p):
                        ctxt = to_text(cand)
                        if compile_outcome(ctxt, 3)[0] != 'ok':
                            return False
                        q = generated_parser(ctxt)
                        return isinstance(q, tuple) and q[:2] == p[:2]
                    sspec = shrink_spec(spec, same_gen, 30)
                    col.violation(f'oracle:codegen:{fam}:{p[0]}:{p[1]}:{to_class(sspec)}', 'generating the parser of a grammar that compiles raised a foreign exception / hung',
                                  {'oracle': 'only TatSu exceptions', 'grammar': to_text(sspec), 'original': gtext, 'outcome': p})
                p = None
        for k in range(ninputs):
            if getattr(col, 'hangs', 0) >= 2:
                col.count('lexical.stopped-after-two-hangs')
                return
            if fam == 'regex':
                text = ''.join(rng.choice(RX_TEXT_BITS) for _ in range(rng.randint(0, 7))) if k else ''
            else:
                text = const_text(rng, spec)
            variants = [{'input': 'text', 'parse_kw': {}}, {'input': 'buffer', 'parse_kw': {'parseinfo': True}}]
            r = rng.random()
            if r < 0.3:
                variants.append({'input': 'textlines', 'parse_kw': {'parseinfo': rng.random() < 0.5}})
            elif r < 0.45:
                variants.append({'input': 'text', 'parse_kw': {'trace': True, 'colorize': rng.random() < 0.5}})
            elif r < 0.55:
                variants.append({'input': 'text', 'parse_kw': {'memoization': False}})
            for v in variants:
                col.case(['lexical', gtext, text, repr(v)], nontrivial=bool(text))
                judge_spec(col, spec, gtext, m, 'model', text, v)
            if p is not None:
                v = rng.choice(variants)
                col.case(['lexical-gen', gtext, text, repr(v)], nontrivial=bool(text))
                judge_spec(col, spec, gtext, p, 'generated', text, v)


# ------------------------------------------------------------------ scale and name families
# scale: LONG FLAT texts (a thousand and more units, no nesting) for every construct that iterates - closures, joins, gathers, left and right
# joins, named lists, skip-to, lookaheads inside a loop, runs of comments / blank space between two elements - over every element and
# separator form, wrapped in every way a loop can sit in a rule.  None of the grammars has a recursive rule: the depth of the Python stack
# must not depend on the length of the text (every other family of this check uses texts of at most a dozen units, where a recursion per
# unit, a quadratic rescan or a per-unit stack frame never shows).
SC_ELEMS = {     # name: (expression, rules it needs, one unit of text)
    'tok': ("'a'", [], 'a'),
    'pat': (r'/\s*\d+/', [], '42'),        # a pattern does not skip the blank space in front of it
    'rule': ('item', ["item = 'a' ;"], 'a'),
    'ast-rule': ('pair', [r"pair = k:/[a-z]+/ '=' v:/\d+/ ;"], 'k=1'),
    'group': ("('a' | 'b')", [], 'b'),
    'named': ("(e:'a')", [], 'a'),
    'list-named': (r'(e+:/\s*\w/)', [], 'x'),
    'int': ('number', ['number = @int ;'], '7'),
    'override-list': ("(@+:'a')", [], 'a'),
    'optional-pair': (r"('a' ['b'])", [], 'a b'),
}
SC_SEPS = {
    'tok': ("','", [], ','),
    'pat': (r'/\s*[+*]/', [], '+'),
    'rule': ('op', ["op = '+' | '-' ;"], '-'),
    'word': ("'and'", [], ' and '),
    'named': ("(o:';')", [], ';'),
}
SC_CONSTRUCTS = {    # name: (expression over E and S, how a long text for it is laid out)
    'closure': ('{E}', 'units'), 'positive-closure': ('{E}+', 'units'),
    'join': ('S%{E}', 'sep'), 'positive-join': ('S%{E}+', 'sep'), 'gather': ('S.{E}', 'sep'), 'positive-gather': ('S.{E}+', 'sep'),
    'left-join': ('S<{E}+', 'sep'), 'right-join': ('S>{E}+', 'sep'),
    'optional-in-closure': ('{[E] S}', 'pairs'), 'choice-in-closure': ('{E | S}', 'pairs'), 'sequence-in-closure': ('{E S}+', 'pairs'),
    'closure-in-closure': ('{{E}+ S}', 'runs'), 'join-in-closure': ("{S%{E}+ '.'}", 'sentences'),
    'skip-to': ('{->E}', 'junk'), 'lookahead-in-closure': ('{&E E}', 'units'), 'negative-lookahead-in-closure': ('{!S E}', 'units'),
    'comments-between': ('{E}', 'comments'), 'eol-comments-between': ('{E}', 'eol-comments'), 'blank-run': ('{E}', 'blanks'),
}
SC_WRAPS = {
    'plain': 'start = L $ ;', 'named': 'start = v:L $ ;', 'subrule': 'start = body $ ;\nbody = L ;', 'override': 'start = @:L $ ;', 'group': 'start = (L) $ ;',
    'twice': "start = L '|' L $ ;", 'optional': 'start = [L] $ ;', 'retried': "start = L '.' | L '!' | L $ ;", 'list-named': 'start = v+:L w+:L $ ;',
    'lookahead': 'start = &(L $) L $ ;',
}
SC_LAYOUTS = [' ', ' ', '\n', '\r\n', '\t ', '  ', '']
SC_ENDS = ['good', 'good', 'good', 'bad-end', 'bad-middle', 'dangling']
SC_KNOWN_DEEP = {'right-join'}      # right_assoc() recurses once per operand (finding D4o, probed by shard_scale_probes with one fixed case)


def gen_scale_spec(rng):
    c = rng.choice(sorted(SC_CONSTRUCTS))
    n = rng.randint(1100, 3200)
    if c in SC_KNOWN_DEEP:
        n = rng.randint(100, 250)
    if c == 'skip-to':
        n = min(n, rng.randint(1100, 1600))     # every position of the junk is a full attempt at the element: the slowest construct per unit
    return {'fam': 'scale', 'construct': c, 'elem': rng.choice(sorted(SC_ELEMS)), 'sep': rng.choice(sorted(SC_SEPS)), 'wrap': rng.choice(sorted(SC_WRAPS)),
            'layout': rng.choice(SC_LAYOUTS), 'end': rng.choice(SC_ENDS), 'n': n}


def scale_spec_text(spec):
    ex, how = SC_CONSTRUCTS[spec['construct']]
    e, erules, _ = SC_ELEMS[spec['elem']]
    s, srules, _ = SC_SEPS[spec['sep']]
    loop = ex.replace('E', '\x01').replace('S', '\x02').replace('\x01', e).replace('\x02', s)
    lines = ['@@grammar :: L']
    if how == 'comments':
        lines.append(r'@@comments :: /\(\*(?:.|\n)*?\*\)/')
    if how == 'eol-comments':
        lines.append(r'@@eol_comments :: /#[^\n]*/')
    lines.append(SC_WRAPS[spec['wrap']].replace('L', loop))
    uses_sep = 'S' in ex
    lines += erules + (srules if uses_sep else [])
    return '\n'.join(lines) + '\n'


def scale_body(spec, n):
    _, how = SC_CONSTRUCTS[spec['construct']]
    u = SC_ELEMS[spec['elem']][2]
    s = SC_SEPS[spec['sep']][2]
    lay = spec['layout']
    gap = lay or ' '
    if how == 'units':
        return gap.join([u] * n)
    if how == 'sep':
        return (lay + s + lay).join([u] * n)
    if how == 'pairs':
        return gap.join([u + lay + s] * n)
    if how == 'runs':
        return gap.join([gap.join([u] * 3) + lay + s] * (n // 3))
    if how == 'sentences':
        return gap.join([(lay + s + lay).join([u] * 4) + lay + '.'] * (n // 4))
    if how == 'junk':
        return gap.join(['??' + gap + u] * n)
    if how == 'comments':
        return u + gap + ('(* c *)' + lay) * n + gap + u
    if how == 'eol-comments':
        return u + gap + ('# c' + ('\r\n' if lay == '\r\n' else '\n')) * n + u
    return u + gap * n + u       # blanks


def scale_text(spec):
    n = spec['n']
    body = scale_body(spec, n)
    if spec['wrap'] == 'twice':
        body = body + ' | ' + scale_body(spec, max(2, n // 7))
    elif spec['wrap'] == 'list-named':
        body = body + (spec['layout'] or ' ') + SC_ELEMS[spec['elem']][2]
    elif spec['wrap'] == 'retried' and n % 2:
        body += ' !'
    end = spec['end']
    if end == 'bad-end':
        body += (spec['layout'] or ' ') + '%'
    elif end == 'bad-middle':
        k = len(body) // 2
        body = body[:k] + '%' + body[k:]
    elif end == 'dangling':
        body += spec['layout'] + SC_SEPS[spec['sep']][2].strip()
    return body


def scale_spec_class(spec, excname=None):
    tags = [spec['construct']]
    ex = SC_CONSTRUCTS[spec['construct']][0]
    if spec['elem'] != 'tok':
        tags.append('elem=' + spec['elem'])
    if 'S' in ex and spec['sep'] != 'tok':
        tags.append('sep=' + spec['sep'])
    if spec['wrap'] != 'plain':
        tags.append('wrap=' + spec['wrap'])
    if spec['layout'] != ' ':
        tags.append('layout=' + {'\n': 'lf', '\r\n': 'crlf', '': 'none'}.get(spec['layout'], 'blanks'))
    if spec['end'] != 'good':
        tags.append(spec['end'])
    return '+'.join(tags)


def scale_spec_reductions(spec):
    # the text is shortened by judge_spec itself (halved while the outcome stays); here the features go one at a time
    for key, plain in (('wrap', 'plain'), ('elem', 'tok'), ('sep', 'tok'), ('layout', ' '), ('end', 'good')):
        if spec[key] != plain:
            yield dict(spec, **{key: plain})
    if spec['n'] > 8:
        yield dict(spec, n=spec['n'] // 2)
    if spec['construct'] in ('positive-closure', 'lookahead-in-closure', 'negative-lookahead-in-closure', 'comments-between', 'eol-comments-between', 'blank-run'):
        yield dict(spec, construct='closure')
    if spec['construct'] in ('positive-join', 'gather', 'positive-gather'):
        yield dict(spec, construct='join')


SCALE_PROBES = {
    # name: (grammar, text): a flat chain through a right join; right_assoc() calls itself once per operand
    'right-join-long': ("start = '+'>{'a'}+ $ ;\n", '+'.join(['a'] * 3000)),
}


def shard_scale_probes(col, shard_i):
    name = sorted(SCALE_PROBES)[shard_i]
    gtext, text = SCALE_PROBES[name]
    out = compile_outcome(gtext)
    col.case(['scale-probe', name], nontrivial=True)
    if out[0] != 'ok':
        col.violation(f'oracle:scale-probe-does-not-compile:{name}', 'a probe grammar does not compile', {'grammar': gtext, 'outcome': out[0]})
        return
    res = run_variant(out[1], text, {'input': 'text', 'parse_kw': {}}, 10)
    col.count(f'scale-probe.{name}.{res[0]}')
    if res[0] == 'tatsu':
        check_failure(col, res[1], text, 'scale-probe', {'grammar': gtext, 'text': text[:40] + '...'})
    elif res[0] != 'ok':
        col.violation(f'oracle:{"hang" if res[0] == "timeout" else res[0]}:scale-probe:{name}', 'a long flat text ends in unbounded recursion / a foreign exception / a hang',
                      {'oracle': 'bounded recursion', 'case': {'grammar': gtext, 'text': text[:40] + '...', 'operands': 3000}, 'outcome': res[0],
                       'exception': repr(res[1])[:200]})


# end of line: the constructs that look at line ends ($-> skip to the end of the line, $ at the end of the text, patterns with (?m)^ / $,
# eol comments) on texts whose lines end in every convention - LF, CR, CRLF, LF CR, none - in the middle and at the very END of the text
# (a lone CR as the last character, a CR before a comment, blank lines of mixed conventions), as str, Buffer and TextLines
EOL_GRAMMARS = [
    "start = 'a' $-> 'b' $ ;",
    "start = 'a' $-> $ ;",
    "start = {line}+ $ ;\nline = /[a-z]+/ $-> ;",
    "start = {line}* $ ;\nline = 'a' ['b'] $-> ;",
    "@@eol_comments :: /#[^\\r\\n]*/\nstart = {'a' $->}+ $ ;",
    "start = 'a' ->(/x/ $->) $ ;",
    "@@whitespace :: /[ \\t]+/\nstart = {'a' $->}+ $ ;",
    "start = /(?m)a$/ $-> {/(?m)^b/}* $ ;",
]
EOL_BREAKS = ['\n', '\r', '\r\n', '\n\r', '', ' \r', '\r ', ' \n', '\r\r', '\x0b', '\x0c', '\x85', '\u2028']


def shard_eol(col, shard_i):
    import itertools
    gtext = EOL_GRAMMARS[shard_i]
    out = compile_outcome(gtext)
    col.case(['eol', gtext], nontrivial=True)
    if out[0] != 'ok':
        col.violation(f'oracle:eol-grammar-does-not-compile:{shard_i}', 'an end-of-line probe grammar does not compile', {'grammar': gtext, 'outcome': out[0]})
        return
    bodies = ['a', 'a b', 'a x', 'ab', 'a # c', 'a a', 'b']
    for body, b1, b2 in itertools.product(bodies, EOL_BREAKS, EOL_BREAKS[:9]):
        text = body + b1 + ('b' if shard_i in (0, 7) else 'a') + b2
        for text_ in (text, body + b1):       # the second one ENDS in the line break
            for inp in ('text', 'buffer', 'textlines'):
                res = run_variant(out[1], text_, {'input': inp, 'parse_kw': {}}, 10)
                col.case(['eol', shard_i, text_, inp], nontrivial=True)
                col.count('eol.' + res[0])
                if res[0] == 'tatsu':
                    check_failure(col, res[1], text_, 'eol', {'grammar': gtext, 'text': text_})
                elif res[0] != 'ok':
                    last = {'\n': 'lf', '\r': 'cr'}.get(text_[-1:], 'other')
                    col.violation(f'oracle:{"hang" if res[0] == "timeout" else res[0]}:eol:{type(res[1]).__name__}:{inp}:text-ends-in-{last}',
                                  'a construct that looks at line ends raises a foreign exception / hangs on a text with unusual line ends',
                                  {'oracle': 'TatSu errors only', 'case': {'grammar': gtext, 'text': text_, 'input': inp}, 'outcome': res[0],
                                   'exception': repr(res[1])[:200]})


# names: every identifier position of the grammar language (rule names in definitions, calls, includes, bases and start=; element labels; rule
# parameters; keywords; the grammar's name) filled with names of every lexical shape: underscores only ('_', '__': the PEG.js blank-space
# idiom), leading / trailing underscores, upper / title / mixed case (token rules), digits, characters outside ASCII incl. title-case and
# caseless letters, Python keywords / builtins / names the engine and the generated classes use themselves, and the shapes just outside the
# language (leading digit, hyphen, dot, empty).  The other families only ever write the generator's lower-case ASCII names.
NAME_PRE = ['', '', '', '_', '__']
NAME_BODY = ['', '', '', 'a', 'ab', 'A', 'Ab', 'AB', 'aB', 'x1', 'x_y', 'X_Y', 'é', 'É', 'ñu', '世', 'ǅ', 'ß', 'ſ', 'µ', 'İ', 'class', 'None', 'True', 'def', 'print', 'self',
             'len', 'type', 'ctx', 'parse', 'rule', 'start', 'Start', 'int', 'name', 'ast', 'keys', 'items', 'parseinfo', 'EOF', 'if', 'lambda', 'rules', 'tokenizer']
NAME_SUF = ['', '', '', '_', '__', '1', '_1']
NAME_NEAR = ['1a', 'a-b', 'a.b', '', "a'", '$', 'a::b', '٣a', 'a\u0301', '²']
NAME_ROLES = {'r0': 'main', 'r1': 'alpha', 'r2': 'beta', 'r3': 'gamma', 'r4': 'delta', 'l1': 'x', 'l2': 'y', 'g': 'L', 'kw': 'key'}
NAME_FEATURES = ['nostart', 'based', 'include', 'params', 'decorated', 'colon', 'keyword', 'no-whitespace', 'called-twice']


def gen_name(rng):
    r = rng.random()
    if r < 0.06:
        return rng.choice(NAME_NEAR)
    if r < 0.12:
        return '_' * rng.randint(1, 3)      # no letter at all
    return rng.choice(NAME_PRE) + rng.choice(NAME_BODY) + rng.choice(NAME_SUF)


def gen_names_spec(rng):
    names = dict(NAME_ROLES)
    for role in rng.sample(sorted(NAME_ROLES), rng.choice([1, 1, 2, 3])):
        names[role] = gen_name(rng)
    feats = sorted(f for f in NAME_FEATURES if rng.random() < 0.25)
    startkw = rng.choice(['r1', 'r2', 'r3']) if rng.random() < 0.2 else None
    return {'fam': 'names', 'names': names, 'features': feats, 'startkw': startkw}


def names_spec_text(spec):
    nm, f = spec['names'], spec['features']
    colon = 'colon' in f
    out = [f'@@grammar :: {nm["g"]}']
    if 'keyword' in f:
        out.append(f'@@keyword :: {nm["kw"]}')
    if 'no-whitespace' in f:
        out.append('@@whitespace :: //')

    def rule(head, body, decorators=()):
        out.extend('@' + d for d in decorators)
        out.extend([f'{head}: {body}', ''] if colon else [f'{head} = {body} ;'])
    sp = r' /\s*/ ' if 'no-whitespace' in f else ' '
    rule(nm['r0'] if 'nostart' in f else 'start', f'{nm["r1"]}{sp}{nm["r2"]}{sp}$')
    rule(nm['r1'] + (f'({nm["l1"]})' if 'params' in f else ''), f"{nm['l1']}:'a'{sp}{{{nm['l2']}+:/\\d/{sp}}}", ['name'] if 'decorated' in f else [])
    rule(nm['r2'], f'{{{nm["r3"]}{sp}}}+' + (f' [{nm["r1"]}]' if 'called-twice' in f else ''))
    rule(nm['r3'], "'b'" + (f' | >{nm["r1"]}' if 'include' in f else ''))
    if 'based' in f:
        rule(f'{nm["r4"]} < {nm["r1"]}', "'c'")
    return '\n'.join(out) + '\n'


def name_class(name):
    import builtins
    import keyword
    import re as _re
    if not name:
        return 'empty'
    if not _re.fullmatch(r'(?!\d)\w+', name):
        return 'outside-the-language'
    bare = name.strip('_')
    if not bare:
        return 'underscores-only'
    tags = []
    if name.startswith('_'):
        tags.append('lead_')
    if name.endswith('_'):
        tags.append('trail_')
    c = bare[0]
    tags.append('digits' if bare.isdigit() else 'upper' if c.isupper() else 'title' if c.istitle() else 'lower' if c.islower() else 'caseless')
    if not bare.isascii():
        tags.append('nonascii')
    if keyword.iskeyword(bare) or keyword.issoftkeyword(bare) or hasattr(builtins, bare):
        tags.append('python-name')
    return '.'.join(tags)


def names_spec_class(spec, excname=None):
    kinds = {'r': 'rule', 'l': 'label', 'g': 'grammar', 'k': 'keyword'}
    f = spec['features']
    used = {role: n for role, n in spec['names'].items()
            if not ((role == 'r0' and 'nostart' not in f) or (role == 'r4' and 'based' not in f) or (role == 'kw' and 'keyword' not in f))}
    tags = {kinds[role[0]] + '=' + name_class(n) for role, n in used.items() if n != NAME_ROLES[role]}
    dup = [n for n in used.values() if list(used.values()).count(n) > 1]
    if dup:
        tags.add('same-name-twice')
    return '+'.join(sorted(tags) + list(spec['features']) + (['start=' + name_class(spec['names'][spec['startkw']])] if spec['startkw'] else []))


def names_spec_reductions(spec):
    for role, n in spec['names'].items():
        if n != NAME_ROLES[role]:
            yield dict(spec, names=dict(spec['names'], **{role: NAME_ROLES[role]}))
    for f in spec['features']:
        yield dict(spec, features=[x for x in spec['features'] if x != f])
    if spec['startkw']:
        yield dict(spec, startkw=None)


NAME_TEXT_BITS = ['a', 'b', 'c', '1', '12', ' ', '  ', '\n', 'ab', '!', 'é']


def names_texts(rng, spec):
    good = 'b b' if spec['startkw'] in ('r2', 'r3') else 'a' if spec['startkw'] == 'r1' else rng.choice(['a 1 2 b b', 'a b', 'a12b', 'a 7 b a 1', 'a 1 b b a'])
    return ['', good, ''.join(rng.choice(NAME_TEXT_BITS) for _ in range(rng.randint(1, 7)))]


SPEC_TEXTS['scale'] = scale_text
SPEC_FAMILIES['scale'] = (scale_spec_text, scale_spec_class, scale_spec_reductions)
SPEC_FAMILIES['names'] = (names_spec_text, names_spec_class, names_spec_reductions)


def shard_shapes(col, shard_i, fam, nspecs):
    """The scale / names families: compile, generate the parser, parse with both."""
    rng = col.rng
    to_text, to_class, _ = SPEC_FAMILIES[fam]
    for _si in range(nspecs):
        spec = gen_scale_spec(rng) if fam == 'scale' else gen_names_spec(rng)
        gtext = to_text(spec)
        for t in to_class(spec).split('+'):
            col.count(f'{fam}.feature.' + (t or 'plain'))
        col.case([fam + '-compile', gtext], nontrivial=True)
        out = compile_outcome(gtext)
        col.count(f'{fam}.compile.' + out[0])
        if out[0] == 'tatsu':
            check_failure(col, out[1], gtext, f'{fam}:compile', {'grammar': gtext})
            continue
        if out[0] != 'ok':
            cls = out[0]
            excname = type(out[1]).__name__ if out[1] is not None else 'timeout'

            def same_spec(cand, cls=cls, excname=excname):
                o = compile_outcome(to_text(cand), 3)
                return o[0] == cls and (cls == 'timeout' or type(o[1]).__name__ == excname)
            sspec = shrink_spec(spec, same_spec, 3 if cls == 'timeout' else 30)
            if fam == 'names':
                sspec = dict(sspec, startkw=None)       # start= is an argument of parse()
            col.violation(f'oracle:compile-{cls}:{fam}:{excname}:{to_class(sspec, excname)}', f'compiling a grammar text ended in {excname}, not a TatSu error',
                          {'oracle': 'compile raises only TatSu errors', 'grammar': to_text(sspec), 'original': gtext, 'exception': repr(out[1])[:300] if out[1] else None})
            continue
        m = out[1]
        p = None
        if rng.random() < (0.35 if fam == 'scale' else 0.6):
            p = generated_parser(gtext)
            if isinstance(p, tuple):
                col.count(f'{fam}.generated.' + p[0])
                if p[0] != 'codegen-error' or p[1] not in TATSU_NAMES():
                    def same_gen(cand, p=p):
                        ctxt = to_text(cand)
                        if compile_outcome(ctxt, 3)[0] != 'ok':
                            return False
                        q = generated_parser(ctxt)
                        return isinstance(q, tuple) and q[:2] == p[:2]
                    sspec = shrink_spec(spec, same_gen, 30)
                    col.violation(f'oracle:codegen:{fam}:{p[0]}:{p[1]}:{to_class(sspec)}', 'generating the parser of a grammar that compiles raised a foreign exception / hung',
                                  {'oracle': 'only TatSu exceptions', 'grammar': to_text(sspec), 'original': gtext, 'outcome': p})
                p = None
        if getattr(col, 'hangs', 0) >= 2:
            col.count(f'{fam}.stopped-after-two-hangs')
            return
        if fam == 'scale':
            texts = [scale_text(spec)]
            seconds = 45        # the parses take 0.05 - 1 s on an idle machine; the deadline only has to tell a hang from a loaded machine
        else:
            texts = names_texts(rng, spec)
            seconds = 5
        skw = {'start': spec['names'][spec['startkw']]} if fam == 'names' and spec['startkw'] else {}
        for text in texts:
            variants = [{'input': 'text', 'parse_kw': dict(skw)}]
            r = rng.random()
            if r < 0.35:
                variants.append({'input': 'buffer', 'parse_kw': dict(skw, parseinfo=True)})
            elif r < 0.55:
                variants.append({'input': 'textlines', 'parse_kw': dict(skw, parseinfo=rng.random() < 0.5)})
            elif r < 0.7:
                variants.append({'input': 'text', 'parse_kw': dict(skw, memoization=False)})
            elif r < 0.8:
                variants.append({'input': 'text', 'parse_kw': dict(skw, parseinfo=True)})
            elif r < 0.9 and fam == 'names':
                variants.append({'input': 'text', 'parse_kw': dict(skw, trace=True, colorize=rng.random() < 0.5)})
            for v in variants:
                col.case([fam, gtext, len(text), text[:60], repr(v)], nontrivial=bool(text))
                judge_spec(col, spec, gtext, m, 'model', text, v, seconds)
            if p is not None:
                v = rng.choice(variants)
                col.case([fam + '-gen', gtext, len(text), text[:60], repr(v)], nontrivial=bool(text))
                judge_spec(col, spec, gtext, p, 'generated', text, v, seconds)


def main():
    chk = Check(PID)
    chk.rule = ('M1: the five character-level matchers on ALL strings over {1 _ + - . e a superscript-2 arabic-3 space} up to length 4 (quick) / 5 '
                '(thorough) at every position, implementation vs Matchers.v; engine: random grammars with @meta expressions and $->, rule headers in '
                'every accepted shape (decorators @name/@isname/@nomemo/@nostak alone and combined on any rule incl. the start rule, rule parameters, '
                ': := ::= definitions, @override re-definitions, based rules) and directives (whitespace/comments/eol_comments patterns from pools '
                'that include every way of matching the EMPTY string, nameguard, ignorecase, namechars, left_recursion, memoization, parseinfo) x '
                'unicode texts (controls, CR/LF/CRLF, LS, non-decimal digits, astral, comment openers/closers) x {str, TextLines object, legacy Buffer '
                'object} x {parseinfo} x scanner settings handed to the input object or to parse() x engine settings (memoization, left_recursion, '
                'start=<another rule>, the console tracer) x {model.parse, the generated parser class (one reused instance)}; compile: generated grammar texts (plain and '
                'with rule shapes / directives) with 1-3 random insertions/deletions/transpositions, and parses with the mutated texts that are '
                'accepted. Checked: exception class, hang, recursion, failure position/line info, message renders. Failing configurations are shrunk '
                '(settings dropped, text halved) before the signature is taken. lexical: regular expressions as written (layout, multi-line, inline '
                'flags in every position, raw control characters, quotes, slashes, wide characters, slips) in every regex syntax and place incl. the '
                'directives and string forms, grammar texts with LF/CRLF/CR line ends; evaluated constants (interpolation, expressions, re-evaluated '
                'literals, unsafe and broken expressions, all constant forms and places) over captures of every value type x texts outside ASCII / '
                'Latin-1 / the BMP; compile, code generation, model and generated parser, shrunk feature by feature. scale: long FLAT texts (1100-3200 '
                'units) for every iterating construct (closures, joins, gathers, left / right joins, loops around optionals, choices, lookaheads, '
                'skip-to, runs of comments / blanks) x element / separator forms x the ways a loop sits in a rule x layouts x good / bad ends, no '
                'recursive rule: no RecursionError, foreign exception or hang, failures far into the text at valid positions. names: every identifier '
                'position (rule definitions, calls, includes, bases, start=, labels, parameters, keywords, grammar name) x every lexical shape '
                '(underscores only, leading / trailing underscores, upper / title / mixed case, digits, non-ASCII incl. title-case and caseless, '
                'Python keywords / builtins / engine attribute names, shapes just outside the language).')
    chk.trusted += ['Python int()/float() accept the literals [+-]?D(_?D)* with D = str.isdecimal (checked on every matched slice by M1)',
                    'unicode predicates are oracles per string; the engine-level and compile-level parts are implementation oracles']
    chk.coq()
    ok, out = vlib.build_modelrun('Matchers')
    chk.obligation('modelrun_Matchers builds', 'build', ok, out[-500:])
    if ok:
        if chk.quick:
            vlib.run_sharded(chk, shard_matchers, 14, extra=(14, 4))
            vlib.run_sharded(chk, shard_engine, 14, extra=(60, 8))
            vlib.run_sharded(chk, shard_compile, 14, extra=(60,))
            vlib.run_sharded(chk, shard_lexical, 14, extra=(120, 5))
            vlib.run_sharded(chk, shard_shapes, 14, extra=('scale', 9))
            vlib.run_sharded(chk, shard_shapes, 14, extra=('names', 30))
            vlib.run_sharded(chk, shard_scale_probes, len(SCALE_PROBES), procs=1)
            vlib.run_sharded(chk, shard_eol, len(EOL_GRAMMARS))
            vlib.run_sharded(chk, shard_const_probes, len(CONST_PROBES))
            vlib.run_sharded(chk, shard_undefined, 1, procs=1)
        else:
            vlib.run_sharded(chk, shard_matchers, 28, extra=(28, 5))
            vlib.run_sharded(chk, shard_engine, 28, extra=(150, 10))
            vlib.run_sharded(chk, shard_compile, 28, extra=(400,))
            vlib.run_sharded(chk, shard_lexical, 28, extra=(400, 6))
            vlib.run_sharded(chk, shard_shapes, 28, extra=('scale', 40))
            vlib.run_sharded(chk, shard_shapes, 28, extra=('names', 200))
            vlib.run_sharded(chk, shard_scale_probes, len(SCALE_PROBES), procs=1)
            vlib.run_sharded(chk, shard_eol, len(EOL_GRAMMARS))
            vlib.run_sharded(chk, shard_const_probes, len(CONST_PROBES))
            vlib.run_sharded(chk, shard_undefined, 1, procs=1)
        chk.obligation('M1: matchers vs Matchers.v (exhaustive small scope)', 'correspondence',
                       not any(v['signature'].startswith('M1') for v in chk.violations))
        chk.obligation('no foreign exception / hang / unbounded recursion; failures at valid positions (implementation only)', 'oracle',
                       not any(v['signature'].startswith('oracle:') for v in chk.violations))
        if not chk.quick:
            chk.exhaustive = True
    return chk.finish()


if __name__ == '__main__':
    sys.exit(main())
